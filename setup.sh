#!/bin/sh
# Offline setup: put icontract/deal beside the repository's interpreter (into /verif/.deps).
set -e
cd "$(dirname "$0")"
if [ ! -d .deps/icontract ]; then
  PIP_NO_INDEX=1 /venv/bin/pip install --quiet --no-index --find-links /opt/veriftools/wheels --target .deps icontract deal
fi
/venv/bin/python -c "import sys; sys.path.insert(0,'.deps'); import icontract, deal; import openmdao; print('setup ok', openmdao.__file__)"
