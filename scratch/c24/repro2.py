import sys
import openmdao.api as om
mode = sys.argv[1]
p = om.Problem()
m = p.model
g = m.add_subsystem('g', om.Group())
g.add_subsystem('ix', om.IndepVarComp('x', 1.0))
g.add_subsystem('c', om.ExecComp(['y1 = 3*x', 'y2 = 5*x']))     # y2 feeds no response
g.connect('ix.x', 'c.x')
g.linear_solver = om.DirectSolver(assemble_jac=False)
m.linear_solver = om.LinearBlockGS(maxiter=10, iprint=2, err_on_non_converge=True)
p.setup(mode=mode); p.run_model()
print(p.compute_totals(of=['g.c.y1'], wrt=['g.ix.x']))
