import openmdao.api as om
p = om.Problem()
m = p.model
m.add_subsystem('ix', om.IndepVarComp('x', 1.0))
m.add_subsystem('iz', om.IndepVarComp('z', 1.0))          # design variable that influences nothing
m.add_subsystem('c', om.ExecComp('y = 3*x'))
m.connect('ix.x', 'c.x')
m.add_design_var('ix.x'); m.add_design_var('iz.z'); m.add_objective('c.y')
m.linear_solver = om.ScipyKrylov()
m.linear_solver.precon = om.LinearBlockGS(maxiter=2, iprint=-1)
p.setup(mode='fwd'); p.run_model()
print(p.compute_totals())
