import openmdao.api as om
p = om.Problem()
m = p.model
m.add_subsystem('ix', om.IndepVarComp('x', 1.0))
m.add_subsystem('iq', om.IndepVarComp('q', 2.0))          # not a design variable
m.add_subsystem('c', om.ExecComp('y = 3*x'))
m.add_subsystem('r', om.ExecComp('z = 5*q'))              # response without design variable
m.connect('ix.x', 'c.x'); m.connect('iq.q', 'r.q')
m.add_design_var('ix.x'); m.add_objective('c.y'); m.add_constraint('r.z', upper=100.)
m.linear_solver = om.LinearBlockGS(maxiter=20, err_on_non_converge=True)
p.setup(mode='rev'); p.run_model()
print(p.compute_totals())
