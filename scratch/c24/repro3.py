import openmdao.api as om
class Imp(om.ImplicitComponent):                  # R_y0 = y0 - 2*y1 ,  R_y1 = y1 - 3*x   =>  y0 = 6x
    def setup(self):
        self.add_input('x', 1.0); self.add_output('y0', 0.0); self.add_output('y1', 0.0)
        self.declare_partials('y0', ['y0', 'y1']); self.declare_partials('y1', ['y1', 'x'])
    def apply_nonlinear(self, i, o, r):
        r['y0'] = o['y0'] - 2*o['y1']; r['y1'] = o['y1'] - 3*i['x']
    def linearize(self, i, o, J):
        J['y0','y0'] = 1.; J['y0','y1'] = -2.; J['y1','y1'] = 1.; J['y1','x'] = -3.
p = om.Problem()
p.model.add_subsystem('ix', om.IndepVarComp('x', 1.0))
g = p.model.add_subsystem('g', om.Group())
g.add_subsystem('c', Imp())
g.nonlinear_solver = om.NewtonSolver(solve_subsystems=False, iprint=-1)
g.linear_solver = om.DirectSolver()
p.model.connect('ix.x', 'g.c.x')
p.model.add_design_var('ix.x'); p.model.add_objective('g.c.y0')
p.setup(); p.run_model()
print(p['g.c.y0'], p.compute_totals())     # exact: d y0 / d x = 6
