#!/venv/bin/python
"""mkseeder2.py CNN tag -> second-round seeder task with a diversity hint from earlier seeded changes of the property."""
import json, glob, subprocess, sys, os
pid, tag = sys.argv[1], sys.argv[2]
hints = []
for mp in sorted(glob.glob('/verif/seeded/%s-*/meta.json' % pid)):
    m = json.load(open(mp))
    hints.append('- files %s: %s' % (', '.join(m['files_changed']), m['needs_to_manifest']))
extra = ('\nDIVERSITY: another participant has already delivered the following change(s) for this property; yours must use a '
         'DIFFERENT mechanism, preferably in a different function/file among the anchors, and need a different kind of '
         'trigger:\n' + '\n'.join(hints) + '\n') if hints else ''
out = subprocess.check_output(['/verif/scratch/mkseeder.py', pid, tag, extra]).decode()
os.makedirs('/tmp/%s/out' % tag, exist_ok=True)
open('/tmp/%s/TASK.md' % tag, 'w').write(out)
print(tag, len(out))
