#!/bin/bash
# reseed.sh "tag CNN" ...: recreate /tmp/val-<tag> from /repo HEAD + seeded patch, run the check, log, remove
cd /verif
for t in "$@"; do set -- $t; tag=$1; prop=$2
  wt=/tmp/val-$tag
  git -C /repo worktree remove --force $wt 2>/dev/null
  git -C /repo worktree add --detach $wt HEAD >/dev/null 2>&1
  if ! git -C $wt apply /verif/seeded/$prop-$tag/patch.diff 2>/dev/null; then echo "$prop-$tag PATCH-DOES-NOT-APPLY" >> scratch/seedrun.log; git -C /repo worktree remove --force $wt; continue; fi
  scratch/seedrun.sh "$tag $prop"
  git -C /repo worktree remove --force $wt
done
