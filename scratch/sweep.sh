#!/bin/bash
# sweep.sh <outdir> <seed> : quick tier of every released check, sequentially
cd /verif
out=$1; seed=$2; mkdir -p $out; : > $out/SUMMARY
for c in $(cat omv/checks/RELEASED); do
  t0=$(date +%s)
  VERIF_SEED=$seed ./check $c --tier quick --jobs ${JOBS:-8} > $out/$c.log 2>&1
  echo "$c exit=$? t=$(( $(date +%s) - t0 )) $(grep -E '^(HELD|VIOLATED|INCONCLUSIVE)' $out/$c.log | head -1 | cut -c1-110)" >> $out/SUMMARY
done
echo ALLDONE >> $out/SUMMARY
