# stall_tol_type='rel': first comparison uses absolute norm0 as reference
import openmdao.api as om
def run(typ, x0, lim=3):
    p = om.Problem()
    p.model.add_subsystem('comp', om.ExecComp('y=3*x+1'), promotes=['*'])
    bal = p.model.add_subsystem('balance', om.BalanceComp(), promotes=['*'])
    bal.add_balance('x', val=x0, lower=-.1, upper=10, rhs_val=0, lhs_name='y')
    nt = p.model.nonlinear_solver = om.NewtonSolver(solve_subsystems=True, maxiter=100, iprint=2,
            err_on_non_converge=True, stall_limit=lim, stall_tol=1e-8, stall_tol_type=typ)
    p.model.linear_solver = om.DirectSolver()
    p.setup()
    try:
        p.run_model()
    except om.AnalysisError as e:
        print(typ, x0, '->', e)
for typ in ('abs', 'rel'):
    run(typ, -0.1)      # starts on the bound: every norm is 0.7 (norm0 = 0.7 != 1)
