# stall_tol_type='rel': a 4x residual reduction on the first iteration is taken for a stall
# because the relative norm (0.258) is compared with the ABSOLUTE initial norm (0.258)
import openmdao.api as om
for typ in ('rel',):
    p = om.Problem()
    m = p.model
    s = 0.22615
    m.add_subsystem('c1', om.ExecComp('y=0.3*x+%r' % (1.0 * s)))
    m.add_subsystem('c2', om.ExecComp('y=0.4*x-%r' % (0.5 * s)))
    m.connect('c1.y', 'c2.x'); m.connect('c2.y', 'c1.x')
    m.nonlinear_solver = om.NonlinearBlockGS(maxiter=50, atol=1e-10, rtol=1e-10, iprint=2,
                                             use_apply_nonlinear=True,
                                             stall_limit=1, stall_tol=1e-2, stall_tol_type=typ)
    p.setup()
    p.set_val('c1.x', s); p.set_val('c2.x', s); p.set_val('c1.y', s); p.set_val('c2.y', s)
    p.run_model()
