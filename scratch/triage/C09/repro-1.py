# stall detected on the same iterate that meets the tolerance -> reported as failure
import openmdao.api as om
p = om.Problem()
m = p.model
m.add_subsystem('c1', om.ExecComp('y=0.3*x+1.0'))
m.add_subsystem('c2', om.ExecComp('y=0.4*x-0.5'))
m.connect('c1.y', 'c2.x'); m.connect('c2.y', 'c1.x')
m.nonlinear_solver = om.NonlinearBlockGS(maxiter=50, atol=1e-6, rtol=1e-30, iprint=2,
                                         err_on_non_converge=True, use_apply_nonlinear=True,
                                         stall_limit=1, stall_tol=1e-5, stall_tol_type='abs')
p.setup()
try:
    p.run_model()
    print('converged')
except om.AnalysisError as e:
    print('AnalysisError:', e)
r = m._residuals.get_norm()
print('final residual norm', r, '<= atol', r <= 1e-6)
