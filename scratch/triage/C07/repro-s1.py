"""C07 / s1: set_val before final_setup raises for a true scalar whose value is held as a 0-d array.

Variables of shape () that get their value as a 0-d ndarray (component option default_shape=(), val=np.array(v),
ExecComp variables with shape=(), auto-IVC outputs behind such inputs) cannot be set between setup() and
final_setup(): AllConnGraph.set_subarray does `arr[:] = val` on the 0-d array.  After final_setup the same call works.
Exit 1 when the defect is present."""
import sys
import numpy as np
import openmdao.api as om

bad = []
for phase in ('after setup', 'after final_setup'):
    p = om.Problem()
    iv = p.model.add_subsystem('iv', om.IndepVarComp(default_shape=()))
    iv.add_output('s', 2.0, units='m')
    p.model.add_subsystem('e', om.ExecComp('y=2*x', x={'shape': (), 'units': 'cm'}, y={'shape': ()}))
    p.model.add_subsystem('f', om.ExecComp('y=3*x', default_shape=(), x={'units': 'mm'}), promotes_inputs=['x'])
    p.model.connect('iv.s', 'e.x')
    p.setup()
    if phase == 'after final_setup':
        p.final_setup()
    for name, v in (('iv.s', 4.5), ('e.x', 30.0), ('e.y', 1.5), ('x', 7.0), ('f.x', 8.0)):
        try:
            p.set_val(name, v)
            got = float(np.asarray(p.get_val(name)))
            if got != v:
                bad.append('%s: set_val(%r, %r) then get_val -> %r' % (phase, name, v, got))
        except Exception as e:
            bad.append('%s: set_val(%r, %r) raised %s: %s' % (phase, name, v, type(e).__name__, str(e)[:90]))
print('\n'.join(bad) if bad else 'PASS')
sys.exit(1 if bad else 0)
