"""C07 / s2: a set_val made between setup() and final_setup() is lost in an auto-IVC tree that contains a dynamically
shaped input and has a set_input_defaults value.

Trees with dynamic shapes are resolved a second time in final_setup (_setup_part2 -> update_all_node_meta);
get_val_from_children returns defaults.val for the promoted node, resolve_from_children writes it into the auto_ivc
node and the value given by set_val is gone.  Exit 1 when the defect is present."""
import sys
import numpy as np
import openmdao.api as om

p = om.Problem()
p.model.add_subsystem('A', om.ExecComp('y=2*x', x={'shape_by_conn': True}, y={'copy_shape': 'x'}),
                      promotes_inputs=['x'])
p.model.add_subsystem('B', om.ExecComp('y=3*x', x=np.ones(3), y=np.ones(3)), promotes_inputs=['x'])
p.model.set_input_defaults('x', val=5 * np.ones(3))
p.setup()
p.set_val('x', [1., 2., 3.])
before = p.get_val('x').copy()
p.final_setup()
after = p.get_val('x').copy()
p.run_model()
print('after set_val:', before, ' after final_setup:', after, ' A.y:', p.get_val('A.y'))
ok = np.array_equal(after, [1., 2., 3.]) and np.array_equal(p.get_val('A.y'), [2., 4., 6.])
print('PASS' if ok else 'FAIL: the value set before final_setup was replaced by the set_input_defaults value')
sys.exit(0 if ok else 1)
