import numpy as np, openmdao.api as om
def build(kind, **kw):
    p = om.Problem()
    p.model.add_subsystem('c', om.ExecComp(['g=x', 'f=(x-5)**2']), promotes=['*'])
    if kind == 'dv':
        p.model.add_design_var('x', lower=0, upper=2, **kw)
    else:
        p.model.add_design_var('x', lower=-10, upper=10)
        p.model.add_constraint('g', lower=0, upper=2, **kw)
    p.model.add_objective('f')
    p.driver = om.ScipyOptimizeDriver(optimizer='SLSQP', disp=False)
    p.setup(); p.set_val('x', 1.0)
    return p
for kind in ('dv', 'con'):
    for kw in ({'scaler': -2.0}, {'ref': 1.0, 'ref0': 3.0}):
        p = build(kind, **kw); p.final_setup()
        lo, hi, _ = p.driver._autoscaler.get_bounds_scaling('design_var' if kind == 'dv' else 'constraint')
        n = 'x' if kind == 'dv' else 'g'
        print(kind, kw, 'optimizer-space lower', lo[n], 'upper', hi[n])
        try:
            p.run_driver(); print('   success', p.driver.result.success, 'x =', p.get_val('x'), '(exact 2)')
        except Exception as e:
            print('   raises', type(e).__name__, str(e)[:100])
