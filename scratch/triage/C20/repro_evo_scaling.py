"""SimpleGADriver / DifferentialEvolutionDriver with driver scaling on a design variable / constraint.

1. start: x = 0.3 with bounds [0, 10] and ref=4, ref0=1 -> driver-scaled value (0.3-1)/3 = -0.2333.
   DE puts "the user initial condition" into the first generation; it writes -0.2333 (the scaled value, taken
   as unscaled) instead of 0.3: a point outside the declared bounds, and here the best of the generation,
   so run_driver leaves the model at x = -0.2333 < lower.
2. penalty: constraint g = x >= 2 declared with ref=10 (scaled value x/10).  At x = 5 (feasible) the penalty
   compares the scaled value 0.5 with the unscaled bound 2 -> violation 1.5, penalized objective f + 15.
Exit 1 when either is observed.
"""
import sys
import warnings
import numpy as np
import openmdao.api as om

warnings.simplefilter('ignore')
bad = []
for D in (om.DifferentialEvolutionDriver, om.SimpleGADriver):
    kw = dict(max_gen=0, pop_size=4)
    if D is om.SimpleGADriver:
        kw['bits'] = {'x': 16}
    p = om.Problem(reports=False)
    p.model.add_subsystem('c', om.ExecComp(['f = (x + 1.0)**2', 'g = x']), promotes=['*'])
    p.model.add_design_var('x', lower=0.0, upper=10.0, ref=4.0, ref0=1.0)
    p.model.add_objective('f')
    p.model.add_constraint('g', lower=2.0, ref=10.0)
    p.driver = drv = D(**kw)
    p.setup()
    p.set_val('x', 0.3)
    written = []
    orig = drv._set_design_var
    drv._set_design_var = lambda name, value, **k: (written.append(float(np.ravel(value)[0])), orig(name, value, **k))[1]
    p.run_driver()
    step = 10.0 / (2 ** 16 - 1) if D is om.SimpleGADriver else 1e-12
    print(D.__name__, 'points written:', written)
    if not any(abs(w - 0.3) <= step for w in written):
        bad.append('%s: the start x=0.3 is not among the points of the first generation; %.4f (its driver-scaled '
                   'value) is' % (D.__name__, (0.3 - 1.0) / 3.0))
    if p.get_val('x')[0] < 0.0:
        bad.append('%s: run_driver ends at x=%g, below lower=0' % (D.__name__, p.get_val('x')[0]))
    fun = float(np.ravel(drv.objective_callback(np.array([5.0]), 0)[0])[0])
    print(D.__name__, 'penalized objective at the feasible x=5:', fun, ' objective:', 36.0)
    if abs(fun - 36.0) > 1e-9:
        bad.append('%s: feasible point x=5 (g=5 >= 2) is penalized: %g instead of 36 (scaled value 0.5 compared '
                   'with the unscaled bound 2)' % (D.__name__, fun))
if bad:
    print('FAIL')
    print('\n'.join(bad))
    sys.exit(1)
print('PASS')
