import numpy as np, openmdao.api as om
p = om.Problem()
p.model.add_subsystem('c', om.ExecComp(['g=2*x', 'f=sum((x-5)**2)'], x=np.zeros(2), g=np.zeros(2)), promotes=['*'])
p.model.add_design_var('x', lower=-10, upper=10)
p.model.add_constraint('g', upper=4.0, scaler=np.array([2.0, 0.5]))
p.model.add_objective('f')
p.driver = om.ScipyOptimizeDriver(optimizer='SLSQP', disp=False)
p.setup(); p.run_driver()
print('x', p.get_val('x'))
dv, con = p.driver.compute_lagrange_multipliers()        # exact: df/dbound = -2*(5-2)/2 -> lambda = 3 (|.|) each, independent of scaler
print(con['g']['multipliers'])
