import numpy as np, openmdao.api as om
p = om.Problem()
c = p.model.add_subsystem('c', om.ExecComp(['g=3*x', 'f=x*x', 'h=2*x'], x={'units': 'm'}, g={'units': 'm'}, h={'units':'m'}, f={'units':'m**2'}), promotes=['*'])
p.model.add_design_var('x', units='cm', lower=-1000, upper=1000)
p.model.add_constraint('g', upper=100., units='km', linear=True)
p.model.add_constraint('h', upper=100., units='km')
p.model.add_objective('f')
p.driver = om.ScipyOptimizeDriver(optimizer='SLSQP', disp=False)
p.setup(); p.set_val('x', 2.0); p.run_model()
d = p.driver
print('all nl responses (f,h):', d._compute_totals(of=['f','h'], wrt=['x'], return_format='flat_dict'))
d._total_jac=None
print('only h:', d._compute_totals(of=['h'], wrt=['x'], return_format='flat_dict'), 'expected 2*1e-3/1e2=2e-5')
d._total_jac=None; d._total_jac_linear=None
print('linear g:', d._compute_totals(of=['g'], wrt=['x'], return_format='flat_dict'), 'expected 3e-5')
d._total_jac=None; d._total_jac_linear=None
print('problem.compute_totals(driver_scaling=True):', p.compute_totals(of=['f','g','h'], wrt=['x'], driver_scaling=True))
print('problem.compute_totals(driver_scaling=False):', p.compute_totals(of=['f','g','h'], wrt=['x'], driver_scaling=False))
print('problem.compute_totals() default of/wrt, ds=True:', p.compute_totals(driver_scaling=True))
print('problem.compute_totals() default of/wrt, ds=False:', p.compute_totals(driver_scaling=False))
