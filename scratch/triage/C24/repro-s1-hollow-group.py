"""C24 (strengthening round s): a sub-group that is 'relevant' as a group although none of its components is.

ga = Group[c12: y12 = 2*y11 (downstream of x0, not upstream of y21); c20: y20 = 3*x2 (upstream of y21, not downstream of x0)]
c21: y21 = y20 + 5*x0.   rev mode, compute_totals(of=['y11', 'y21'], wrt=['x0']).
For the reverse seed y21 the relevant systems are (forward cone of x0) & (backward cone of y21); on the level of
SYSTEMS ga is in both (c12 puts it into the first, c20 into the second) although neither c12 nor c20 is relevant.
So root LinearBlockGS calls ga's linear solver; ga's right-hand side contains d y21/d y20 (put there by the reverse
transfer from c21 when c21 is matrix free: compute_jacvec_product fills d_inputs['y20']); ga's solver skips both
components and can never reduce its residual; the root solver's norm sees the same entry.  With relevance disabled
(OPENMDAO_NO_RELEVANCE=1) everything converges in 2 sweeps.
usage: python repro-s1-hollow-group.py [mf|exp] [lnbgs|krylov]
"""
import sys
import numpy as np
import openmdao.api as om

kind = sys.argv[1] if len(sys.argv) > 1 else 'mf'
sub = sys.argv[2] if len(sys.argv) > 2 else 'lnbgs'


class C21(om.ExplicitComponent):
    def setup(self):
        self.add_input('y20', 1.0)
        self.add_input('x0', 1.0)
        self.add_output('y21', 1.0)
        self.declare_partials('y21', ['y20', 'x0'])

    def compute(self, inputs, outputs):
        outputs['y21'] = inputs['y20'] + 5.0 * inputs['x0']


class C21exp(C21):
    def compute_partials(self, inputs, partials):
        partials['y21', 'y20'] = 1.0
        partials['y21', 'x0'] = 5.0


class C21mf(C21):
    def compute_jacvec_product(self, inputs, d_inputs, d_outputs, mode):
        if 'y21' in d_outputs:
            if mode == 'fwd':
                if 'y20' in d_inputs:
                    d_outputs['y21'] += d_inputs['y20']
                if 'x0' in d_inputs:
                    d_outputs['y21'] += 5.0 * d_inputs['x0']
            else:
                if 'y20' in d_inputs:
                    d_inputs['y20'] += d_outputs['y21']
                if 'x0' in d_inputs:
                    d_inputs['x0'] += 5.0 * d_outputs['y21']


p = om.Problem()
m = p.model
m.add_subsystem('iv', om.IndepVarComp(), promotes=['*'])
m.iv.add_output('x0', 1.0)
m.iv.add_output('x2', 2.0)
m.add_subsystem('c11', om.ExecComp('y11 = 4*x0'), promotes=['*'])
ga = m.add_subsystem('ga', om.Group(), promotes=['*'])
ga.add_subsystem('c12', om.ExecComp('y12 = 2*y11'), promotes=['*'])
ga.add_subsystem('c20', om.ExecComp('y20 = 3*x2'), promotes=['*'])
m.add_subsystem('c21', C21mf() if kind == 'mf' else C21exp(), promotes=['*'])
kw = dict(maxiter=10, atol=1e-12, rtol=1e-12, iprint=-1, err_on_non_converge=True)
ga.linear_solver = om.LinearBlockGS(**kw) if sub == 'lnbgs' else om.ScipyKrylov(**kw)
m.linear_solver = om.LinearBlockGS(**kw)
p.setup(mode='rev')
p.run_model()
try:
    J = p.compute_totals(of=['y11', 'y21'], wrt=['x0'])
    print('totals', {k: v.ravel().tolist() for k, v in J.items()}, ' expected y11: 4, y21: 5')
    ok = abs(J['y11', 'x0'][0, 0] - 4.0) < 1e-9 and abs(J['y21', 'x0'][0, 0] - 5.0) < 1e-9
    sys.exit(0 if ok else 1)
except om.AnalysisError as e:
    print('AnalysisError:', e)
    sys.exit(1)
