"""C24 live-seed:mixed-stack-sibling - standalone repro (only openmdao).
g0 = [iv(a, b), c0: y = 2 b]  with LinearBlockGS;  g1 = [c1: y = 3 a, c3: y = u + v]  with DirectSolver (assembled jac);
g0.c0.y -> g1.c3.u, g0.iv.a -> g1.c1.a.   d g1.c3.y / d g0.iv.a = 3, rev mode.
For the pair (a, c3.y) the component g0.c0 is irrelevant.  g1's assembled jacobian nevertheless produces d_inputs for
c3.u; the reverse transfer puts it into g0.c0.y of g0's right-hand side; g0's solver skips c0 but its convergence norm
contains that entry -> never converges."""
import openmdao.api as om
import openmdao.utils.relevance as rel


def run(norel, g0solver):
    rel._no_relevance = norel
    p = om.Problem()
    g0 = p.model.add_subsystem('g0', om.Group())
    iv = g0.add_subsystem('iv', om.IndepVarComp())
    iv.add_output('a', 1.0)
    iv.add_output('b', 1.0)
    g0.add_subsystem('c0', om.ExecComp('y=2*b'))
    g0.connect('iv.b', 'c0.b')
    g1 = p.model.add_subsystem('g1', om.Group())
    g1.add_subsystem('c1', om.ExecComp('y=3*a'))
    g1.add_subsystem('c3', om.ExecComp('y=u+v'))
    g1.connect('c1.y', 'c3.v')
    p.model.connect('g0.iv.a', 'g1.c1.a')
    p.model.connect('g0.c0.y', 'g1.c3.u')
    g0.linear_solver = g0solver(maxiter=10, err_on_non_converge=True, iprint=-1)
    g1.linear_solver = om.DirectSolver()
    p.setup(mode='rev')
    p.run_model()
    try:
        return p.compute_totals(of=['g1.c3.y'], wrt=['g0.iv.a'], return_format='array')
    except om.AnalysisError as e:
        return 'AnalysisError: %s' % e


for solver in (om.LinearBlockGS, om.LinearBlockJac, om.ScipyKrylov):
    print(solver.__name__, '| relevance on:', run(False, solver), '| relevance off:', run(True, solver))
