"""C24 (strengthening round s): a matrix-free component puts a derivative value into an output that is irrelevant for
the active seeds and lives inside a RELEVANT group with approx_totals.

c00: y00 = 2*x0;  ga = Group[c02: y02 = 3*y00; c10: y10 = 4*x1] with approx_totals();  c22 (matrix free): y22 = y10 + y02
rev mode, root LinearBlockGS, compute_totals(of=['y22'], wrt=['x1']).
Relevant for (x1, y22): c10 (so ga is relevant) and c22; c00, c02 / y02 are not (not downstream of x1).
c22.compute_jacvec_product fills d_inputs['y02'] (it cannot know that y02 is irrelevant for this pair), the reverse
transfer carries the value into ga's y02.  The approximated group is one unit for the solvers, nothing zeroes the entry,
and the jacobian rows of the irrelevant output are pruned: the root solver can never bring that entry of its residual to
zero and reports non-convergence (AnalysisError with err_on_non_converge).  With OPENMDAO_NO_RELEVANCE=1, with c22 using
compute_partials, or without approx_totals on ga the same call converges in 2 sweeps.
With a root ScipyKrylov the failed gmres also returns a WRONG total.
usage: python repro-s2-approx-group-irrelevant-output.py [mf|exp] [approx|noapprox] [lnbgs|krylov]
"""
import sys
import openmdao.api as om

kind = sys.argv[1] if len(sys.argv) > 1 else 'mf'
approx = (sys.argv[2] if len(sys.argv) > 2 else 'approx') == 'approx'
root = sys.argv[3] if len(sys.argv) > 3 else 'lnbgs'


class C22(om.ExplicitComponent):
    def setup(self):
        self.add_input('y10', 1.0)
        self.add_input('y02', 1.0)
        self.add_output('y22', 1.0)
        self.declare_partials('y22', ['y10', 'y02'])

    def compute(self, inputs, outputs):
        outputs['y22'] = inputs['y10'] + inputs['y02']


class C22exp(C22):
    def compute_partials(self, inputs, partials):
        partials['y22', 'y10'] = 1.0
        partials['y22', 'y02'] = 1.0


class C22mf(C22):
    def compute_jacvec_product(self, inputs, d_inputs, d_outputs, mode):
        if 'y22' in d_outputs:
            for n in ('y10', 'y02'):
                if n in d_inputs:
                    if mode == 'fwd':
                        d_outputs['y22'] += d_inputs[n]
                    else:
                        d_inputs[n] += d_outputs['y22']


p = om.Problem()
m = p.model
m.add_subsystem('iv', om.IndepVarComp(), promotes=['*'])
m.iv.add_output('x0', 1.0)
m.iv.add_output('x1', 2.0)
m.add_subsystem('c00', om.ExecComp('y00 = 2*x0'), promotes=['*'])
ga = m.add_subsystem('ga', om.Group(), promotes=['*'])
ga.add_subsystem('c02', om.ExecComp('y02 = 3*y00'), promotes=['*'])
ga.add_subsystem('c10', om.ExecComp('y10 = 4*x1'), promotes=['*'])
if approx:
    ga.approx_totals(method='cs')
m.add_subsystem('c22', C22mf() if kind == 'mf' else C22exp(), promotes=['*'])
if root == 'lnbgs':
    m.linear_solver = om.LinearBlockGS(maxiter=10, atol=1e-12, rtol=1e-12, iprint=-1, err_on_non_converge=True)
else:
    m.linear_solver = om.ScipyKrylov(maxiter=20, atol=1e-12, rtol=1e-12, iprint=0)
p.setup(mode='rev')
p.run_model()
try:
    J = p.compute_totals(of=['y22'], wrt=['x1'])
    print('totals', {k: v.ravel().tolist() for k, v in J.items()}, ' expected 4')
    sys.exit(0 if abs(J['y22', 'x1'][0, 0] - 4.0) < 1e-9 else 1)
except om.AnalysisError as e:
    print('AnalysisError:', e)
    sys.exit(1)
