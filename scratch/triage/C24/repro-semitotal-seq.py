import numpy as np, openmdao.api as om
def build():
    p = om.Problem()
    m = p.model
    m.add_subsystem('ivc', om.IndepVarComp())
    m.ivc.add_output('x1', 2.0); m.ivc.add_output('x2', 3.0)
    G = m.add_subsystem('G', om.Group())
    G.add_subsystem('c', om.ExecComp(['ya = a*a', 'yb = 3*b*b']))
    G.add_subsystem('d', om.ExecComp('r = ya + yb'))
    G.connect('c.ya', 'd.ya'); G.connect('c.yb', 'd.yb')
    m.connect('ivc.x1', 'G.c.a'); m.connect('ivc.x2', 'G.c.b')
    G.approx_totals(method='fd')
    p.setup()
    p.run_model()
    return p
p = build()
print(p.compute_totals(of=['G.d.r'], wrt=['ivc.x1']), 'exp 4')
print(p.compute_totals(of=['G.d.r'], wrt=['ivc.x2']), 'exp 18')
print(p.compute_totals(of=['G.d.r'], wrt=['ivc.x1','ivc.x2']))
