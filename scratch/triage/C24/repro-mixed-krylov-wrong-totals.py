import numpy as np
import openmdao.api as om
import openmdao.utils.relevance as rel

class C0(om.ImplicitComponent):
    # R_y = y - 2 b ,  R_z = z - 4 a
    def setup(self):
        self.add_input('a', 1.0); self.add_input('b', 1.0)
        self.add_output('y', 1.0); self.add_output('z', 1.0)
        self.declare_partials('y', 'y', val=1.0); self.declare_partials('y', 'b', val=-2.0)
        self.declare_partials('z', 'z', val=1.0); self.declare_partials('z', 'a', val=-4.0)
    def apply_nonlinear(self, i, o, r):
        r['y'] = o['y'] - 2 * i['b']; r['z'] = o['z'] - 4 * i['a']
    def solve_nonlinear(self, i, o):
        o['y'] = 2 * i['b']; o['z'] = 4 * i['a']
    def linearize(self, i, o, J):
        pass

def run(norel, mode, rootsolver, g1solver):
    rel._no_relevance = norel
    p = om.Problem()
    iv = p.model.add_subsystem('iv', om.IndepVarComp())
    iv.add_output('a', 1.0); iv.add_output('b', 1.0)
    p.model.add_subsystem('c0', C0())
    g1 = p.model.add_subsystem('g1', om.Group())
    g1.add_subsystem('c3', om.ExecComp('y=u+v'))
    p.model.connect('iv.b', 'c0.b'); p.model.connect('iv.a', 'c0.a')
    p.model.connect('c0.y', 'g1.c3.u'); p.model.connect('c0.z', 'g1.c3.v')
    g1.linear_solver = g1solver()
    p.model.linear_solver = rootsolver(maxiter=20, iprint=0)
    p.setup(mode=mode)
    p.run_model()
    try:
        return p.compute_totals(of=['g1.c3.y'], wrt=['iv.a'], return_format='array')
    except om.AnalysisError as e:
        return 'AnalysisError: %s' % e

if __name__ == '__main__':
    for name, g1s in (('DirectSolver(assemble_jac=True)', om.DirectSolver), ('DirectSolver(assemble_jac=False)', lambda: om.DirectSolver(assemble_jac=False)), ('LinearRunOnce', om.LinearRunOnce)):
        for S in (om.ScipyKrylov, om.LinearBlockGS, om.LinearBlockJac):
            for mode in ('rev', 'fwd'):
                print('g1:', name, '| root:', S.__name__, mode, '| relevance on:', run(False, mode, S, g1s), '| off:', run(True, mode, S, g1s))
