import numpy as np, scipy.sparse as sp, openmdao.api as om
class C(om.ExplicitComponent):
    def setup(self):
        self.add_input('x', np.ones(2)); self.add_output('y', np.ones(2))
        self.declare_partials('y', 'x', val=sp.csr_matrix(np.eye(2)))
    def compute(self, i, o):
        o['y'] = 3.0 * i['x']
    def compute_partials(self, i, J):
        J['y', 'x'] = sp.csr_matrix(3.0 * np.eye(2))      # real constant, also under complex step
p = om.Problem()
p.model.add_subsystem('i', om.IndepVarComp('x', np.ones(2)))
p.model.add_subsystem('c', C())
p.model.connect('i.x', 'c.x')
p.model.nonlinear_solver = om.NewtonSolver(solve_subsystems=False)
p.model.linear_solver = om.DirectSolver()        # assembled jacobian at the root (default)
p.setup(force_alloc_complex=True)
p.run_model()
c = p.model.c
p.model.run_linearize(); c.run_apply_linear('fwd')            # caches real views in c's dictionary jacobian
p.set_complex_step_mode(True)
p.model.run_linearize()
c._dinputs.set_val(0.0); c._doutputs.set_val(0.0); c._dresiduals.set_val(0.0)
c._dinputs['x'] = np.array([1 + 2j, 0])
c.run_apply_linear('fwd')
print(c._dresiduals['y'])     # [3.+0.j 0.+0.j]  expected [3.+6.j 0.+0.j]
