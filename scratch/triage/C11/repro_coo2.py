import numpy as np, scipy.sparse as sp, openmdao.api as om
class C(om.ExplicitComponent):
    def setup(self):
        self.add_input('x', np.ones(2)); self.add_output('y', np.ones(2))
        self.declare_partials('y', 'x', val=sp.coo_matrix(np.eye(2)))
    def compute(self, i, o):
        o['y'] = 2*i['x']
p = om.Problem()
p.model.add_subsystem('i', om.IndepVarComp('x', np.ones(2)))
g = p.model.add_subsystem('g', om.Group())
g.add_subsystem('c', C())
p.model.connect('i.x', 'g.c.x')
g.nonlinear_solver = om.NewtonSolver(solve_subsystems=False, maxiter=2, iprint=-1)
g.linear_solver = om.DirectSolver()
p.model.approx_totals(method='cs')
p.setup(force_alloc_complex=True)
p.run_model()
print(p.compute_totals(of=['g.c.y'], wrt=['i.x']))
