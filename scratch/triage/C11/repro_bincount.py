import numpy as np, openmdao.api as om
class C(om.ExplicitComponent):
    def setup(self):
        self.add_input('x', np.ones(2)); self.add_input('z', np.ones(2)); self.add_output('y', np.ones(2))
        self.declare_partials('y', ['x', 'z'], rows=[0, 1], cols=[0, 1])
    def compute(self, i, o):
        o['y'] = i['x'] ** 2 + 0.1 * i['z']
    def compute_partials(self, i, J):
        J['y', 'x'] = 2 * i['x']
        J['y', 'z'] = 0.1 * np.ones(2)
class D(om.ExplicitComponent):
    def setup(self):
        self.add_input('y', np.ones(2)); self.add_output('w', np.ones(2))
        self.declare_partials('w', 'y', val=0.5 * np.eye(2))
    def compute(self, i, o):
        o['w'] = 0.5 * i['y']
p = om.Problem()
p.model.add_subsystem('i', om.IndepVarComp('x', np.ones(2)))
g = p.model.add_subsystem('g', om.Group())
g.add_subsystem('c', C()); g.add_subsystem('d', D())
g.connect('c.y', 'd.y'); g.connect('d.w', 'c.z')
p.model.connect('i.x', 'g.c.x')
g.nonlinear_solver = om.NewtonSolver(solve_subsystems=False, maxiter=10, iprint=-1)
g.linear_solver = om.DirectSolver(assemble_jac=False)       # same with ScipyKrylov / LinearBlockGS
p.model.approx_totals(method='cs')
p.setup(force_alloc_complex=True)
p.run_model()
print(p.compute_totals(of=['g.c.y'], wrt=['i.x']))
