import numpy as np, openmdao.api as om
p = om.Problem()
ivc = p.model.add_subsystem('i', om.IndepVarComp())
ivc.add_output('x', np.ones(4), ref0=np.array([0.5, 0.1, 0.2, 0.3]))      # array ref0, scalar ref
p.model.add_subsystem('c', om.ExecComp('y=2*x'))
p.model.connect('i.x', 'c.x', src_indices=[1])
p.setup(); p.final_setup()
