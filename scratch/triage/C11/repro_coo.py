import numpy as np, scipy.sparse as sp, openmdao.api as om

class C(om.ExplicitComponent):
    def setup(self):
        self.add_input('x', np.ones(2)); self.add_output('y', np.ones(2))
        self.declare_partials('y', 'x', val=sp.coo_matrix(np.eye(2)))   # csr_matrix / csc_matrix work
    def compute(self, i, o):
        o['y'] = i['x']

p = om.Problem()
p.model.add_subsystem('c', C())
p.model.nonlinear_solver = om.NewtonSolver(solve_subsystems=False)   # makes the linear vectors complex-capable
p.setup(force_alloc_complex=True)
p.run_model()
p.model.run_linearize()
p.set_complex_step_mode(True)
p.model.run_linearize()          # TypeError: must be real number, not coo_matrix  (COOSubjac.set_dtype)
print('ok: no exception')
