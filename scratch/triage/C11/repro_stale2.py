import numpy as np, openmdao.api as om
class C(om.ExplicitComponent):
    def setup(self):
        self.add_input('x', np.ones(2)); self.add_output('y', np.ones(2))
        self.declare_partials('y', 'x')                       # dense partial
    def compute(self, i, o):
        o['y'] = i['x'] ** 2
    def compute_partials(self, i, J):
        J['y', 'x'] = np.diag(2 * i['x'])
p = om.Problem()
p.model.add_subsystem('i', om.IndepVarComp('x', np.ones(2)))
p.model.add_subsystem('c', C())
p.model.connect('i.x', 'c.x')
p.model.nonlinear_solver = om.NewtonSolver(solve_subsystems=False)
p.model.linear_solver = om.DirectSolver()                     # assemble_jac=True is the default
p.setup(force_alloc_complex=True)
p.run_model()
p.model.run_linearize()
p.model.c.run_apply_linear('fwd')        # component's dictionary Jacobian caches real vector views
p.set_complex_step_mode(True)
p.model.run_linearize()                  # root assembled jac switches the SHARED subjac value to complex first;
                                         # the component's Subjac.set_dtype then returns early, views stay real
p.model.c.run_apply_linear('fwd')        # UFuncTypeError: Cannot cast ufunc 'add' output complex128 -> float64
print('ok: no exception')
