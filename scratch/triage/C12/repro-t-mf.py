# Group.approx_totals on a group holding a matrix-free ExplicitComponent, model solved by Newton + DirectSolver:
# the exact model converges, with g.approx_totals(fd) Newton diverges / DirectSolver reports a rank-deficient jacobian.
import sys, numpy as np, openmdao.api as om
class MF(om.ExplicitComponent):          # y = sin(x) + 0.5 x, matrix-free (no declared partials)
    def setup(self):
        self.add_input('x', 1.0); self.add_output('y', 0.3)
    def compute(self, i, o): o['y'] = np.sin(i['x']) + 0.5 * i['x']
    def compute_jacvec_product(self, i, di, do, mode):
        d = np.cos(i['x']) + 0.5
        if mode == 'fwd':
            if 'x' in di and 'y' in do: do['y'] += d * di['x']
        elif 'x' in di and 'y' in do: di['x'] += d * do['y']
def run(approx, asm=False):
    p = om.Problem()
    p.model.add_subsystem('iv', om.IndepVarComp('x', 2.0))
    p.model.add_subsystem('c0', om.ExecComp('z = 1.5*x', z=0.1)); p.model.connect('iv.x', 'c0.x')
    g = p.model.add_subsystem('g', om.Group()); g.add_subsystem('c', MF()); p.model.connect('c0.z', 'g.c.x')
    if approx: g.approx_totals(method='fd', form='forward')
    p.model.nonlinear_solver = om.NewtonSolver(solve_subsystems=False, maxiter=6, iprint=-1, err_on_non_converge=False)
    p.model.linear_solver = om.DirectSolver(assemble_jac=asm)
    p.setup()
    try:
        p.run_model()
    except Exception as e:
        print('  raised', type(e).__name__, str(e)[:120])
    print('approx=%s assemble_jac=%s: y = %r (exact %.10f), newton iters %d' % (
        approx, asm, p.get_val('g.c.y'), np.sin(3.0) + 1.5, p.model.nonlinear_solver._iter_count))
    print(p.model.linear_solver._build_mtx() if not asm else p.model._assembled_jac.get_dr_do_matrix())
run(False); run(True)
