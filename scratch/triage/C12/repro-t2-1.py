# model.approx_totals() + Newton/ScipyKrylov at the root, design var + objective declared (so compute_totals keeps the
# relevance object): run_model, compute_totals, run_model again
# -> AttributeError: '_TotalJacInfo' object has no attribute '_apply' (Group._apply_linear)
import numpy as np
import openmdao.api as om


class Imp(om.ImplicitComponent):
    def setup(self):
        self.add_input('x', 1.0); self.add_output('y', 0.5); self.declare_partials('y', ['x', 'y'])
    def apply_nonlinear(self, i, o, r): r['y'] = o['y'] + 0.2 * np.sin(o['y']) - 2 * i['x']
    def linearize(self, i, o, J): J['y', 'x'] = -2.0; J['y', 'y'] = 1 + 0.2 * np.cos(o['y'])


p = om.Problem()
p.model.add_subsystem('iv', om.IndepVarComp('x', 1.0))
p.model.add_subsystem('c', Imp())
p.model.connect('iv.x', 'c.x')
p.model.nonlinear_solver = om.NewtonSolver(solve_subsystems=False, iprint=-1, atol=1e-12, rtol=1e-12, maxiter=30)
p.model.linear_solver = om.ScipyKrylov(atol=1e-14)
p.model.approx_totals(method='fd')
p.model.add_design_var('iv.x'); p.model.add_objective('c.y'); p.setup()
p.run_model()
print('y =', p.get_val('c.y'), 'jacobian after run_model:', type(p.model._jacobian).__name__)
print('total', p.compute_totals(of=['c.y'], wrt=['iv.x']), '(exact %.6f)' % (2 / (1 + 0.2 * np.cos(p.get_val('c.y')[0]))))
print('jacobian after compute_totals:', type(p.model._jacobian).__name__, ' _tot_jac:', p.model._tot_jac)
p.set_val('iv.x', 1.3)
p.run_model()       # AttributeError: '_TotalJacInfo' object has no attribute '_apply'
print('y =', p.get_val('c.y'))
