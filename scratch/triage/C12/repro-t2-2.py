# sub-group with approx_totals that is itself solved by Newton + an iterative linear solver (LinearBlockJacobi):
# totals of the model through the group come out 0 (exact cos(sin 1) cos 1 = 0.36004)
import sys
import numpy as np
import openmdao.api as om


class E(om.ExplicitComponent):
    def setup(self): self.add_input('x', 1.0); self.add_output('y', 0.0); self.declare_partials('y', 'x')
    def compute(self, i, o): o['y'] = np.sin(i['x'])
    def compute_partials(self, i, J): J['y', 'x'] = np.cos(i['x'])


p = om.Problem()
p.model.add_subsystem('iv', om.IndepVarComp('x', 1.0))
g = p.model.add_subsystem('g', om.Group())
g.add_subsystem('c1', E()); g.add_subsystem('c2', E()); g.connect('c1.y', 'c2.x')
p.model.connect('iv.x', 'g.c1.x')
if 'runonce' not in sys.argv:
    g.nonlinear_solver = om.NewtonSolver(solve_subsystems=False, iprint=-1, atol=1e-12, rtol=1e-12, maxiter=30)
    g.linear_solver = om.LinearBlockJac(iprint=-1, atol=1e-14, rtol=1e-14, maxiter=50)
g.approx_totals(method='fd')
p.model.linear_solver = om.LinearRunOnce()
p.setup()
p.run_model()
print(p.compute_totals(of=['g.c2.y'], wrt=['iv.x']), 'exact', np.cos(np.sin(1.0)) * np.cos(1.0))
print('g._jacobian:', g._jacobian, {k: v.todense() for k, v in g._jacobian._get_subjacs().items()} if g._jacobian else '')
