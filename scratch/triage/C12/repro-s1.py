import numpy as np, openmdao.api as om, sys, io, contextlib
LOG=[]
class E(om.ExplicitComponent):
    def setup(self):
        self.add_input('x', np.ones(4)); self.add_output('y', np.ones(4))
        self.declare_partials('y','x', rows=np.arange(4), cols=np.arange(4))
    def compute(self, i, o):
        LOG.append(np.array(i['x'])); o['y'] = np.sin(i['x'])
    def compute_partials(self, i, J): J['y','x'] = np.cos(i['x'])
for colored in (False, True):
    p = om.Problem()
    p.model.add_subsystem('iv', om.IndepVarComp('x', np.array([1.,1.5,2.,2.5])))
    p.model.add_subsystem('c', E()); p.model.connect('iv.x','c.x')
    p.model.approx_totals(method='fd', step=1e-3, form='central')
    p.model.add_design_var('iv.x'); p.model.add_constraint('c.y', lower=0)
    if colored: p.driver.declare_coloring(show_summary=False)
    p.setup(); p.run_model()
    if colored:
        with contextlib.redirect_stdout(io.StringIO()):
            p.get_total_coloring(p.driver._coloring_info, run_model=False)
    del LOG[:]
    J = p.driver._compute_totals(return_format='array')
    x = p.get_val('iv.x')
    print('colored' if colored else 'plain', 'evaluations', len(LOG), 'perturbations', sorted(set(np.round((l-x)[np.nonzero(l-x)][0], 12) for l in LOG if np.any(l != x))),
          'max err', np.abs(np.diag(J)-np.cos(x)).max(), p.model._owns_approx_jac_meta)
