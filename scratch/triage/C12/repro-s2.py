import numpy as np, openmdao.api as om
print(om.__file__)
class C(om.ExplicitComponent):
    def setup(self):
        self.add_input('a', np.ones(2))
        self.add_input('x0', np.ones(4))
        self.add_input('b', np.ones(2))
        self.add_input('x1', np.ones(4))
        self.add_output('y', np.ones(4))
        self.declare_partials('y', ['a','b'], method='fd')
        self.declare_coloring(wrt='x*', method='cs', show_summary=False)
    def compute(self, i, o):
        o['y'] = np.sin(i['x0'])*i['x1']**2 + i['a'].sum()*i['b'].prod()
p = om.Problem()
p.model.add_subsystem('c', C())
p.setup(force_alloc_complex=True)
for n in ('a','x0','b','x1'):
    p.set_val('c.'+n, np.random.rand(p.get_val('c.'+n).size)+1)
p.run_model()
p.model.c._linearize()
p.model.c._linearize()
for k,v in p.model.c._jacobian._subjacs_info.items():
    print(k, v['val'] if not hasattr(v['val'],'toarray') else v['val'].toarray())
x0=p.get_val('c.x0'); x1=p.get_val('c.x1')
print(np.cos(x0)*x1**2, 2*np.sin(x0)*x1)
