"""shgo + an array constraint one element of which has no bound (the documented "hole": +-1e30 in an array
bound) -> run_driver() raises IndexError from scipy (unchanged tree); expected: optimum x=[1, 3] (g[0] <= 1
active, g[1] free)."""
import numpy as np
import openmdao.api as om

p = om.Problem()
p.model.add_subsystem('c', om.ExecComp(['f = (x[0]-3)**2 + (x[1]-3)**2', 'g = 1.0*x'],
                                       x=np.zeros(2), g=np.zeros(2)), promotes=['*'])
p.model.add_design_var('x', lower=-5.0, upper=5.0)
p.model.add_objective('f')
p.model.add_constraint('g', upper=np.array([1.0, 1e30]))      # second element: no bound
p.driver = om.ScipyOptimizeDriver(optimizer='shgo', disp=False)
p.driver.opt_settings['maxiter'] = None
p.setup()
p.run_driver()
print(p.driver.result.success, p.get_val('x'))
assert np.allclose(p.get_val('x'), [1.0, 3.0], atol=1e-5)
