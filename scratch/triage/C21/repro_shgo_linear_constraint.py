"""shgo + a constraint declared linear=True -> run_driver() raises ValueError "`x0` is infeasible with respect
to some inequality constraint with `keep_feasible` set to True" (unchanged tree): the driver hands every
optimizer the LinearConstraint with keep_feasible=True, and scipy's shgo tests it at a scratch point of its own
(np.empty/zeros) while converting the constraint.  Expected: optimum x=[2, 2] (x0+x1 >= 4 active)."""
import numpy as np
import openmdao.api as om

p = om.Problem()
p.model.add_subsystem('c', om.ExecComp(['f = x[0]**2 + x[1]**2', 'g = x[0] + x[1]'], x=np.ones(2)),
                      promotes=['*'])
p.model.add_design_var('x', lower=-5.0, upper=5.0)
p.model.add_objective('f')
p.model.add_constraint('g', lower=4.0, linear=True)
p.driver = om.ScipyOptimizeDriver(optimizer='shgo', disp=False)
p.driver.opt_settings['maxiter'] = None
p.setup()
p.set_val('x', [3.0, 3.0])           # (a feasible start does not help: shgo does not use it)
p.run_driver()
print(p.driver.result.success, p.get_val('x'))
assert np.allclose(p.get_val('x'), [2.0, 2.0], atol=1e-5)
