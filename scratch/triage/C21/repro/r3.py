# linear constraint declared in other units: gradient handed to SLSQP lacks the unit factor
import sys, numpy as np, openmdao.api as om
lin = sys.argv[1] == 'lin'
opt = sys.argv[2] if len(sys.argv) > 2 else 'SLSQP'
p = om.Problem()
p.model.add_subsystem('c', om.ExecComp(['f = (x-30.)**2', 'g = 2.0*x'], x={'units': 'm'}, g={'units': 'm'}), promotes=['*'])
p.model.add_design_var('x', lower=-100, upper=100)
p.model.add_objective('f')
p.model.add_constraint('g', upper=50., units='cm', linear=lin)     # g <= 0.5 m  ->  x* = 0.25
p.driver = om.ScipyOptimizeDriver(optimizer=opt, tol=1e-10, disp=False)
p.setup(); p.set_val('x', 0.0); p.run_driver()
d = p.driver
print('linear' if lin else 'nonlinear', 'success', d.result.success, 'x', p.get_val('x'), 'expected 0.25; lincongrad', d._lincongrad_cache,
      'totals', d._compute_totals(of=['g'], wrt=['x'], return_format='array'))
