# COBYQA: the model is not left at the design the optimizer returns
import numpy as np, openmdao.api as om
p = om.Problem()
p.model.add_subsystem('c', om.ExecComp(['f = 0.5*x**2 - 0.427758*x', 'g = -1.642681*x - 0.015357'], x={'units': 'cm'}), promotes=['*'])
p.model.add_design_var('x', lower=-1.0361, upper=-0.0909, units='inch')
p.model.add_objective('f')
p.model.add_constraint('g', lower=2.0966)
d = p.driver = om.ScipyOptimizeDriver(optimizer='COBYQA', tol=1e-10, disp=False, maxiter=3000)
p.setup(); p.set_val('x', -1.961655431363, units='cm'); p.run_driver()
print('success', d.result.success, '| x returned by scipy [inch]', d._scipy_optimize_result.x, '| x in the model [inch]', p.get_val('x', units='inch'), '| g', p.get_val('g'))
