import sys, numpy as np, openmdao.api as om
which = sys.argv[1]
p = om.Problem()
if which == 'con':
    p.model.add_subsystem('c', om.ExecComp(['f = (x-5)**2', 'g = 1.0*x']), promotes=['*'])
    p.model.add_design_var('x', lower=-10, upper=10)
    p.model.add_constraint('g', upper=2.0, scaler=-2.0)      # expected x* = 2
else:
    p.model.add_subsystem('c', om.ExecComp(['f = (x+5)**2', 'g = 1.0*x']), promotes=['*'])
    p.model.add_design_var('x', lower=0.0, scaler=-1.0)      # expected x* = 0
    p.model.add_constraint('g', upper=20.0)
p.model.add_objective('f')
d = p.driver = om.ScipyOptimizeDriver(optimizer='SLSQP', tol=1e-10, disp=False)
p.setup(); p.set_val('x', 1.0); p.run_driver()
print(which, 'success', d.result.success, 'x', p.get_val('x'))
