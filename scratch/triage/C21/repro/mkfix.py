"""apply a subset of the C21 fixes to the pristine scipy_optimizer.py of /repo HEAD -> worktree file"""
import subprocess, sys
import os
WT = os.environ.get('WT', '/tmp/wt-t21b')
F = 'openmdao/drivers/scipy_optimizer.py'
src = subprocess.run(['git', '-C', '/repo', 'show', 'HEAD:' + F], capture_output=True, text=True, check=True).stdout


def rep(s, old, new, count=1):
    assert s.count(old) == count, (s.count(old), old)
    return s.replace(old, new)


# ---- tracking of the design point the model was evaluated at (shared by 'stale' and 'final')
TRACK_OLD = """            # Update the cached design variable vector
            dv_vec.set_data(x_new, driver_scaling=True)
"""
TRACK_NEW_FINAL = """            # Remember the design point at which the model is evaluated.
            self._desvar_array_cache = np.array(x_new, dtype=float)

            # Update the cached design variable vector
            dv_vec.set_data(x_new, driver_scaling=True)
"""
TRACK_NEW_STALE = """            # Remember the design point at which the model is evaluated. Gradients cached at the
            # previous point are no longer valid.
            self._desvar_array_cache = np.array(x_new, dtype=float)
            self._grad_cache = None

            # Update the cached design variable vector
            dv_vec.set_data(x_new, driver_scaling=True)
"""
DOC_OLD = """    _desvar_array_cache : np.ndarray
        Cached array for setting design variables.
"""
DOC_NEW = """    _desvar_array_cache : np.ndarray
        Design variable array (in optimizer space) at which the model was last evaluated.
"""


def fix_append(s):
    s = rep(s, """                                               lb=lb, ub=ub, keep_feasible=True)
""", """                                               lb=lb, ub=ub, keep_feasible=True)
                        constraints.append(con)
""")
    s = rep(s, """                                    WeakMethodWrapper(self, '_congradfunc'), args)
                            )
                    constraints.append(con)
""", """                                    WeakMethodWrapper(self, '_congradfunc'), args)
                            )
                            constraints.append(con)
""")
    return s


def fix_inf(s):
    return rep(s, """                            lb_j = np.maximum(lb[j], -INF_BOUND)
                            ub_j = np.minimum(ub[j], INF_BOUND)
""", """                            # scipy expects an absent bound to be infinite
                            lb_j = lb[j] if lb[j] > -INF_BOUND else -np.inf
                            ub_j = ub[j] if ub[j] < INF_BOUND else np.inf
""")


def fix_dbl(s):
    return rep(s, """                        if isinstance(upper, np.ndarray):
                            upper = upper[j]

                        if isinstance(lower, np.ndarray):
                            lower = lower[j]

                        dblcon = (upper < INF_BOUND) and (lower > -INF_BOUND)
""", """                        dblcon = (upper[j] < INF_BOUND) and (lower[j] > -INF_BOUND)
""")


def fix_lin(s):
    return rep(s, """                        # LinearConstraint
                        con = LinearConstraint(A=lincongrad[self._con_idx[name]],
                                               lb=lb, ub=ub, keep_feasible=True)
""", """                        # LinearConstraint
                        # The constraint is affine, con(x) = A x + b, while scipy bounds A x.
                        i = self._con_idx[name]
                        A = lincongrad[i:i + size]
                        b = self._con_cache[name] - A.dot(x_init)
                        con = LinearConstraint(A=A,
                                               lb=np.where(lb > -INF_BOUND, lb - b, -np.inf),
                                               ub=np.where(ub < INF_BOUND, ub - b, np.inf),
                                               keep_feasible=True)
""")


def fix_final(s, track=True):
    if track:
        s = rep(s, TRACK_OLD, TRACK_NEW_FINAL)
        s = rep(s, DOC_OLD, DOC_NEW)
    return rep(s, """        self._scipy_optimize_result = result

""", """        self._scipy_optimize_result = result

        # The last point evaluated by the optimizer is not necessarily the one it returns, so
        # make sure that the model is left at the reported design.
        x_final = getattr(result, 'x', None)
        if x_final is not None and not np.array_equal(x_final, self._desvar_array_cache):
            self._objfunc(np.array(x_final, dtype=float))
            if self._exc_info is not None:
                self._reraise()

""")


def fix_stale(s, track=True):
    s = rep(s, TRACK_OLD, TRACK_NEW_STALE if track else TRACK_OLD)
    if track:
        s = rep(s, DOC_OLD, DOC_NEW)
    s = rep(s, """                    bounds.append((p_low, p_high))

""", """                    bounds.append((p_low, p_high))

        # The model has just been evaluated at the initial design point.
        self._desvar_array_cache = x_init.copy()
        self._grad_cache = None

""")
    s = rep(s, """        return f_new

    def _con_val_func(self, x_new, name, dbl, idx):
""", """        return f_new

    def _update_design_point(self, x_new):
        \"\"\"
        Run the model at the given design point unless that is where it was last evaluated.

        Scipy does not guarantee that the objective is the first function it evaluates at a new
        design point.

        Parameters
        ----------
        x_new : ndarray
            Array containing input values at new design point.
        \"\"\"
        if not np.array_equal(x_new, self._desvar_array_cache):
            self._objfunc(x_new)

    def _con_val_func(self, x_new, name, dbl, idx):
""")
    s = rep(s, """        if self.options['optimizer'] in ['differential_evolution', 'COBYQA']:
            # the DE opt will not have called this, so we do it here to update DV/resp values
            self._objfunc(x_new)

        return self._con_cache[name][idx]
""", """        # the optimizer may not have evaluated the objective at this point, so we do it here to
        # update DV/resp values
        self._update_design_point(x_new)

        return self._con_cache[name][idx]
""")
    s = rep(s, """        if self._exc_info is not None:
            self._reraise()

        cons = self._con_cache
""", """        if self._exc_info is not None:
            self._reraise()

        self._update_design_point(x_new)

        cons = self._con_cache
""")
    s = rep(s, """        try:
            grad = self._compute_totals(of=self._obj_and_nlcons, wrt=self._dvlist,
""", """        self._update_design_point(x_new)

        try:
            grad = self._compute_totals(of=self._obj_and_nlcons, wrt=self._dvlist,
""")
    s = rep(s, """        if meta['linear']:
            grad = self._lincongrad_cache
        else:
            if self._grad_cache is None:
                # _gradfunc has not been called, meaning gradients are not
                # used for the objective but are needed for the constraints
                self._gradfunc(x_new)
""", """        if meta['linear']:
            grad = self._lincongrad_cache
        else:
            self._update_design_point(x_new)
            if self._grad_cache is None:
                # _gradfunc has not been called at this point, meaning gradients are not
                # used for the objective but are needed for the constraints
                self._gradfunc(x_new)
""")
    return s


def fix_sign(s):
    return rep(s, """        # Equality constraints
        if meta['equals'] is not None:
            return grad[grad_idx, :]

        # Note, scipy defines constraints to be satisfied when positive,
        # which is the opposite of OpenMDAO.
        lower = meta['lower']
""", """        # Equality constraints
        if meta['equals'] is not None:
            return grad[grad_idx, :]

        # Constraints that are given to scipy together with their bounds (see _con_val_func)
        if _use_new_style and self.options['optimizer'] in _supports_new_style:
            return grad[grad_idx, :]

        # Note, scipy defines constraints to be satisfied when positive,
        # which is the opposite of OpenMDAO.
        lower = meta['lower']
""")


FIXES = {'sign': fix_sign, 'append': fix_append, 'inf': fix_inf, 'dbl': fix_dbl, 'lin': fix_lin, 'final': fix_final, 'stale': fix_stale}
names = sys.argv[1:]
s = src
for n in names:
    if n == 'final' and 'stale' in names:
        s = fix_final(s, track=False)
    else:
        s = FIXES[n](s)
open(WT + '/' + F, 'w').write(s)
print('applied', names)
