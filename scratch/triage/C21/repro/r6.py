# trust-constr: absent side of a one-sided constraint is passed as the finite number -/+1e30
import sys, numpy as np, openmdao.api as om
def run(opt, seed):
    rng = np.random.default_rng(seed)
    n = 3
    M = rng.normal(size=(n, n)); Q = M @ M.T + n * np.eye(n); c = rng.normal(size=n) * 3
    A = rng.normal(size=(2, n)); lo = rng.normal(size=2) + 1.0
    class C(om.ExplicitComponent):
        def setup(self):
            self.add_input('x', np.zeros(n)); self.add_output('f', 0.); self.add_output('g', np.zeros(2))
            self.declare_partials('*', '*')
        def compute(self, i, o):
            x = i['x']; o['f'] = 0.5 * x @ Q @ x + c @ x; o['g'] = A @ x
        def compute_partials(self, i, J):
            J['f', 'x'] = (Q @ i['x'] + c).reshape(1, n); J['g', 'x'] = A
    p = om.Problem(); p.model.add_subsystem('c', C(), promotes=['*'])
    p.model.add_design_var('x'); p.model.add_objective('f'); p.model.add_constraint('g', lower=lo)
    d = p.driver = om.ScipyOptimizeDriver(optimizer=opt, tol=1e-10, disp=False, maxiter=1000)
    p.setup(); p.set_val('x', np.linalg.lstsq(A, lo + 1.0, rcond=None)[0]); p.run_driver()
    return d.result.success, p.get_val('x').copy(), p.get_val('f').copy()
for seed in range(int(sys.argv[1]), int(sys.argv[2])):
    s1, x1, f1 = run('SLSQP', seed); s2, x2, f2 = run(sys.argv[3], seed)
    print(seed, 'SLSQP', s1, x1, f1, '|', sys.argv[3], s2, x2, f2, '  <-- DIFF' if s2 and np.max(abs(x1-x2)) > 1e-3 else '')
