import sys, numpy as np, openmdao.api as om
p = om.Problem()
p.model.add_subsystem('c', om.ExecComp(['f = (x[0]-3)**2 + (x[1]-3)**2', 'g = 1.0*x'],
                                       x=np.zeros(2), g=np.zeros(2)), promotes=['*'])
p.model.add_design_var('x')
p.model.add_objective('f')
p.model.add_constraint('g', upper=np.array([1.0, 2.0]))
d = p.driver = om.ScipyOptimizeDriver(optimizer='trust-constr', tol=1e-10, disp=False)
p.setup(); p.final_setup()
oo, oc, og = d._objfunc, d._con_val_func, d._gradfunc
last = [None]
def obj(x):
    last[0] = np.array(x); print('obj ', x); return oo(x)
def cv(x, name, dbl, idx):
    r = oc(x, name, dbl, idx)
    tag = '' if np.array_equal(x, last[0]) else '   <-- STALE: returned %r, true %r' % (r, x[idx])
    print('con%d' % idx, x, tag); return r
def gr(x):
    print('grad', x, '' if np.array_equal(x, last[0]) else '   <-- model is at %s' % last[0]); return og(x)
d._objfunc, d._con_val_func, d._gradfunc = obj, cv, gr
p.run_driver()
print('success', d.result.success, 'x', p.get_val('x'), 'expected [1,2]')
