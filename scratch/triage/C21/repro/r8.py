# model is not left at the design the optimizer returns
import sys, numpy as np, openmdao.api as om
opt = sys.argv[1]
p = om.Problem()
p.model.add_subsystem('c', om.ExecComp(['f = (x+3)**2', 'g = 2*x']), promotes=['*'])
p.model.add_design_var('x', lower=-1.5, upper=10)
p.model.add_objective('f')
p.model.add_constraint('g', lower=float(sys.argv[2]))
d = p.driver = om.ScipyOptimizeDriver(optimizer=opt, tol=1e-10, disp=False, maxiter=1000)
p.setup(); p.set_val('x', 1.0); p.run_driver()
print(opt, 'success', d.result.success, 'returned x', d._scipy_optimize_result.x, 'model x', p.get_val('x'), 'model f', p.get_val('f'), 'result.fun', d._scipy_optimize_result.fun)
