# trust-constr + linear=True: (a) array constraint rejected, (b) constant term of the affine constraint ignored
import sys, numpy as np, openmdao.api as om
case = sys.argv[1]
p = om.Problem()
if case == 'array':
    p.model.add_subsystem('c', om.ExecComp(['f = (x[0]-3)**2 + (x[1]-3)**2', 'g = 2.0*x'], x=np.zeros(2), g=np.zeros(2)), promotes=['*'])
    p.model.add_constraint('g', upper=np.array([2.0, 4.0]), linear=True)      # x* = [1, 2]
    expect = '[1, 2]'
else:
    p.model.add_subsystem('c', om.ExecComp(['f = (x[0]-3)**2 + (x[1]-3)**2', 'g = x[0] + x[1] + 10.'], x=np.zeros(2)), promotes=['*'])
    p.model.add_constraint('g', upper=12.0, linear=True)                       # x0 + x1 <= 2 -> x* = [1, 1]
    expect = '[1, 1]'
p.model.add_design_var('x', lower=-10, upper=10)
p.model.add_objective('f')
d = p.driver = om.ScipyOptimizeDriver(optimizer='trust-constr', tol=1e-10, disp=False)
p.setup()
try:
    p.run_driver()
    print(case, 'success', d.result.success, 'x', p.get_val('x'), 'expected', expect, 'g', p.get_val('g'))
except Exception as e:
    print(case, 'raised', type(e).__name__, e)
