# trust-constr: jacobian of an upper-only constraint is handed over negated
import numpy as np, openmdao.api as om
p = om.Problem()
p.model.add_subsystem('c', om.ExecComp(['f = (x-3)**2', 'g = 1.0*x']), promotes=['*'])
p.model.add_design_var('x')
p.model.add_objective('f')
p.model.add_constraint('g', upper=1.0)
d = p.driver = om.ScipyOptimizeDriver(optimizer='trust-constr', tol=1e-10, disp=False)
p.setup(); p.set_val('x', 0.)
oc = d._congradfunc
def cg(x, *a):
    r = oc(x, *a); cg.seen = r; return r
d._congradfunc = cg
p.run_driver()
print('success', d.result.success, 'x', p.get_val('x'), 'expected 1; constraint jacobian handed to scipy', cg.seen, '(true +1)')
