# old-style: dblcon decided from element 0 only  (upper = upper[j] clobbers the array)
import sys, numpy as np, openmdao.api as om
opt = sys.argv[1] if len(sys.argv) > 1 else 'SLSQP'
p = om.Problem()
p.model.add_subsystem('c', om.ExecComp(['f = (x[0]-3)**2 + (x[1]-3)**2', 'g = 1.0*x'],
                                       x=np.zeros(2), g=np.zeros(2)), promotes=['*'])
p.model.add_design_var('x')
p.model.add_objective('f')
p.model.add_constraint('g', lower=np.array([-5., -5.]), upper=np.array([1e30, 2.0]))
p.driver = om.ScipyOptimizeDriver(optimizer=opt, tol=1e-10, disp=False)
p.setup(); p.run_driver()
print(opt, 'success', p.driver.result.success, 'x', p.get_val('x'), 'expected [3,2]')
