# COBYQA: the absent side of a one-sided constraint is passed as the finite number -/+1e30
import numpy as np, openmdao.api as om
Q = np.array([[1.94655, -1.210496, 2.207007, -1.488948], [-1.210496, 15.286439, -22.877337, 2.726474],
              [2.207007, -22.877337, 37.801182, -4.999733], [-1.488948, 2.726474, -4.999733, 4.06384]])
c = np.array([6.405761, -147.791296, 236.110201, -18.176934])
A = np.array([[0.33283, -1.244458, 1.665606, -0.556611], [-0.740098, -1.404293, 0.742214, 0.203663]])
b = np.array([0.480205, 0.798546])
class QP(om.ExplicitComponent):
    def setup(self):
        self.add_input('xa', np.zeros(3)); self.add_input('xb', np.zeros(1)); self.add_output('f', 0.); self.add_output('g', np.zeros(2))
    def compute(self, i, o):
        x = np.concatenate([i['xa'], i['xb']]); o['f'] = 0.5 * x @ Q @ x + c @ x; o['g'] = A @ x + b
p = om.Problem(); p.model.add_subsystem('qp', QP(), promotes=['*'])
p.model.add_design_var('xa', upper=[1e30, 0.9785, 2.915], scaler=0.3575)
p.model.add_design_var('xb', upper=0.6214, adder=-0.4121)
p.model.add_objective('f', adder=-0.5259)
p.model.add_constraint('g', indices=[0], upper=3.715, scaler=1.4674)
p.model.add_constraint('g', indices=[1], lower=-1.1141, adder=0.3303, alias='g1')
d = p.driver = om.ScipyOptimizeDriver(optimizer='COBYQA', tol=1e-10, disp=False, maxiter=3000)
p.setup(); p.set_val('xa', [2.748539009188, 0.620583019504, 1.618013387358]); p.set_val('xb', 0.486965853161); p.run_driver()
print('success', d.result.success, 'x', p.get_val('xa'), p.get_val('xb'), 'f', p.get_val('f'))
print('exact optimum   x [-1.80171932 -2.51363305 -8.03464029 -3.98967734]')
