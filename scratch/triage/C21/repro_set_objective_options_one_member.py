"""set_objective_options(name, scaler=...) (or only adder / ref / ref0) raises TypeError although every scaling
argument is optional and set_design_var_options / set_constraint_options accept the same call.
Expected: exit 0 and the objective scaled by 0.1 in the driver.  Unfixed tree: TypeError -> exit 1."""
import sys
import openmdao.api as om

p = om.Problem()
p.model.add_subsystem('c', om.ExecComp('f = (x - 3.0)**2 + 1.0'), promotes=['*'])
p.model.add_design_var('x', lower=-10, upper=10)
p.model.add_objective('f')
p.driver = om.ScipyOptimizeDriver(optimizer='SLSQP', disp=False)
p.setup()
p.run_driver()
bad = []
for kw in ({'scaler': 0.1}, {'adder': 2.0}, {'ref': 10.0}, {'ref0': -1.0}):
    try:
        p.model.set_design_var_options('x', **kw)       # accepted
        p.model.set_objective_options('f', **kw)        # raises on the unfixed tree
    except TypeError as e:
        bad.append('%s: %s' % (kw, e))
if bad:
    print('FAIL')
    print('\n'.join(bad))
    sys.exit(1)
p.model.set_objective_options('f', scaler=0.1)
p.model.set_design_var_options('x', scaler=None, adder=None)
p.run_driver()
print('objective seen by the driver:', p.driver.get_objective_values()['f'], 'model value', p.get_val('f'))
print('PASS')
