"""Standalone repro: output bounds + ref < ref0 (negative scaling factor) under a bounds-enforcing line search.
r(y) = 2*y - t, start y0 = 1.0 inside [0, 3]; Newton step = t/2 - y0."""
import numpy as np
import openmdao.api as om


class C(om.ImplicitComponent):
    def initialize(self):
        self.options.declare('t'); self.options.declare('kw')

    def setup(self):
        self.add_output('y', val=1.0, **self.options['kw'])
        self.declare_partials('y', 'y', val=2.0)

    def apply_nonlinear(self, inputs, outputs, residuals):
        residuals['y'] = 2.0 * outputs['y'] - self.options['t']


def run(ls, enf, t, **kw):
    p = om.Problem()
    c = p.model.add_subsystem('c', C(t=t, kw=kw))
    c.nonlinear_solver = om.NewtonSolver(solve_subsystems=False, maxiter=1, iprint=-1)
    c.nonlinear_solver.linesearch = ls(bound_enforcement=enf, iprint=-1)
    c.linear_solver = om.DirectSolver()
    p.setup()
    p.set_val('c.y', 1.0)
    p.run_model()
    return float(p.get_val('c.y')[0])


for ls in (om.BoundsEnforceLS, om.ArmijoGoldsteinLS):
    for enf in ('vector', 'scalar', 'wall'):
        # t=10 -> Newton wants y=5 (> upper=3): expected 3.0;  t=4 -> wants y=2 (inside): expected 2.0
        print(ls.__name__, enf,
              'pos ref=2: ', run(ls, enf, 10., lower=0., upper=3., ref=2.), run(ls, enf, 4., lower=0., upper=3., ref=2.),
              '| ref=-2:', run(ls, enf, 10., lower=0., upper=3., ref=-2.), run(ls, enf, 4., lower=0., upper=3., ref=-2.),
              '| ref=1,ref0=2:', run(ls, enf, 10., lower=0., upper=3., ref=1., ref0=2.),
              '| ref=-2 upper only:', run(ls, enf, 10., upper=3., ref=-2.))
