"""C19 (override stratum): Problem.load_case leaves a recorded output of a NON-overriding system unrestored when its
promoted name begins like the pathname of a subsystem that overrides System.load_case.

Root has a component `a2` that overrides load_case (the documented hook) and a group `g`, promoted with '*', that holds
an unpromoted component also called `a2`.  The variables of g.a2 are promoted to the root as 'a2.u' / 'a2.w'; they do
not belong to the overriding root component a2, but Problem.load_case tests the *promoted* output name with
startswith('a2.') and defers them to a2.load_case, which only knows its own variables.

Expected (and with the fix): PASS.  On the unchanged tree: FAIL, g.a2.w keeps its pre-load value (with
record_inputs=False the independent value recorded as 'a2.u' is skipped as well and run_model then does not
reproduce the recorded outputs).
"""
import sys
import numpy as np
import openmdao.api as om


class Stage(om.ExplicitComponent):
    def setup(self):
        self.add_input('x', np.ones(2))
        self.add_output('y', np.ones(2))

    def compute(self, inputs, outputs):
        outputs['y'] = 2.0 * inputs['x'] + 1.0

    def load_case(self, case):                      # restores its own variables
        self.set_val('x', case.inputs[self.pathname + '.x'])
        self.set_val('y', case.outputs[self.pathname + '.y'])


def build():
    p = om.Problem()
    p.model.add_subsystem('a2', Stage())
    g = p.model.add_subsystem('g', om.Group(), promotes=['*'])
    g.add_subsystem('a2', om.ExecComp('w = 3.0 * u', u=np.ones(2), w=np.ones(2)))
    p.add_recorder(om.SqliteRecorder('c19_prom.sql'))
    p.recording_options['record_inputs'] = True
    p.recording_options['includes'] = ['*']
    p.setup()
    return p


p = build()
p.set_val('a2.x', [1.5, -2.0])       # root component a2
p.set_val('a2.u', [4.0, 0.25])       # promoted name of g.a2.u
p.run_model()
names = ['a2.x', 'a2.y', 'g.a2.u', 'g.a2.w']
expected = {n: p.get_val(n).copy() for n in names}
p.record('pt')
p.cleanup()
case = om.CaseReader(p.get_outputs_dir() / 'c19_prom.sql').get_case('pt')

q = build()
q.run_model()
q.load_case(case)
bad = []
for when in ('after load_case', 'after load_case + run_model'):
    for n in names:
        if not np.array_equal(q.get_val(n), expected[n]):
            bad.append('%s: %s = %s, recorded %s' % (when, n, q.get_val(n), expected[n]))
    q.run_model()
print('FAIL\n' + '\n'.join(bad) if bad else 'PASS')
sys.exit(1 if bad else 0)
