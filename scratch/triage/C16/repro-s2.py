"""InterpNDSemi: a call with more points than the first call raises IndexError."""
import sys
import numpy as np
from openmdao.components.interp_util.interp_semi import InterpNDSemi

g0 = np.array([0., 1., 2., 3., 4.])
g1 = np.array([0., 1., 2., 3.])
v = np.add.outer(g0 ** 2, g1 ** 3)
mesh = np.meshgrid(g0, g1, indexing='ij')
pts = np.array([a.ravel() for a in mesh]).T
s = InterpNDSemi(pts, v.ravel().copy(), method='slinear')
print('one point :', s.interpolate(np.array([[0.5, 0.5]]), compute_derivative=True))
try:
    print('two points:', s.interpolate(np.array([[0.5, 0.5], [1.5, 1.5]]), compute_derivative=True))
except IndexError as e:
    print('FAIL: IndexError:', e)
    sys.exit(1)
print('three, then one point: flags', s.interpolate(np.array([[0.5, 0.5], [1.5, 1.5], [9., 9.]])), s.extrapolated_points,
      s.interpolate(np.array([[0.5, 0.5]])), s.extrapolated_points)
if len(s.extrapolated_points) != 1:
    print('FAIL: stale extrapolation flags')
    sys.exit(1)
print('PASS')
