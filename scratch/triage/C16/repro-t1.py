# fix-t1: akima training-data gradients raise when a point is extrapolated along a non-innermost axis
import numpy as np, openmdao.api as om
g = np.array([0., 1., 2., 3., 4.])
V = np.random.default_rng(0).uniform(-1, 1, (5, 5))
p = om.Problem()
c = om.MetaModelStructuredComp(method='akima', extrapolate=True, training_data_gradients=True)
c.add_input('x', 4.5, training_data=g)      # beyond the last node of the FIRST axis
c.add_input('y', 1.3, training_data=g)
c.add_output('f', 0.0, training_data=V)
p.model.add_subsystem('c', c, promotes=['*'])
p.setup(force_alloc_complex=True)
p.run_model()        # HEAD: UnboundLocalError: cannot access local variable 'cd_term_dv'
J = p.compute_totals(of=['f'], wrt=['f_train'], return_format='array').ravel()
p.set_complex_step_mode(True)
ref = np.empty(25)
for q in range(25):
    t = V.astype(complex).ravel(); t[q] += 1e-30j
    p.set_val('f_train', t.reshape(5, 5)); p.run_model(); ref[q] = p.get_val('f')[0].imag / 1e-30
print('max |partial - complex step| =', abs(J - ref).max())
