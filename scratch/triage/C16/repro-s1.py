"""gradient(x) after an in-place change of x returns the gradient of the old point (InterpND, InterpNDSemi)."""
import sys
import numpy as np
from openmdao.components.interp_util.interp import InterpND
from openmdao.components.interp_util.interp_semi import InterpNDSemi

g0 = np.array([0., 1., 2., 3., 4.])
g1 = np.array([0., 1., 2., 3.])
v = np.add.outer(g0 ** 2, g1 ** 3)
bad = 0
for m in ['slinear', 'lagrange2', 'lagrange3', 'cubic', 'akima', 'scipy_cubic', '2D-slinear']:
    it = InterpND(method=m, points=(g0, g1), values=v.copy())
    x = np.array([[0.5, 0.5]])
    it.interpolate(x, compute_derivative=True)
    x[0, :] = [2.5, 2.5]
    got = np.array(it.gradient(x)).ravel()
    want = np.array(InterpND(method=m, points=(g0, g1), values=v.copy()).gradient(np.array([[2.5, 2.5]]))).ravel()
    ok = np.allclose(got, want, rtol=1e-12, atol=1e-12)
    bad += not ok
    print('InterpND %-12s gradient after in-place change %s, gradient of a fresh object at the new point %s  %s'
          % (m, got, want, 'ok' if ok else 'STALE'))
mesh = np.meshgrid(g0, g1, indexing='ij')
pts = np.array([a.ravel() for a in mesh]).T
for m in ['slinear', 'lagrange2', 'lagrange3', 'akima']:
    s = InterpNDSemi(pts, v.ravel().copy(), method=m)
    x = np.array([[0.5, 0.5]])
    s.interpolate(x, compute_derivative=True)
    x[0, :] = [2.5, 2.5]
    got = np.array(s.gradient(x)).ravel()
    want = np.array(InterpNDSemi(pts, v.ravel().copy(), method=m).gradient(np.array([[2.5, 2.5]]))).ravel()
    ok = np.allclose(got, want, rtol=1e-12, atol=1e-12)
    bad += not ok
    print('InterpNDSemi %-9s gradient after in-place change %s, fresh object %s  %s' % (m, got, want, 'ok' if ok else 'STALE'))
print('FAIL' if bad else 'PASS')
sys.exit(1 if bad else 0)
