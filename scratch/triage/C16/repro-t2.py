# fix-t2: akima training-data gradients of a 4-D table are silently wrong
import numpy as np, openmdao.api as om
g = np.array([0., 1., 2., 3.])
V = np.random.default_rng(0).uniform(-1, 1, (4, 4, 4, 4))
x = [1.3, 1.6, 1.2, 1.7]
p = om.Problem()
c = om.MetaModelStructuredComp(method='akima', extrapolate=True, training_data_gradients=True)
for n, xv in zip('abcd', x):
    c.add_input(n, xv, training_data=g)
c.add_output('f', 0.0, training_data=V)
p.model.add_subsystem('c', c, promotes=['*'])
p.setup(force_alloc_complex=True)
p.run_model()
f = p.get_val('f')[0]
J = p.compute_totals(of=['f'], wrt=['f_train'], return_format='array').ravel()
p.set_complex_step_mode(True)
ref = np.empty(V.size)
for q in range(V.size):
    t = V.astype(complex).ravel(); t[q] += 1e-30j
    p.set_val('f_train', t.reshape(V.shape)); p.run_model(); ref[q] = p.get_val('f')[0].imag / 1e-30
q = int(abs(J - ref).argmax())
print('f =', f, ' <J, V> =', J @ V.ravel(), '(akima is homogeneous of degree 1: must be equal)')
print('max |partial - complex step| =', abs(J - ref).max(), 'at entry', np.unravel_index(q, V.shape), J[q], ref[q])
