"""LinearSystemComp.solve_linear uses the LU factors cached by the last solve_nonlinear, not those of the
A it was linearized at.

The factorization is only computed in solve_nonlinear.  When the state of the component is converged by
an outer solver that does not call it (NewtonSolver(solve_subsystems=False) on the parent group, the usual
set-up for a coupled implicit model), A changes without a new factorization, and every linear solver
that delegates to the component's solve_linear (LinearRunOnce / LinearBlockGS / LinearBlockJac / a
Krylov solver preconditioned by them) solves with the stale A - total derivatives are silently wrong -
or, if solve_nonlinear never ran at all, fails with
"ValueError: Error calling solve_linear(), not enough values to unpack".
Expected: the totals of the converged model are the same with LinearBlockGS and with DirectSolver.
"""
import numpy as np
import openmdao.api as om


def build(A_start, linear):
    p = om.Problem()
    ivc = p.model.add_subsystem('ivc', om.IndepVarComp())
    ivc.add_output('A0', A_start)
    ivc.add_output('b', np.array([1., 2.]))
    p.model.add_subsystem('fb', om.ExecComp('A = A0 + 0.05*sum(x)', A=A_start.copy(), A0=np.ones((2, 2)),
                                            x=np.ones(2)))
    p.model.add_subsystem('ls', om.LinearSystemComp(size=2))
    p.model.connect('ivc.A0', 'fb.A0')
    p.model.connect('fb.A', 'ls.A')
    p.model.connect('ls.x', 'fb.x')
    p.model.connect('ivc.b', 'ls.b')
    nl = p.model.nonlinear_solver = om.NewtonSolver(solve_subsystems=False, maxiter=30, atol=1e-14, rtol=1e-14,
                                                    iprint=-1)
    nl.linear_solver = om.DirectSolver()
    p.model.linear_solver = linear
    p.setup(mode='fwd')
    return p


A1 = np.array([[3., 1.], [0.5, 4.]])
A2 = np.array([[-2., 0.3], [1.5, 5.]])
ok = True

# (a) never factored
p = build(A1, om.LinearBlockGS(maxiter=200, atol=1e-300, rtol=1e-15, iprint=-1))
p.run_model()
try:
    p.compute_totals(of=['ls.x'], wrt=['ivc.b'])
    print('(a) totals computed')
except Exception as e:
    ok = False
    print('(a) compute_totals raises %s: %s' % (type(e).__name__, str(e)[:120]))

# (b) factored once at A1 (a plain execution of the component), then A moves to A2 and Newton re-converges
p.model.ls.run_solve_nonlinear()
p.set_val('ivc.A0', A2)
p.run_model()
J = p.compute_totals(of=['ls.x'], wrt=['ivc.b'], return_format='array')
q = build(A2, om.DirectSolver())
q.run_model()
Jd = q.compute_totals(of=['ls.x'], wrt=['ivc.b'], return_format='array')
print('(b) same state:', np.allclose(p.get_val('ls.x'), q.get_val('ls.x')))
print('    dx/db LinearBlockGS :', J.ravel())
print('    dx/db DirectSolver  :', Jd.ravel())
ok = ok and np.allclose(J, Jd, rtol=1e-9)
print('PASS' if ok else 'FAIL')
raise SystemExit(0 if ok else 1)
