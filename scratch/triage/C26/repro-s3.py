"""(Outside C26 - core solvers.)  rev-mode totals are wrong when the NewtonSolver of a group owns a
DirectSolver while the group's linear_solver is LinearBlockGS.

Model: cycle  y = 0.3*x + p  (ExecComp 'a'),  x = 0.5*y + 1  (ExecComp 'b').  dx/dp = 0.5/(1-0.15).
fwd: correct.  rev with nl.linear_solver = DirectSolver(): LinearBlockGS runs into maxiter and returns other
numbers; rev without the Newton-owned DirectSolver: correct.  Suspected cause: DirectSolver._build_mtx always
runs system._apply_linear('fwd', ...) with identity columns and restores d_outputs / d_residuals but not
d_inputs, which the following rev-mode block Gauss-Seidel sweeps accumulate from.
"""
import numpy as np
import openmdao.api as om

ref = 0.5 / (1 - 0.15)
ok = True
for own_direct in (False, True):
    for mode in ('fwd', 'rev'):
        p = om.Problem()
        p.model.add_subsystem('ivc', om.IndepVarComp('p', 1.0))
        p.model.add_subsystem('a', om.ExecComp('y = 0.3*x + p'))
        p.model.add_subsystem('b', om.ExecComp('x = 0.5*y + 1'))
        p.model.connect('ivc.p', 'a.p')
        p.model.connect('a.y', 'b.y')
        p.model.connect('b.x', 'a.x')
        nl = p.model.nonlinear_solver = om.NewtonSolver(solve_subsystems=True, maxiter=20, atol=1e-14, rtol=1e-14,
                                                        iprint=-1)
        if own_direct:
            nl.linear_solver = om.DirectSolver()
        p.model.linear_solver = om.LinearBlockGS(maxiter=100, atol=1e-300, rtol=1e-14, iprint=-1)
        p.setup(mode=mode)
        p.run_model()
        J = p.compute_totals(of=['b.x'], wrt=['ivc.p'], return_format='array')[0, 0]
        good = abs(J - ref) < 1e-9
        ok = ok and good
        print('Newton-owned DirectSolver: %-5s mode %s  dx/dp = %.12f (expected %.12f) LNBGS iterations %d  %s'
              % (own_direct, mode, J, ref, p.model.linear_solver._iter_count, 'ok' if good else 'WRONG'))
print('PASS' if ok else 'FAIL')
raise SystemExit(0 if ok else 1)
