"""Totals after a second Problem.setup() ignore inputs that did not exist at the first setup.

Group._get_matvec_scope caches, per group, the set of connected inputs used to mask d_inputs in
_apply_linear (key: excluded subsystem pathname, validated only by the identity of the subsystem
instance).  The cache (System._scope_cache) is created in __init__ and never cleared, so after a
second setup() of the same Problem the scope of the FIRST setup is reused whenever compute_totals
had been called before: every input added in between (another add_equation/add_product/... on a stock
component, or a component whose setup() creates inputs from an option that was changed) is masked out
in LinearRunOnce / LinearBlockGS / LinearBlockJac, and all total derivatives through it are silently 0
(fwd and rev).  DirectSolver on the group is not affected (scope_in of the whole group is recomputed).

Expected output:  d y/d x2 = 1 both times;   observed on the unchanged tree:  [[0.]] the second time.
"""
import numpy as np
import openmdao.api as om


class Sum(om.ExplicitComponent):
    def initialize(self):
        self.options.declare('n', default=2)

    def setup(self):
        for i in range(self.options['n']):
            self.add_input('x%d' % i, 1.0)
        self.add_output('y', 1.0)
        self.declare_partials('y', '*', val=1.0)

    def compute(self, inputs, outputs):
        outputs['y'] = sum(inputs['x%d' % i] for i in range(self.options['n']))


ok = True
for first_totals in (False, True):
    p = om.Problem()
    c = p.model.add_subsystem('c', Sum(n=2))
    p.setup()
    p.run_model()
    if first_totals:
        p.compute_totals(of=['c.y'], wrt=['c.x0'])
    c.options['n'] = 3                      # one more input
    p.setup()
    p.run_model()
    J = p.compute_totals(of=['c.y'], wrt=['c.x2'], return_format='array')
    print('compute_totals before the second setup: %-5s  d y/d x2 = %s' % (first_totals, J))
    ok = ok and np.allclose(J, 1.0)

# the same with a stock component: AddSubtractComp.add_equation between two setups
p = om.Problem()
ivc = p.model.add_subsystem('ivc', om.IndepVarComp())
c = p.model.add_subsystem('c', om.AddSubtractComp())
c.add_equation('r0', ['a', 'b'], vec_size=2)
ivc.add_output('v0', np.ones(2))
p.model.connect('ivc.v0', 'c.a')
p.setup(mode='rev')
p.run_model()
p.compute_totals(of=['c.r0'], wrt=['ivc.v0'])
c.add_equation('r1', ['a', 'd'], vec_size=2, scaling_factors=[2, -1])
ivc.add_output('v2', np.ones(2))
p.model.connect('ivc.v2', 'c.d')
p.setup(mode='rev')
p.run_model()
J = p.compute_totals(of=['c.r1'], wrt=['ivc.v2'], return_format='array')
print('AddSubtractComp r1 = 2a - d,  d r1/d d =', J.tolist(), '(expected -I)')
ok = ok and np.allclose(J, -np.eye(2))
print('PASS' if ok else 'FAIL')
raise SystemExit(0 if ok else 1)
