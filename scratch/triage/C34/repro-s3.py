"""Jax components with declare_coloring: the coloring computed in the first setup is reused after a second setup that
changes the variable sizes.  Expected: PASS.  Unchanged repository: FAIL (exceptions, or silently wrong partials)."""
import sys
import numpy as np
import openmdao.api as om
import jax
import jax.numpy as jnp
jax.config.update('jax_enable_x64', True)


class C(om.JaxExplicitComponent):
    def initialize(self):
        self.options.declare('n', default=3)

    def setup(self):
        n = self.options['n']
        self.add_input('x', shape=(n,))
        self.add_input('y', shape=(n,))
        self.add_output('f', shape=(n,))
        self.add_output('g', shape=(n,))

    def compute_primal(self, x, y):
        f = x ** 3 + 2 * y
        g = x * y + y
        return f, g


class CI(om.JaxImplicitComponent):
    def initialize(self):
        self.options.declare('n', default=3)

    def setup(self):
        n = self.options['n']
        self.add_input('x', shape=(n,))
        self.add_output('s', shape=(n,))

    def compute_primal(self, x, s):
        return (3 * s + 0.3 * jnp.sin(s) - x ** 3,)


bad = []
for sizes in ((3, 5), (3, 2)):
    for coloring in (False, True):
        for mode in ('fwd', 'rev'):
            tag = 'sizes %s coloring=%s mode=%s' % (sizes, coloring, mode)
            p = om.Problem()
            c = p.model.add_subsystem('c', C(use_jit=False), promotes=['*'])
            if coloring:
                c.declare_coloring(show_summary=False)
            try:
                for n in sizes:
                    c.options['n'] = n
                    p.setup(mode=mode)
                    x = np.linspace(-1, 1.3, n)
                    y = np.linspace(.2, .9, n)
                    p.set_val('x', x)
                    p.set_val('y', y)
                    p.run_model()
                    t = p.compute_totals(of=['f', 'g'], wrt=['x', 'y'])
                    err = max(np.max(np.abs(t['f', 'x'] - np.diag(3 * x ** 2))), np.max(np.abs(t['g', 'x'] - np.diag(y))),
                              np.max(np.abs(t['g', 'y'] - np.diag(x + 1))), np.max(np.abs(t['f', 'y'] - 2 * np.eye(n))))
                    if err > 1e-12:
                        bad.append('explicit %s n=%d: max error of the totals %.3g' % (tag, n, err))
            except Exception as e:
                bad.append('explicit %s: %s: %s' % (tag, type(e).__name__, str(e)[:150]))
            p = om.Problem()
            c = p.model.add_subsystem('c', CI(use_jit=False), promotes=['*'])
            if coloring:
                c.declare_coloring(show_summary=False)
            p.model.nonlinear_solver = om.NewtonSolver(solve_subsystems=False, iprint=-1, atol=1e-13, rtol=1e-14)
            p.model.linear_solver = om.DirectSolver()
            try:
                for n in sizes:
                    c.options['n'] = n
                    p.setup(mode=mode)
                    x = np.linspace(-1, 1.3, n)
                    p.set_val('x', x)
                    p.run_model()
                    t = p.compute_totals(of=['s'], wrt=['x'])
                    s = p.get_val('s')
                    err = np.max(np.abs(t['s', 'x'] - np.diag(3 * x ** 2 / (3 + 0.3 * np.cos(s)))))
                    if err > 1e-12:
                        bad.append('implicit %s n=%d: max error of the totals %.3g' % (tag, n, err))
            except Exception as e:
                bad.append('implicit %s: %s: %s' % (tag, type(e).__name__, str(e)[:150]))
print('\n'.join(bad) if bad else 'PASS')
sys.exit(1 if bad else 0)
