"""Jax components (use_jit=True): a static value (option returned by get_self_statics, or a discrete input) that changes
from -1 to -2 is not noticed, because _statics_changed compares hash() values and hash(-1) == hash(-2) in CPython
(also hash(-1.0) == hash(-2.0)): the jitted jacobian function of the old value is kept.  Outputs are right, partials
stale.  Expected: PASS.  Unchanged repository: FAIL."""
import sys
import numpy as np
import openmdao.api as om
import jax
import jax.numpy as jnp
jax.config.update('jax_enable_x64', True)


class Opt(om.JaxExplicitComponent):
    def initialize(self):
        self.options.declare('k', default=-1.0)

    def get_self_statics(self):
        return (self.options['k'],)

    def setup(self):
        self.add_input('x', shape=(3,))
        self.add_output('f', shape=(3,))

    def compute_primal(self, x):
        f = self.options['k'] * jnp.sin(x)
        return (f,)


class Disc(om.JaxExplicitComponent):
    def setup(self):
        self.add_input('x', shape=(3,))
        self.add_output('f', shape=(3,))
        self.add_discrete_input('k', val=-1.0)

    def compute_primal(self, x, k):
        f = k * jnp.sin(x)
        return (f,)


bad = []
x = np.array([.3, -.7, 1.1])
for cls in (Opt, Disc):
    p = om.Problem()
    c = p.model.add_subsystem('c', cls(use_jit=True), promotes=['*'])
    p.setup()
    for k in (-1.0, -2.0):
        if cls is Opt:
            c.options['k'] = k
        else:
            p.set_val('k', k)
        p.set_val('x', x)
        p.run_model()
        J = p.compute_totals(of=['f'], wrt=['x'])['f', 'x']
        if np.max(np.abs(np.diag(J) - k * np.cos(x))) > 1e-12:
            bad.append('%s k=%s: df/dx diag %s expected %s' % (cls.__name__, k, np.diag(J), k * np.cos(x)))
print('\n'.join(bad) if bad else 'PASS')
sys.exit(1 if bad else 0)
