"""ImplicitFuncComp, method='jax' with declare_coloring, ONE scalar state and ONE scalar input the residual does not
really depend on (jacobian [dR/ds, 0]: one color for two columns, so the coloring is kept; direction fwd):
_jax_linearize raises IndexError 'tuple index out of range'.  Expected: PASS (ds/dx = 0)."""
import sys
import numpy as np
import openmdao.api as om
import openmdao.func_api as omf


def func(x0, s0):
    r0 = 2.39 * s0 + 0.3 * np.sin(s0) - (x0 - x0) ** 2
    return r0


f = omf.wrap(func).add_input('x0', shape=()).add_output('s0', resid='r0', shape=()) \
    .declare_partials(of='*', wrt='*', method='jax').declare_coloring(wrt='*', method='jax', show_summary=False)
p = om.Problem()
p.model.add_subsystem('c', om.ImplicitFuncComp(f, use_jit=False), promotes=['*'])
p.model.nonlinear_solver = om.NewtonSolver(solve_subsystems=False, iprint=-1)
p.model.linear_solver = om.DirectSolver()
p.setup(mode='fwd')
p.set_val('x0', 0.7)
p.set_val('s0', 0.2)
try:
    p.run_model()
    t = p.compute_totals(of=['s0'], wrt=['x0'])['s0', 'x0']
except Exception as e:
    print('FAIL: %s: %s' % (type(e).__name__, e))
    sys.exit(1)
print('PASS' if abs(t[0, 0]) < 1e-14 and abs(p.get_val('s0')[()] if np.ndim(p.get_val('s0')) == 0 else p.get_val('s0')[0]) < 1e-10
      else 'FAIL: ds/dx = %s, s = %s' % (t, p.get_val('s0')))
