"""JaxExplicitComponent / JaxImplicitComponent with use_jit=False and a discrete input: after the discrete value
changes, compute_partials / linearize keep using the value seen at the first linearization (outputs are right).
Expected: PASS.  Unchanged repository: FAIL (df/dx stays 2*cos(x) after n went 2 -> 3)."""
import sys
import numpy as np
import openmdao.api as om
import jax
import jax.numpy as jnp
jax.config.update('jax_enable_x64', True)


class Exp(om.JaxExplicitComponent):
    def setup(self):
        self.add_input('x', shape=(3,))
        self.add_output('f', shape=(3,))
        self.add_discrete_input('n', val=2.0)

    def compute_primal(self, x, n):
        f = n * jnp.sin(x)
        return (f,)


class Imp(om.JaxImplicitComponent):
    def setup(self):
        self.add_input('x', shape=(3,))
        self.add_output('s', shape=(3,))
        self.add_discrete_input('n', val=2.0)

    def compute_primal(self, x, s, n):
        return (3.0 * s - n * jnp.sin(x),)


bad = []
x = np.array([0.3, -0.7, 1.1])
for use_jit in (False, True):
    for coloring in (False, True):
        p = om.Problem()
        c = p.model.add_subsystem('c', Exp(use_jit=use_jit), promotes=['*'])
        if coloring:
            c.declare_coloring(show_summary=False)
        p.setup()
        for n in (2.0, 3.0, 1.0):
            p.set_val('x', x)
            p.set_val('n', n)
            p.run_model()
            J = p.compute_totals(of=['f'], wrt=['x'])['f', 'x']
            if np.max(np.abs(np.diag(J) - n * np.cos(x))) > 1e-12:
                bad.append('explicit use_jit=%s coloring=%s n=%s: df/dx diag %s expected %s'
                           % (use_jit, coloring, n, np.diag(J), n * np.cos(x)))
        # implicit: the discrete source must stay outside the group that Newton solves
        p = om.Problem()
        g = p.model.add_subsystem('g', om.Group())
        c = g.add_subsystem('c', Imp(use_jit=use_jit))
        if coloring:
            c.declare_coloring(show_summary=False)
        g.nonlinear_solver = om.NewtonSolver(solve_subsystems=False, iprint=-1)
        g.linear_solver = om.DirectSolver()
        p.setup()
        for n in (2.0, 3.0, 1.0):
            p.set_val('g.c.x', x)
            p.set_val('g.c.n', n)
            p.run_model()
            J = p.compute_totals(of=['g.c.s'], wrt=['g.c.x'])['g.c.s', 'g.c.x']
            if np.max(np.abs(np.diag(J) - n * np.cos(x) / 3.0)) > 1e-12:
                bad.append('implicit use_jit=%s coloring=%s n=%s: ds/dx diag %s expected %s'
                           % (use_jit, coloring, n, np.diag(J), n * np.cos(x) / 3.0))
print('\n'.join(bad) if bad else 'PASS')
sys.exit(1 if bad else 0)
