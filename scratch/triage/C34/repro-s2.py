"""Jax components detect their jacobian sparsity once, numerically, at the first linearization; an entry that is exactly
0.0 there is dropped for good.  (a) static factor 0 at the first linearization, changed afterwards; (b) exact
cancellation at the first point (cos(x) - 1 == 0.0 for |x| <= 1e-9).  Expected: PASS.  Unchanged repository: FAIL
(df/dx stays 0)."""
import sys
import numpy as np
import openmdao.api as om
import jax
import jax.numpy as jnp
jax.config.update('jax_enable_x64', True)


class Scaled(om.JaxExplicitComponent):
    def initialize(self):
        self.options.declare('k', default=0.0)

    def get_self_statics(self):
        return (self.options['k'],)

    def setup(self):
        self.add_input('x', shape=(3,))
        self.add_input('y', shape=(3,))
        self.add_output('f', shape=(3,))

    def compute_primal(self, x, y):
        f = self.options['k'] * jnp.sin(x) + 2.0 * y
        return (f,)


class ScaledImp(om.JaxImplicitComponent):
    def initialize(self):
        self.options.declare('k', default=0.0)

    def get_self_statics(self):
        return (self.options['k'],)

    def setup(self):
        self.add_input('x', shape=(3,))
        self.add_output('s', shape=(3,))

    def compute_primal(self, x, s):
        return (3.0 * s - self.options['k'] * jnp.sin(x),)


class SmallAngle(om.JaxExplicitComponent):
    def setup(self):
        self.add_input('x', shape=(3,))
        self.add_input('y', shape=(3,))
        self.add_output('f', shape=(3,))

    def compute_primal(self, x, y):
        f = jnp.sin(x) - x + 2.0 * y
        return (f,)


bad = []
x1 = np.array([0.3, -0.7, 1.1])
y1 = np.array([-0.4, 0.9, 0.2])
for use_jit in (False, True):
    for coloring in (False, True):
        tag = 'use_jit=%s coloring=%s' % (use_jit, coloring)
        # (a) explicit
        p = om.Problem()
        c = p.model.add_subsystem('c', Scaled(use_jit=use_jit), promotes=['*'])
        if coloring:
            c.declare_coloring(show_summary=False)
        p.setup()
        for k in (0.0, 1.5):
            c.options['k'] = k
            p.set_val('x', x1)
            p.set_val('y', y1)
            p.run_model()
            J = p.compute_totals(of=['f'], wrt=['x'])['f', 'x']
            if np.max(np.abs(np.diag(J) - k * np.cos(x1))) > 1e-12:
                bad.append('(a) explicit %s k=%s: df/dx diag %s expected %s' % (tag, k, np.diag(J), k * np.cos(x1)))
        # (a) implicit
        p = om.Problem()
        c = p.model.add_subsystem('c', ScaledImp(use_jit=use_jit), promotes=['*'])
        if coloring:
            c.declare_coloring(show_summary=False)
        p.model.nonlinear_solver = om.NewtonSolver(solve_subsystems=False, iprint=-1)
        p.model.linear_solver = om.DirectSolver()
        p.setup()
        for k in (0.0, 1.5):
            c.options['k'] = k
            p.set_val('x', x1)
            p.run_model()
            J = p.compute_totals(of=['s'], wrt=['x'])['s', 'x']
            if np.max(np.abs(np.diag(J) - k * np.cos(x1) / 3.0)) > 1e-12:
                bad.append('(a) implicit %s k=%s: ds/dx diag %s expected %s' % (tag, k, np.diag(J), k * np.cos(x1) / 3))
        # (b) cancellation at the starting point x = 0
        p = om.Problem()
        c = p.model.add_subsystem('c', SmallAngle(use_jit=use_jit), promotes=['*'])
        if coloring:
            c.declare_coloring(show_summary=False)
        p.setup()
        for x in (np.zeros(3), x1):
            p.set_val('x', x)
            p.set_val('y', y1)
            p.run_model()
            J = p.compute_totals(of=['f'], wrt=['x'])['f', 'x']
            if np.max(np.abs(np.diag(J) - (np.cos(x) - 1.0))) > 1e-12:
                bad.append('(b) %s x=%s: df/dx diag %s expected %s' % (tag, x, np.diag(J), np.cos(x) - 1.0))
print('\n'.join(bad) if bad else 'PASS')
sys.exit(1 if bad else 0)
