"""ExecComp log1p: (1) outputs lose the accuracy of numpy.log1p for small arguments, (2) partials that
ExecComp's sparsity detection sees through log1p are dropped for good when an input starts at 0.

Run: OPENMDAO_REPORTS=0 python repro-fix-s1.py   (exit 1 = defect present)
"""
import sys
import numpy as np
import scipy.special
import openmdao.api as om

bad = 0

# (1) accuracy of the output
p = om.Problem()
p.model.add_subsystem('c', om.ExecComp('y = log1p(x)'), promotes=['*'])
p.setup()
for x in (1e-3, 1e-6, 1e-9, -1.16349e-05, 0.5):
    p.set_val('x', x)
    p.run_model()
    got = float(p.get_val('y')[0])
    ref = float(np.log1p(x))
    rel = abs(got - ref) / abs(ref)
    print('x=%-12g y=%.17g numpy.log1p=%.17g rel.err=%.2e' % (x, got, ref, rel))
    bad += rel > 1e-14

# (2) wrong partials after a first linearization at x1 = 0
p = om.Problem()
p.model.add_subsystem('c', om.ExecComp('y = outer(erfc(x0), log1p(x1**2))', x0=np.ones(2), x1=np.ones(3),
                                       y=np.ones((2, 3))), promotes=['*'])
p.setup()
p.set_val('x0', [0.3, -0.4])
p.set_val('x1', [0.0, 0.0, 0.0])
p.run_model()
p.compute_totals(of=['y'], wrt=['x0', 'x1'])          # sparsity / coloring is determined here
x0 = np.array([0.7, -1.1])
x1 = np.array([1.3, -0.6, 0.9])
p.set_val('x0', x0)
p.set_val('x1', x1)
p.run_model()
J = p.compute_totals(of=['y'], wrt=['x0', 'x1'])
d_erfc = -2.0 / np.sqrt(np.pi) * np.exp(-x0 ** 2)
exp_x0 = np.zeros((6, 2))
for i in range(2):
    exp_x0[3 * i:3 * i + 3, i] = d_erfc[i] * np.log1p(x1 ** 2)
err = np.max(np.abs(J['y', 'x0'] - exp_x0))
print('dy/dx0 after a first linearization at x1=0: max abs error %.3g' % err)
print(J['y', 'x0'].T)
bad += err > 1e-12

print('FAIL' if bad else 'PASS')
sys.exit(1 if bad else 0)
