import numpy as np
import openmdao.api as om

x = np.array([1.0, 2.0, 3.0])
for diag in (False, True):
    p = om.Problem()
    # array/array partial dy/dx is diagonal; s is a size-1 output that depends on the array input
    p.model.add_subsystem('c', om.ExecComp(['y = 3.0*x', 's = sum(x**2)'], has_diag_partials=diag,
                                           x=np.ones(3), y=np.ones(3)))
    p.setup()
    p.set_val('c.x', x)
    p.run_model()
    J = p.compute_totals(of=['c.s', 'c.y'], wrt=['c.x'], return_format='flat_dict')
    print('has_diag_partials=%s  ds/dx =' % diag, J['c.s', 'c.x'], ' exact =', 2 * x)
    print('   dy/dx diag =', np.diag(J['c.y', 'c.x']))
