"""Standalone repros for the C06 mechanisms (python repro.py <n>), each in a fresh interpreter."""
import sys
import openmdao.api as om
from openmdao.utils.units import _find_unit, simplify_unit, valid_units, convert_units

which = sys.argv[1]
if which == 'token-exp':      # number in exponent notation * not-yet-expanded prefixed unit
    print(valid_units('1e3*m'), valid_units('1e3*kft'))                         # True False
    print(valid_units('1000*kft'), valid_units('1e3*kft'))                      # True True ('kft' now expanded)
elif which == 'token-underscore':   # library unit with underscore next to a not-yet-expanded prefixed unit
    print(valid_units('arc_minute*m'), valid_units('arc_minute*km'))            # True False
    valid_units('km')
    print(valid_units('arc_minute*km'))                                         # True
elif which == 'da':
    if len(sys.argv) > 2:
        valid_units('ah')           # atto-hour
    print(convert_units(1.0, 'dah', 's'))    # 36000.0 fresh; 3.6e-16 after 'ah'
elif which == 'compound':
    print(valid_units('kkm'), valid_units('Ypmol'))    # False False
    valid_units('km'); valid_units('pmol')
    print(valid_units('kkm'), valid_units('Ypmol'), convert_units(1., 'kkm', 'm'))    # True True 1e6
elif which == 'root':
    s = simplify_unit('(m**4)**0.5')
    print(repr(s))
    print(_find_unit(s))           # TypeError: Can't exponentiate unit 'm': only integer and inverse ...
elif which == 'number':
    s = simplify_unit('1000*m/m')
    print(repr(s), valid_units('1000*m/m'), valid_units(s))
    p = om.Problem()
    p.model.add_subsystem('c', om.ExecComp('y=2*x', x={'units': '1000*m/m'}, y={'units': None}))
    p.setup()
    p.run_model()
    print(p.model.c._var_rel2meta['x']['units'])
    print(p.get_val('c.x', units='unitless'))
