"""JaxExplicitComponent(matrix_free=True): the forward product overwrites the linear residual instead of adding to it.

ExplicitComponent._apply_linear first writes the identity part of the residual product (d_residuals -= d_outputs,
for the outputs that are in the scope of the product) and then calls compute_jacvec_product, which has to ADD
J d_inputs.  JaxExplicitComponent._compute_jacvec_product does `d_outputs.set_vals(deriv_vals)` in fwd mode, so the
identity part is lost whenever the component's own outputs are in scope: run_apply_linear('fwd') on the component or
on any group, i.e. every linear solver that forms the full operator of a group (DirectSolver(assemble_jac=False),
ScipyKrylov, PETScKrylov).  Reverse mode keeps the identity part, so fwd and rev are not adjoint; a DirectSolver
builds its matrix from the fwd products and finds it singular.  With LinearRunOnce / LinearBlockGS the own outputs
are never in scope, which is why the jax tests (all of them use the default LinearRunOnce) pass.

Expected: exit 0.  Unfixed: dot-product mismatch for the component and 'Singular entry found' from DirectSolver.
"""
import sys
import numpy as np
import openmdao.api as om
import jax.numpy as jnp


class Comp(om.JaxExplicitComponent):
    def setup(self):
        self.add_input('x', shape=(3,))
        self.add_output('y', shape=(3,))

    def compute_primal(self, x):
        return jnp.sin(x) + 0.3 * x


def build(mode, linear_solver):
    p = om.Problem()
    p.model.add_subsystem('ivc', om.IndepVarComp('x', np.array([0.3, 0.7, 1.1])))
    p.model.add_subsystem('comp', Comp(matrix_free=True))
    p.model.connect('ivc.x', 'comp.x')
    p.model.linear_solver = linear_solver
    p.setup(mode=mode)
    p.run_model()
    return p


ok = True
# (1) dot-product test on the component's own operator: (d_inputs, d_outputs) -> d_residuals
p = build('rev', om.LinearRunOnce())
c = p.model.comp
c.run_linearize()
rng = np.random.default_rng(0)
vi, vo, w = rng.uniform(-1, 1, 3), rng.uniform(-1, 1, 3), rng.uniform(-1, 1, 3)
c._dinputs.asarray()[:] = vi
c._doutputs.asarray()[:] = vo
c._dresiduals.asarray()[:] = 0.
c.run_apply_linear('fwd')
Av = c._dresiduals.asarray().copy()
c._dinputs.asarray()[:] = 0.
c._doutputs.asarray()[:] = 0.
c._dresiduals.asarray()[:] = w
c.run_apply_linear('rev')
lhs = w @ Av
rhs = c._dinputs.asarray() @ vi + c._doutputs.asarray() @ vo
print('component: <w, A v> = %.12f   <A^T w, v> = %.12f' % (lhs, rhs))
J = np.diag(np.cos([0.3, 0.7, 1.1]) + 0.3)
print('           fwd product %s, expected J vi - vo = %s' % (Av, J @ vi - vo))
if abs(lhs - rhs) > 1e-12:
    ok = False

# (2) totals through solvers that use the group's full operator
ref = build('fwd', om.LinearRunOnce()).compute_totals(['comp.y'], ['ivc.x'])['comp.y', 'ivc.x']
for name, mk in [('DirectSolver(assemble_jac=False)', lambda: om.DirectSolver(assemble_jac=False)),
                 ('ScipyKrylov', lambda: om.ScipyKrylov(atol=1e-14, rtol=1e-14, iprint=-1))]:
    for mode in ('fwd', 'rev'):
        try:
            J2 = build(mode, mk()).compute_totals(['comp.y'], ['ivc.x'])['comp.y', 'ivc.x']
            err = np.max(np.abs(J2 - ref))
            print('%s %s: max |J - J_runonce| = %.2e' % (name, mode, err))
            if not err < 1e-9:
                ok = False
        except Exception as e:
            print('%s %s: %s: %s' % (name, mode, type(e).__name__, str(e).splitlines()[0][:100]))
            ok = False
print('PASS' if ok else 'FAIL')
sys.exit(0 if ok else 1)
