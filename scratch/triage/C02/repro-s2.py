"""JaxImplicitComponent(matrix_free=True): the cached reverse-mode vjp closure ignores get_self_statics().

The rev branch of _jax_apply_linear keeps the function returned by jax.vjp and rebuilds it only when the key
(inputs hash, outputs hash, discrete inputs) changes.  Values that compute_primal reads from `self` and that the
component reports through get_self_statics() are baked into that closure too, but they are not part of the key
(the explicit sibling, JaxExplicitComponent._compute_jacvec_product, has them in its key).  After such a value
changes - with inputs and outputs unchanged - fwd products (jax.jvp at the current point, current option) and rev
products (stale closure, old option) are no longer adjoint and reverse-mode totals belong to the old option.

Expected: exit 0.  Unfixed: the rev total d post.f / d ivc.a after the option change equals the one before it.
"""
import sys
import numpy as np
import openmdao.api as om
import jax.numpy as jnp


class Quad(om.JaxImplicitComponent):
    def initialize(self):
        self.options.declare('c', types=float, default=1.0)

    def get_self_statics(self):
        return (self.options['c'],)

    def setup(self):
        self.add_input('a', shape=(2,))
        self.add_output('x', val=np.full(2, 2.0))

    def setup_partials(self):
        self.nonlinear_solver = om.NewtonSolver(solve_subsystems=False, maxiter=30, atol=1e-14, rtol=1e-14, iprint=-1)
        self.linear_solver = om.ScipyKrylov(atol=1e-14, rtol=1e-14, iprint=-1)

    def compute_primal(self, a, x):
        return x ** 2 - x - (1.0 + self.options['c'] * jnp.sin(a) ** 2)


def build(mode):
    p = om.Problem()
    p.model.add_subsystem('ivc', om.IndepVarComp('a', np.array([0.4, 0.9])))
    p.model.add_subsystem('comp', Quad(matrix_free=True))
    p.model.connect('ivc.a', 'comp.a')
    p.setup(mode=mode)
    p.run_model()
    return p


ok = True
tot = {}
for mode in ('fwd', 'rev'):
    p = build(mode)
    J1 = p.compute_totals(['comp.x'], ['ivc.a'])['comp.x', 'ivc.a'].copy()
    p.model.comp.options['c'] = 2.0          # inputs and outputs stay where they are
    J2 = p.compute_totals(['comp.x'], ['ivc.a'])['comp.x', 'ivc.a'].copy()
    tot[mode] = (J1, J2)
    print(mode, 'c=1:', np.diag(J1), ' c=2 (same point):', np.diag(J2))
# at a fixed point d x / d a = c * 2 sin(a) cos(a) / (2x - 1): proportional to c
for mode in ('fwd', 'rev'):
    J1, J2 = tot[mode]
    if not np.allclose(J2, 2.0 * J1, rtol=1e-9, atol=0):
        print('FAIL: %s totals after the option change are not twice the totals before it' % mode)
        ok = False
if not np.allclose(tot['fwd'][1], tot['rev'][1], rtol=1e-9, atol=0):
    print('FAIL: fwd and rev totals differ after the option change')
    ok = False
print('PASS' if ok else 'FAIL')
sys.exit(0 if ok else 1)
