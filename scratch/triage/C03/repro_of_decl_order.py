"""compute_totals(of=<responses in DECLARATION order, given by their source names>) on a problem whose driver has a
total coloring and whose objective was declared AFTER a constraint.

The driver orders its responses objective-first (f, y), the caller asks for (y, f).  That list differs from the
driver's order, so the driver's coloring (laid out for rows f, y) must not be applied - but
Group._get_totals_metadata builds the list of response *source* names in declaration order and compares the
caller's list with it, concludes "these are the driver's own responses" and lets the coloring through.
Colored result: rows scattered to the wrong places; uncolored result: right.
"""
import sys
import numpy as np
import openmdao.api as om

N = 4


def build(colored):
    p = om.Problem()
    m = p.model
    ivc = m.add_subsystem('ivc', om.IndepVarComp('x', np.arange(1., N + 1)))
    ivc.add_output('w', 0.5)
    m.add_subsystem('c', om.ExecComp(['y = 3.0 * x**2', 'f = (w - 2.0)**2'], x=np.ones(N), y=np.ones(N)))
    m.connect('ivc.x', 'c.x')
    m.connect('ivc.w', 'c.w')
    m.add_design_var('ivc.x')
    m.add_design_var('ivc.w')
    m.add_constraint('c.y', upper=100.)          # declared first
    m.add_objective('c.f')                       # declared second, but first in the driver's order
    p.driver = om.ScipyOptimizeDriver(optimizer='SLSQP', disp=False)
    if colored:
        p.driver.declare_coloring(show_summary=False)
    p.setup(mode='fwd')
    p.run_model()
    return p


of = ['c.y', 'c.f']
ref = build(False)
col = build(True)
col.compute_totals()                             # driver order: the coloring now exists (1 color)
J0 = ref.compute_totals(of=of, return_format='array')
J1 = col.compute_totals(of=of, return_format='array')
print('uncolored\n', J0)
print('colored\n', J1)
if np.abs(J0 - J1).max() > 1e-9:
    print('FAIL: max abs difference %g' % np.abs(J0 - J1).max())
    sys.exit(1)
print('PASS')
