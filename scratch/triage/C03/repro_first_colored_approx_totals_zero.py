"""Colored approximated totals: the call during which the coloring is computed returns zeros.

model.approx_totals(...) + model.declare_coloring(...) (dynamic): the first compute_totals() /
Driver._compute_totals() computes the coloring inside its own linearization.  Group.run_linearize, called by
System.compute_sparsity for that purpose, ends with `self._tot_jac = None`, so the approximated columns of the
rest of that linearization go to the group's own jacobian instead of the total jacobian: the call returns an
all-zero jacobian (or raises 'could not broadcast ...' when a constraint has indices).  Later calls are right.
A ScipyOptimizeDriver whose coloring is declared on the model only therefore gets a zero gradient in its first
iteration.
"""
import numpy as np
import openmdao.api as om


def build(colored):
    p = om.Problem()
    m = p.model
    m.add_subsystem('ivc', om.IndepVarComp('x', np.arange(1., 5.)))
    m.add_subsystem('c', om.ExecComp('y = 3*x**2', x=np.ones(4), y=np.ones(4)))
    m.connect('ivc.x', 'c.x')
    m.add_design_var('ivc.x')
    m.add_constraint('c.y', lower=0.)
    m.approx_totals(method='cs')
    if colored:
        m.declare_coloring('*', method='cs', show_summary=False)
    p.setup()
    p.run_model()
    return p


exact = np.diag(6 * np.arange(1., 5.))
print('uncolored, 1st call   :', np.abs(build(False).compute_totals(return_format='array') - exact).max())
p = build(True)
for i in range(3):
    print('colored, call %d       :' % (i + 1), np.abs(p.compute_totals(return_format='array') - exact).max(),
          '(expected 0)')
