"""compute_totals(of=<subset>, wrt=<subset>, coloring_info=<caller's dynamic ColoringMeta>) replaces the DRIVER's
total coloring by the coloring of the sub-jacobian (coloring_mod.dynamic_total_coloring always writes
driver._coloring_info.coloring); the next compute_totals() in driver order - what every optimizer iteration does -
applies that (2, 3) coloring to the 9 x 9 jacobian and returns silently wrong totals.  The usage pattern is the one of
openmdao/core/tests/test_pre_post_iter.py::test_pre_post_iter_auto_coloring_grouped_no_vois.
"""
import numpy as np, openmdao.api as om, sys
np.set_printoptions(precision=3, linewidth=200, suppress=True)
N=4
def build(colored):
    p = om.Problem()
    m = p.model
    m.add_subsystem('c1', om.ExecComp('y = a * x**2', shape=N, a=np.linspace(1., 2., N)), promotes=['*'])
    m.add_subsystem('c2', om.ExecComp('t = 3.0 * z + z**3', shape=N - 2), promotes=['*'])
    m.add_subsystem('c3', om.ExecComp('f = (w - 2.0)**2'), promotes=['*'])
    for n in 'xzw': m.add_design_var(n)
    m.add_objective('f'); m.add_constraint('y', lower=0.0); m.add_constraint('t', lower=0.0)
    p.driver = om.ScipyOptimizeDriver(optimizer='SLSQP', disp=False)
    if colored: p.driver.declare_coloring(show_summary=False)
    p.setup(mode='fwd'); p.set_val('x', np.linspace(1.0, 3.0, N)); p.set_val('z', np.linspace(0.5, 1.5, N - 2)); p.set_val('w', 0.3)
    p.run_model()
    return p
p0 = build(False); p = build(True)
ci = p.driver._coloring_info.copy(); ci.coloring = None; ci.dynamic = True
of, wrt = ['t'], ['z','w']
A = p.compute_totals(of=of, wrt=wrt, return_format='array', coloring_info=ci)
print('custom ci result ok:', np.abs(A - p0.compute_totals(of=of, wrt=wrt, return_format='array')).max())
print('driver coloring now:', p.driver._coloring_info.coloring, '| custom ci coloring:', ci.coloring)
J = p.compute_totals(return_format='array'); J0 = p0.compute_totals(return_format='array')
print('driver-order after custom-ci call: maxdiff', np.abs(J-J0).max())
sys.exit(1 if np.abs(J-J0).max() > 1e-9 else 0)
