import numpy as np, openmdao.api as om
N=4
class C(om.ExplicitComponent):
    def setup(self):
        self.add_input('a', np.ones(N)); self.add_input('x', np.ones(N))
        self.add_output('y', np.ones(N))
        self.declare_partials('y','a')
        self.declare_coloring(wrt=['x'], method='cs', show_summary=False)
    def compute(self, i, o):
        o['y'] = i['x']**2 * np.arange(1,N+1) + np.sum(i['a']**2)
    def compute_partials(self, i, p):
        p['y','a'] = np.tile(2*i['a'], (N,1))
def build(col):
    p = om.Problem()
    p.model.add_subsystem('c', C(), promotes=['*'])
    p.model.add_design_var('a'); p.model.add_design_var('x'); p.model.add_constraint('y', lower=0)
    p.model.add_subsystem('o', om.ExecComp('f=sum(y)', y=np.ones(N)), promotes=['*']); p.model.add_objective('f')
    p.driver = om.ScipyOptimizeDriver(disp=False)
    if col: p.driver.declare_coloring(show_summary=False)
    p.setup(mode='fwd'); p.set_val('a', np.arange(1,N+1)*0.5); p.set_val('x', np.arange(2,N+2)*1.0); p.run_model()
    return p
J0 = build(False).compute_totals(return_format='array')
p = build(True)
J1 = p.compute_totals(return_format='array')
print(p.driver._coloring_info.coloring)
print(np.round(J0,3)); print(np.round(J1,3))
