import numpy as np, openmdao.api as om
A = np.array([[1.08, -1.931, 1.521, 0.0]])
x0 = np.array([0.5336, 1.0995, 1.0158, 0.7317])
seen = []
class C(om.ExplicitComponent):
    def setup(self):
        self.add_input('x', np.ones(4)); self.add_output('y', np.ones(1))
        self.declare_partials('y', 'x')
    def compute(self, inputs, outputs):
        xv = inputs['x']
        seen.append((np.array(xv, copy=True), xv.strides, xv.flags['C_CONTIGUOUS'], A.dot(xv).copy()))
        outputs['y'] = A.dot(xv)
    def compute_partials(self, inputs, partials):
        partials['y', 'x'] = A
for fac in (True, False):
    del seen[:]
    p = om.Problem()
    p.model.add_subsystem('ivc', om.IndepVarComp('x', x0))
    p.model.add_subsystem('c', C())
    p.model.connect('ivc.x', 'c.x')
    p.setup(force_alloc_complex=fac); p.run_model()
    d = p.check_partials(out_stream=None, method='fd', form='central', step=1e-6)
    print('force_alloc_complex', fac, 'J_fd', d['c']['y', 'x']['J_fd'])
    for xv, st, cc, y in seen:
        yc = A.dot(np.ascontiguousarray(xv))
        print('  x-x0', xv - x0, 'strides', st, 'contig', cc, 'f in compute %r  f contiguous %r  diff %.3g' % (y[0], yc[0], y[0]-yc[0]))
h=1e-6
e=np.zeros(4); e[0]=h
print('harness', (A.dot(x0+e)-A.dot(x0-e))/(2*h))
print('S =', np.abs(A).dot(np.abs(x0)), 'f=', A.dot(x0), 'eps*S/h', 2.2e-16*np.abs(A).dot(np.abs(x0))/h)
