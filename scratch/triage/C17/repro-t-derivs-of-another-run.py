import numpy as np, openmdao.api as om
from openmdao.test_suite.components.paraboloid import Paraboloid
p = om.Problem()
p.model.add_subsystem('c', Paraboloid(), promotes=['*'])
p.model.add_design_var('x', lower=-50, upper=50); p.model.add_design_var('y', lower=-50, upper=50)
p.model.add_objective('f_xy')
p.driver = om.ScipyOptimizeDriver(optimizer='SLSQP', disp=False, maxiter=2)
p.driver.recording_options['record_derivatives'] = True
p.driver.add_recorder(om.SqliteRecorder('r.sql'))
p.setup()
p.set_val('x', 3.); p.set_val('y', -4.)
p.run_driver()            # run 1
p.run_driver()            # run 2, same recorder, no case_prefix -> same coordinates again
p.cleanup()
fn = str(p.get_outputs_dir() / 'r.sql'); cr = om.CaseReader(fn)
names = cr.list_cases(out_stream=None)
for i, n in enumerate(names):
    c = cr.get_case(i)
    x, y = float(c.outputs['x'][0]), float(c.outputs['y'][0])
    d = None if c.derivatives is None else float(c.derivatives['f_xy', 'x'][0, 0])
    print(i, n, 'counter', c.counter, 'x,y=(%.4f, %.4f)' % (x, y), 'exact df/dx=%.4f' % (2*(x-3)+y), 'shown df/dx=', d)
import sqlite3
print(sqlite3.connect(fn).execute('select id, iteration_coordinate from driver_derivatives').fetchall())
