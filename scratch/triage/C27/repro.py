# standalone reproduction of the C27 mechanisms (OptionsDictionary.temporary)
import warnings
warnings.simplefilter('ignore')
from openmdao.utils.options_dictionary import OptionsDictionary


def fresh():
    o = OptionsDictionary()
    o.declare('a', default=1, types=int)
    o.declare('b', default='x', values=('x', 'y'))
    o.declare('req', types=int)                                   # no default, never set
    o.declare('old', deprecation=('old is deprecated, use a', 'a'))
    o.declare('dangling', deprecation=('use ghost', 'ghost'))     # alias of a missing option
    return o


def show(tag, o):
    print('%-40s a=%r b=%r cache=%r' % (tag, o['a'], o['b'], o._context_cache))


o = fresh()
try:
    with o.temporary(a=2, b='y'):
        raise ValueError('boom')
except ValueError:
    pass
show('exception in body', o)                 # expected a=1 b='x'

for tag, kw in [('enter: rejected value', dict(a=2, b='nope')),
                ('enter: undeclared', dict(a=2, nosuch=1)),
                ('enter: unset option', dict(a=2, req=3)),
                ('enter: alias of missing option', dict(a=2, dangling=3))]:
    o = fresh()
    try:
        with o.temporary(**kw):
            print('  entered?!')
    except Exception as e:
        err = type(e).__name__
    show(tag + ' (%s)' % err, o)             # expected a=1

o = fresh()
with o.temporary(a=2, old=3):
    pass
show('normal exit, alias + target', o)       # expected a=1

o = fresh()
with o.temporary(a=2):
    try:
        with o.temporary(a=3):
            raise ValueError('boom')
    except ValueError:
        pass
    print('after inner context left by exception: a=%r (expected 2)' % o['a'])
show('outer left normally', o)               # expected a=1
