import numpy as np
from openmdao.surrogate_models.nearest_neighbor import NearestNeighbor
import openmdao; print(openmdao.__file__)
x = np.array([[0.], [1.], [2.], [3.]])
y = np.array([[0., 1.], [1., 3.], [1., 2.], [0., 5.]])
s = NearestNeighbor(interpolant_type='linear'); s.train(x, y)
print('predict', s.predict(np.array([0.5])))
try:
    print('linearize', s.linearize(np.array([0.5])))
except Exception as e:
    print('linearize raises', type(e).__name__, e)
