"""NearestNeighbor.predict/linearize reshape the caller's 1-D point IN PLACE to (1, n).
MetaModelUnStructuredComp (vec_size=1) passes the same flat input array to the surrogate of every output, so an output
with a NearestNeighbor surrogate declared before an output with a ResponseSurface makes compute() raise IndexError
(ResponseSurface.predict indexes x[i]) as soon as there are >= 2 input columns."""
import sys
import numpy as np
import openmdao.api as om

rng = np.random.default_rng(0)
X = rng.uniform(-1, 1, (12, 2))
Y = rng.uniform(-1, 1, (12, 1))
bad = False

for t in ('linear', 'weighted', 'rbf'):
    s = om.NearestNeighbor(interpolant_type=t)
    s.train(X, Y)
    for meth in ('predict', 'linearize'):
        p = np.array([0.1, 0.2])
        getattr(s, meth)(p)
        if p.shape != (2,):
            bad = True
            print('FAIL  NearestNeighbor(%s).%s changed the shape of the caller\'s array to %s' % (t, meth, p.shape))

c = om.MetaModelUnStructuredComp()
c.add_input('x', np.zeros(2), training_data=X)
c.add_output('a', 0.0, training_data=Y[:, 0], surrogate=om.NearestNeighbor(interpolant_type='weighted'))
c.add_output('b', 0.0, training_data=Y[:, 0], surrogate=om.ResponseSurface())
prob = om.Problem()
prob.model.add_subsystem('c', c)
prob.setup()
prob.set_val('c.x', [0.1, 0.2])
try:
    prob.run_model()
    print('component ran: a=%s b=%s' % (prob.get_val('c.a'), prob.get_val('c.b')))
except Exception as e:
    bad = True
    print('FAIL  run_model raised %s: %s' % (type(e).__name__, e))
print('FAIL' if bad else 'PASS')
sys.exit(1 if bad else 0)
