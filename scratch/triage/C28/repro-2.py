import numpy as np
from openmdao.surrogate_models.nearest_neighbor import NearestNeighbor
x = np.linspace(0., 3., 7).reshape(-1, 1)
y = np.sin(x)
for fam in (0, 1, 2, 3, 4):
    s = NearestNeighbor(interpolant_type='rbf', num_neighbors=4, rbf_family=fam); s.train(x, y)
    p, h = 0.8, 1e-6
    J = s.linearize(np.array([p])).ravel()       # before any predict: no neighbour cache involved
    fd = (s.predict(np.array([p + h])) - s.predict(np.array([p - h]))) / (2 * h)
    print('family', fam, 'linearize', J, 'central diff', fd.ravel())
