"""find_feasible reports success but leaves the model at a rejected trust-region trial point."""
import numpy as np
import openmdao.api as om

p = om.Problem()
p.model.add_subsystem('c', om.ExecComp('g = 1000.*(-1.816878*xa/304.8 + 2.255485*xb + 1.426326)'),
                      promotes=['*'])
p.model.add_subsystem('o', om.ExecComp('f = xa**2 + xb**2'), promotes=['*'])
p.model.add_design_var('xa', lower=759.481, ref=-1.1889, ref0=-1.9196)
p.model.add_design_var('xb', lower=-1.0615)
p.model.add_constraint('g', equals=-6109.755496, linear=True)
p.model.add_objective('f')
p.setup()
p.set_val('xa', 3.402603894943 * 304.8)
p.set_val('xb', -1.0614)
p.run_model()
failed = p.find_feasible(iprint=1, loss_tol=1e-8)
viol = p.driver.get_constraint_values(viol=True, driver_scaling=True)['g']
print('failed =', failed, ' success =', p.driver.result.success)
print('model state after return: xa=%r xb=%r g=%r' % (p.get_val('xa')[0], p.get_val('xb')[0], p.get_val('g')[0]))
print('violation at the model state =', viol, ' loss = %.3g (loss_tol 1e-8)' % (0.5 * float(viol @ viol)))
