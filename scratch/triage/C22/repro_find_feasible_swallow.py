import numpy as np, openmdao.api as om
import sys
K = int(sys.argv[1])
class C(om.ExplicitComponent):
    n = 0
    def setup(self):
        self.add_input('x', 5.0); self.add_output('g', 0.0); self.add_output('f', 0.0)
        self.declare_partials('*', '*')
    def compute_partials(self, i, J):
        J['g','x'] = 2.0; J['f','x'] = 2*i['x']
    def compute(self, i, o):
        C.n += 1
        if C.n > K:
            raise RuntimeError('model blew up')
        o['g'] = 2 * i['x']; o['f'] = i['x'] ** 2
p = om.Problem()
p.model.add_subsystem('c', C(), promotes=['*'])
p.model.add_design_var('x', lower=-10, upper=10); p.model.add_objective('f')
p.model.add_constraint('g', upper=1.)
p.setup(); p.run_model()          # g = 10, violated by 9
try:
    failed = p.find_feasible(iprint=1)
    print('failed =', failed, 'success =', p.driver.result.success, 'g =', p.get_val('g'), '_exc_info pending:', p.driver._exc_info is not None)
except Exception as e:
    print('raised', type(e).__name__, e)
