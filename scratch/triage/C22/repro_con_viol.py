import numpy as np, openmdao.api as om
p = om.Problem()
p.model.add_subsystem('c', om.ExecComp(['g=2*x', 'f=sum(x**2)'], x=np.zeros(3), g=np.zeros(3)), promotes=['*'])
p.model.add_design_var('x', lower=-10, upper=10)
p.model.add_constraint('g', lower=np.array([0., 1., 2.]), upper=np.array([1., 2., 3.]), scaler=10., adder=7.)
p.model.add_objective('f')
p.setup(); p.set_val('x', [2.0, 0.75, -1.0]); p.run_model()      # g = [4, 1.5, -2]  -> viol = [3, 0, -4]
for ds in (False, True):
    try:
        print('driver_scaling', ds, p.driver.get_constraint_values(viol=True, driver_scaling=ds)['g'], 'expected', np.array([3, 0, -4.]) * (10. if ds else 1.))
    except Exception as e:
        print('driver_scaling', ds, 'raises', type(e).__name__, e)
failed = p.find_feasible(iprint=0)
print('find_feasible: failed =', failed, ' success =', p.driver.result.success, ' g =', p.get_val('g'))
# scalar bounds, driver_scaling=True: unscaled distance returned
p = om.Problem()
p.model.add_subsystem('c', om.ExecComp(['g=2*x', 'f=x**2']), promotes=['*'])
p.model.add_design_var('x'); p.model.add_objective('f')
p.model.add_constraint('g', upper=1., scaler=10., adder=7.)
p.setup(); p.set_val('x', 2.0); p.run_model()
print(p.driver.get_constraint_values(viol=True, driver_scaling=True)['g'], 'expected [30.]')
