#!/venv/bin/python
"""mkseeder.py CNN tag -> creates worktree /tmp/seed-<tag>, prints the prompt for the seeder agent."""
import json, subprocess, sys, os
pid, tag = sys.argv[1], sys.argv[2]
wt = '/tmp/seed-%s' % tag
if not os.path.exists(wt):
    subprocess.check_call(['git', '-C', '/repo', 'worktree', 'add', '--detach', wt, 'HEAD'], stdout=subprocess.DEVNULL, stderr=subprocess.DEVNULL)
os.makedirs('/tmp/%s/out' % tag, exist_ok=True)
prop = [json.loads(l) for l in open('/verif/properties.jsonl') if json.loads(l)['id'] == pid][0]
keep = {k: prop[k] for k in ('id', 'title', 'statement', 'quantifier', 'why_tests_cant', 'anchors')}
s = open('/verif/scratch/seeder_brief.md').read()
s = s.replace('<PROPERTY_JSON>', json.dumps(keep, indent=1)).replace('<your id>', tag).replace('<worktree>', wt)
extra = sys.argv[3] if len(sys.argv) > 3 else ''
print(s + ('\n' + extra if extra else ''))
