#!/venv/bin/python
"""seedmeta.py <dir under /verif/seeded> <property> <needs text> <caught-by text> [ran text]"""
import json, sys, os, subprocess
d, prop, needs, caught = sys.argv[1:5]
ran = sys.argv[5] if len(sys.argv) > 5 else ''
path = os.path.join('/verif/seeded', d)
files = [l.split('|')[0].strip() for l in subprocess.check_output(['git', 'apply', '--stat', os.path.join(path, 'patch.diff')]).decode().splitlines() if '|' in l]
meta = {'property': prop, 'breaks': prop, 'files_changed': files, 'needs_to_manifest': needs,
        'author': 'fresh sub-agent given only the property text and a scratch worktree',
        'confirmed': {'demo_without_change': open(os.path.join(path, 'demo_without.log')).read().strip().splitlines()[-1][:200],
                      'demo_with_change': open(os.path.join(path, 'demo_with.log')).read().strip().splitlines()[-1][:200],
                      'existing_tests': ran or 'see notes.txt (test files run by the author with identical pass counts with/without the change)'},
        'detected_by': caught}
json.dump(meta, open(os.path.join(path, 'meta.json'), 'w'), indent=1)
print(json.dumps(meta, indent=1)[:600])
