#!/bin/bash
# seedrun.sh "tag CNN" ... : run the check of CNN against /tmp/val-<tag>; log to seeded/CNN-tag/check.log
cd /verif
for t in "$@"; do set -- $t; tag=$1; prop=$2
  OMV_REPO=/tmp/val-$tag ./check $prop --tier quick --jobs ${JOBS:-8} --no-evidence > seeded/$prop-$tag/check.log 2>&1
  echo "$prop-$tag exit=$? $(grep -E '^(HELD|VIOLATED|INCONCLUSIVE)' seeded/$prop-$tag/check.log | cut -c1-80) keys: $(grep -E '^violation key' seeded/$prop-$tag/check.log | sed -E 's/ what=.*//; s/violation key=//' | sort -u | head -4 | tr '\n' ' ')" >> scratch/seedrun.log
done
