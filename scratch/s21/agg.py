import sys, json, subprocess, os, concurrent.futures as cf, collections, time
sys.path.insert(0, '/verif')
from omv import checks
mod = checks.load('C21')
seed = int(sys.argv[1]); repo = sys.argv[2] if len(sys.argv) > 2 else '/repo'
env = dict(os.environ, PYTHONPATH=repo + ':/verif:/verif/.deps', OPENMDAO_REPORTS='0', PYTHONHASHSEED='0', OMV_REPO=repo,
           OMP_NUM_THREADS='1', OPENBLAS_NUM_THREADS='1', MKL_NUM_THREADS='1', PYTHONDONTWRITEBYTECODE='1', OPENMDAO_VERIF='1')
def run(sh):
    t = time.time()
    r = subprocess.run(['/venv/bin/python', '-m', 'omv.worker', 'C21', json.dumps(sh)], env=env, capture_output=True, text=True, cwd='/tmp')
    line = [l for l in r.stdout.splitlines() if l.startswith('OMV-RESULT ')]
    if not line:
        return {'error': r.stderr[-2000:], 'counters': {}, 'skipped': {}, 'violations': [], 'wall': time.time() - t}
    d = json.loads(line[-1][11:]); d['wall'] = time.time() - t
    return d
C = collections.Counter(); S = collections.Counter(); V = collections.Counter(); walls = []
with cf.ThreadPoolExecutor(8) as ex:
    for d in ex.map(run, mod.shards('quick', seed)):
        if d.get('error'): print('ERR', d['error'])
        C.update(d.get('counters', {})); S.update(d.get('skipped', {})); walls.append(round(d['wall']))
        for v in d.get('violations', []): V[v['key']] += 1
for k in sorted(C):
    if not k.startswith('cell:') or 'history' in k: print(k, C[k])
print('SKIPS', dict(S)); print('VIOL', dict(V)); print('walls', walls)
