import sys, json, os, time, warnings
warnings.simplefilter('ignore')
os.environ.setdefault('OPENMDAO_REPORTS','0')
import numpy as np
np.seterr(all='ignore')
from omv.core import Acc
from omv import checks
mod = checks.load('C21')
seed = int(sys.argv[1]) if len(sys.argv)>1 else 0
k = int(sys.argv[2]) if len(sys.argv)>2 else 0
sh = mod.shards('quick', seed)[k]
acc = Acc('C21', sh)
import tempfile; os.chdir(tempfile.mkdtemp())
t=time.time()
mod.run_shard(sh, acc)
d = acc.dump()
print('time', time.time()-t)
print({k:v for k,v in d.items() if k not in ('counters','violations','samples')})
for k_,v in sorted(d['counters'].items()):
    if 'history' in k_ or 'hist' in k_ or 'minimize' in k_ or 'anomaly' in k_ or 'guard' in k_: print(' ',k_,v)
for v in d['violations']:
    print('VIOL', v['key'], '|', v['what'][:200])
