import numpy as np, openmdao.api as om
import openmdao.drivers.scipy_optimizer as so
class C(om.ExplicitComponent):
    def setup(self):
        self.add_input('x', np.zeros(2), units='m'); self.add_input('p', 1.0)
        self.add_output('f', 0.0); self.add_output('g', np.zeros(2), units='s')
        self.declare_partials('*','*')
    def compute(self, i, o):
        x=i['x']; p=i['p'][0]
        o['f']=np.sum((x-np.array([3.,2.]))**2)
        o['g']=np.array([[1,p],[p,1.]])@x
    def compute_partials(self,i,J):
        x=i['x']; p=i['p'][0]
        J['f','x']=2*(x-np.array([3.,2.])); J['f','p']=0
        J['g','x']=np.array([[1,p],[p,1.]]); J['g','p']=np.array([x[1],x[0]])
for opt in ['SLSQP','trust-constr']:
    p=om.Problem(); p.model.add_subsystem('c',C(),promotes=['*'])
    p.model.add_design_var('x', lower=-10, upper=10, units='cm')
    p.model.add_constraint('g', upper=[1.,2.], units='min', linear=True)
    p.model.add_objective('f')
    p.driver=om.ScipyOptimizeDriver(optimizer=opt, tol=1e-10, disp=False)
    p.setup()
    orig=so.minimize
    def spy(fun,x0,**kw):
        print('  x0',x0,'bounds',kw['bounds']); 
        for c in kw['constraints']:
            print('   con', getattr(c,'A',None), getattr(c,'lb',None), getattr(c,'ub',None)) if not isinstance(c,dict) else None
        return orig(fun,x0,**kw)
    so.minimize=spy
    p.run_driver(); print(opt, p.get_val('x'), p.get_val('g'), p.driver.result.success)
    p.model.set_constraint_options('g', upper=[0.5,1.0], scaler=[2.,3.])
    p.model.set_design_var_options('x', lower=[-5,-6.], ref=[100.,200.])
    p.model.set_objective_options('f', scaler=0.1, adder=0.0)
    p.set_val('p', 0.5)
    p.run_driver(); print(opt, p.get_val('x'), p.get_val('g'), p.driver.result.success)
    p.setup(); p.set_val('p',0.25); p.set_val('x',[0.1,0.1])
    p.run_driver(); print(opt, p.get_val('x'), p.get_val('g'), p.driver.result.success)
    so.minimize=orig
