#!/venv/bin/python
"""mergeknown.py file.json ... : append entries (list of {property,key,what,witness}) to known_findings.json (dedupe by property+key)."""
import json, sys
p = '/verif/known_findings.json'
d = json.load(open(p))
have = {(e['property'], e['key']) for e in d['findings']}
for f in sys.argv[1:]:
    for e in json.load(open(f)):
        k = (e['property'], e['key'])
        if k in have:
            print('dup', k); continue
        have.add(k)
        d['findings'].append({'property': e['property'], 'key': e['key'], 'what': e['what'], 'witness': e.get('witness')})
        print('added', k)
json.dump(d, open(p, 'w'), indent=1)
open(p, 'a').write('\n')
