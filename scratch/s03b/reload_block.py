# ----------------------------------------------------------------------------------------------
# (b4) framework layer, colorings that are REUSED: written to a file / copied in one problem, used in another one
# ----------------------------------------------------------------------------------------------
TOTAL_WAYS = ['file', 'file', 'run1-file', 'std-dir', 'third-run', 'compute_total_coloring-fname', 'pickled-object',
              'deepcopied-object']
PARTIAL_WAYS = ['file', 'run1-file', 'std-dir', 'third-run', 'pickled-object']
WAY_GROUP = {'file': 'file', 'run1-file': 'file', 'std-dir': 'file', 'third-run': 'file',
             'compute_total_coloring-fname': 'file', 'pickled-object': 'object-copy', 'deepcopied-object': 'object-copy'}


def _split(rng, total, parts):
    """`total` as a list of `parts` positive sizes <= 6."""
    parts = max(parts, -(-total // 6))
    parts = min(parts, total)
    cuts = sorted(rng.sample(range(1, total), parts - 1)) if parts > 1 else []
    sizes = [b - a for a, b in zip([0] + cuts, cuts + [total])]
    while max(sizes) > 6:
        k = sizes.index(max(sizes))
        j = sizes.index(min(sizes))
        sizes[k] -= 1
        sizes[j] += 1
    return sizes


def gen_reload_case(rng, idx, uid):
    if idx % 4 == 3:
        case = gen_psub_case(rng, idx)
        case.update({'kind': 'reload', 'layer': 'partial', 'way': rng.choice(PARTIAL_WAYS), 'uid': uid,
                     'driver': 'scipy'})
        return case
    # patterns for which the bidirectional coloring wins and the substitution method leaves a subtraction list:
    # a few dense rows AND columns over something sparse
    m, n = rng.randrange(4, 10), rng.randrange(4, 10)
    kind = rng.choice(['arrow', 'arrow', 'eisenstat', 'eisenstat', 'blockdiag+dense', 'random+cross'])
    if kind == 'random+cross':
        P = np.array([[rng.random() < 0.15 for _ in range(n)] for _ in range(m)], dtype=bool)
        P[np.arange(min(m, n)), np.arange(min(m, n))] = True
        P[rng.randrange(m), :] = True
        P[:, rng.randrange(n)] = True
    else:
        P = structured_pattern(rng, m, n, kind)
    if rng.random() < 0.5:                  # the dense rows / columns anywhere, not only first
        P = P[rng.sample(range(m), m), :][:, rng.sample(range(n), n)]
    for i in range(m):
        if not P[i].any():
            P[i, rng.randrange(n)] = True
    for j in range(n):
        if not P[:, j].any():
            P[rng.randrange(m), j] = True
    isz, osz = _split(rng, n, rng.choice([1, 2, 3])), _split(rng, m, rng.choice([1, 2, 3]))
    A = [[round(rng.uniform(1, 2), 4) if P[i, j] else 0.0 for j in range(n)] for i in range(m)]
    case = {'kind': 'reload', 'layer': 'total', 'idx': idx, 'uid': uid, 'isz': isz, 'osz': osz, 'pkind': kind, 'A': A,
            'g': rng.choice(['lin', 'sq']), 'x0': [round(rng.uniform(0.5, 1.5), 4) for _ in range(n)],
            'mode': rng.choice(['auto', 'auto', 'auto', 'auto', 'auto', 'auto', 'fwd', 'rev']),
            'direct': rng.random() < 0.25, 'promote': rng.random() < 0.5, 'driver': 'scipy', 'obj': None,
            'way': rng.choice(TOTAL_WAYS), 'scaling': None}
    if rng.random() < 0.4:
        case['scaling'] = {'dv': [[round(rng.uniform(0.2, 5), 3) for _ in range(k)] for k in isz],
                           'con': [[round(rng.uniform(0.2, 5), 3) for _ in range(k)] for k in osz]}
    case['ds'] = bool(case['scaling']) and rng.random() < 0.7
    return case


def run_reload_case(case, acc):
    """Problem 1 computes a coloring (dynamic); problem 2 (3) gets it through a file / a copy; every problem's
    derivatives must equal the uncolored twin's and the closed form."""
    import contextlib
    import copy
    import io
    import os
    import pickle
    import tempfile
    import openmdao.utils.coloring as cm
    install(acc)
    layer, way = case['layer'], case['way']
    _state['ctx'] = 'reload'
    ps = []
    total = layer == 'total'
    uid = case['uid']
    ds = bool(case.get('ds'))
    hook = 'hook:simul_coloring_jac_setter' if total else 'hook:_colored_column_iter'

    def cnt(name):
        return acc.counters.get(name, 0)

    def build(col, name=None):
        q = build_h(case, name=name, **({'tot': col} if total else {'par': col}))
        ps.append(q)
        return q

    def coloring_of(q):
        return (q.driver if total else q.model.c)._coloring_info.coloring
    try:
        blocks = closed_form_h(case, ds)
        dvs, _, resps, _ = _h_names(case)
        Jx = np.block([[blocks[a, b] for b in range(len(dvs))] for a in range(len(resps))])
        A = np.array(case['A'])
        if total or case['method'] == 'cs':
            tol = (1e-12 if total else 1e-11) * np.abs(Jx).max()
        else:
            fmax = np.abs(A).sum(axis=1).max() * 2.25
            tol = np.abs(A).max() * 1e-6 * 1.01 + 32 * np.finfo(float).eps * fmax / 1e-6
        try:
            p0 = build_h(case)
            ps.append(p0)
            J0 = p0.compute_totals(return_format='array', driver_scaling=ds)
        except Exception as e:
            acc.skip('uncolored-raises:%s(not C03)' % type(e).__name__)
            return
        if J0.shape != Jx.shape or np.any(np.abs(J0 - Jx) > tol):
            acc.skip('uncolored-differs-from-closed-form(not C03)')
            return
        res = []            # (who, J first call, J second call, coloring used, subtractions applied)
        stage = 'first-run'
        try:
            p1 = build('dynamic', name='c03r_%s_a' % uid)
            if way == 'compute_total_coloring-fname':
                fn = os.path.join(tempfile.mkdtemp(prefix='c03rl'), 'offline_total_coloring.pkl')
                with contextlib.redirect_stdout(io.StringIO()):
                    col = cm.compute_total_coloring(p1, fname=fn)
            h0, s0 = cnt(hook), cnt('hook:_apply_subtractions')
            Ja = p1.compute_totals(return_format='array', driver_scaling=ds)
            Jb = p1.compute_totals(return_format='array', driver_scaling=ds)
            res.append(('dynamic', Ja, Jb, cnt(hook) > h0, cnt('hook:_apply_subtractions') > s0))
            if way != 'compute_total_coloring-fname':
                col = coloring_of(p1)
            if col is None:
                acc.skip('no-coloring-to-reuse')
                return
            has_subs = bool(col._subtractions)
            bidir = bool(col._fwd and col._rev)
            names = ['c03r_%s_b' % uid]
            if way in ('file', 'third-run'):
                src = os.path.join(tempfile.mkdtemp(prefix='c03rl'), 'saved_coloring.pkl')
                col.save(src)
            elif way == 'compute_total_coloring-fname':
                src = fn
            elif way == 'run1-file':                      # the file the framework wrote itself in run 1
                src = str((p1.driver if total else p1.model.c).get_coloring_fname(mode='output'))
            elif way == 'std-dir':                          # same problem name = same coloring directory
                src, names = 'std', ['c03r_%s_a' % uid]
            elif way == 'pickled-object':
                src = pickle.loads(pickle.dumps(col))
            else:
                src = copy.deepcopy(col)
            if way == 'third-run':
                names.append(names[0])
            for k, nm in enumerate(names):
                stage = 'reloaded' if k == 0 else 'reloaded-from-resaved-file'
                q = build(src, name=nm)
                h0, s0 = cnt(hook), cnt('hook:_apply_subtractions')
                Ja = q.compute_totals(return_format='array', driver_scaling=ds)
                Jb = q.compute_totals(return_format='array', driver_scaling=ds)
                res.append((stage, Ja, Jb, cnt(hook) > h0, cnt('hook:_apply_subtractions') > s0))
                src = 'std'         # a third run takes the file the second run re-saved in its own directory
        except Exception as e:
            acc.viol('reload:%s:%s:%s:raises:%s' % (layer, WAY_GROUP[way], stage, type(e).__name__),
                     'way %s: %s' % (way, str(e)[:300]), case)
            return
        acc.count('obs:reload-colored-vs-uncolored')
        acc.count('cell:reload/%s/%s' % (layer, way))
        if total:
            modetag = '%s:%s' % (case['mode'], 'direct' if case['direct'] else 'substitution')
            if not case['direct']:
                acc.count('cell:reload/substitution')
            if bidir:
                acc.count('obs:reload-bidirectional-coloring')
            if has_subs:
                acc.count('obs:reload-coloring-has-subtractions')
                acc.count('obs:reload-coloring-has-subtractions/%s' % WAY_GROUP[way])
                modetag += '-with-subtractions'
            if ds:
                acc.count('cell:reload/scaled')
        else:
            modetag = case['method']
        bad = False
        for who, Ja, Jb, used, subs_applied in res:
            for nth, J in (('first-call', Ja), ('second-call', Jb)):
                d = np.abs(J - Jx) if J.shape == Jx.shape else None
                lim = tol if total or case['method'] == 'cs' else 2 * tol
                if d is None or np.any(d > tol) or np.any(np.abs(J - J0) > lim) or not np.all(np.isfinite(J)):
                    k = np.unravel_index(np.argmax(d), d.shape) if d is not None else None
                    src_tag = 'dynamic' if who == 'dynamic' else '%s:%s' % (WAY_GROUP[way], who)
                    acc.viol('reload:%s:%s:%s:colored-differs-from-uncolored' % (layer, modetag, src_tag),
                             'way %s, %s, %s: %s (coloring used %s, subtractions applied %s; coloring of run 1: '
                             'bidirectional %s, subtractions %s)' %
                             (way, who, nth, 'shape %s' % (J.shape,) if d is None else
                              'entry %s colored %r exact %r, %d of %d entries wrong' %
                              (tuple(int(v) for v in k), J[k], Jx[k], int((d > tol).sum()), d.size), used,
                              subs_applied, bidir, _norm_subs(col._subtractions)), case, new_case=not bad)
                    bad = True
                    break
            if bad:
                break
        if bad:
            return
        if not all(r[3] for r in res):
            acc.skip('coloring-not-used')
            return
        if total and has_subs and all(r[4] for r in res[1:]):
            acc.count('obs:reload-subtractions-applied-after-reload')
        if len(res) > 2:
            acc.count('obs:reload-third-run-used-resaved-file')
        acc.ok(fingerprint(['reload', layer, case['isz'], case['osz'], (A != 0).astype(int).tolist(), modetag, way,
                            bool(case.get('scaling')), ds, case.get('pwrt'), bool(case.get('implicit'))]),
               nontrivial=True, sample=case if case['idx'] % 23 == 0 else None)
    finally:
        _state['ctx'] = None
        for q in ps:
            try:
                q.cleanup()
            except Exception:
                pass


