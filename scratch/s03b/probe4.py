import sys, time
sys.path.insert(0,'/verif')
from omv.checks import c03_coloring as C
from omv.core import Acc
if len(sys.argv)>1: C.judge_copies=lambda *a: None
acc=Acc('C03')
t0=time.process_time()
C.run_shard({'kind': 'enum', 'shapes': [[3,4]], 'lo': 2048, 'hi': 2048+512}, acc)
print('cpu', time.process_time()-t0, acc.judged, acc.n_viol)
print({k:v for k,v in acc.counters.items()})
for v in acc.violations[:5]: print(v['key'] if isinstance(v,dict) else v)
