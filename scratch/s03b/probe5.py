import sys, time, cProfile, pstats
sys.path.insert(0,'/verif')
from omv.checks import c03_coloring as C
from omv.core import Acc
acc=Acc('C03')
C.install(acc)
cProfile.run("C.run_shard({'kind': 'enum', 'shapes': [[3,4]], 'lo': 2048, 'hi': 2048+256}, acc)", '/tmp/c03prof')
pstats.Stats('/tmp/c03prof').sort_stats('cumulative').print_stats('run_shard|judge_copies|judge_coloring|through_file|lambda')
