import sys, os
import numpy as np
import openmdao.api as om
from openmdao.utils.coloring import Coloring
PATTERN = np.array([[0, 0, 0, 1, 0],[0, 0, 1, 1, 0],[0, 0, 0, 1, 1],[1, 1, 1, 0, 1],[0, 0, 0, 1, 1],[0, 1, 0, 0, 1]], dtype=bool)
A = np.where(PATTERN, np.arange(1., PATTERN.size + 1.).reshape(PATTERN.shape), 0.)
class MatComp(om.ExplicitComponent):
    def setup(self):
        nr, nc = A.shape
        self.add_input('x', np.ones(nc)); self.add_output('y', np.ones(nr))
        rows, cols = np.nonzero(A)
        self.declare_partials('y', 'x', rows=rows, cols=cols, val=A[rows, cols])
    def compute(self, inputs, outputs):
        outputs['y'] = A.dot(inputs['x'])
def build(name):
    p = om.Problem(name=name); p.driver = om.ScipyOptimizeDriver(optimizer="SLSQP", disp=False)
    p.model.add_subsystem('c', MatComp())
    p.model.add_design_var('c.x'); p.model.add_constraint('c.y', upper=1e6)
    return p
p1 = build('same')
p1.driver.declare_coloring(direct=False, show_summary=False)
p1.setup(mode='auto'); p1.run_model()
J1 = p1.compute_totals(return_format='array')
print(p1.driver.get_coloring_fname('output'), p1.driver._coloring_info.coloring._subtractions)
p1.cleanup()
p2 = build('same')
p2.driver.use_fixed_coloring()
p2.setup(mode='auto'); p2.run_model()
J2 = p2.compute_totals(return_format='array')
print(abs(J1-A).max(), abs(J2-A).max(), p2.driver._coloring_info.coloring._subtractions)
print(p2.driver.get_coloring_fname('input'))
