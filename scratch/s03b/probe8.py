import sys, time, json, subprocess, os
sys.path.insert(0,'/verif')
from omv.checks import c03_coloring as C
from concurrent.futures import ThreadPoolExecutor
shards = C.shards('quick', 0)
code = '''
import sys, time, json, tempfile, os
sys.path.insert(0,'/verif')
os.chdir(tempfile.mkdtemp())
import warnings; warnings.simplefilter('ignore')
from omv.checks import c03_coloring as C
from omv.core import Acc
sh = json.loads(sys.argv[1])
acc = Acc('C03')
import contextlib, io
t0=time.process_time(); w0=time.time()
with contextlib.redirect_stdout(io.StringIO()):
    C.run_shard(sh, acc)
print(json.dumps({'cpu': time.process_time()-t0, 'wall': time.time()-w0, 'judged': acc.judged, 'viol': acc.n_viol, 'keys': {k:v for k,v in acc.counters.items() if k.startswith('viol:')}}))
'''
def run(sh):
    r = subprocess.run(['/venv/bin/python','-c',code,json.dumps(sh)],capture_output=True,text=True)
    try:
        d = json.loads(r.stdout.strip().splitlines()[-1])
    except Exception:
        d = {'err': r.stderr[-300:]}
    return sh, d
with ThreadPoolExecutor(8) as ex:
    out = list(ex.map(run, shards))
tot=0
for sh,d in out:
    print(sh['kind'], sh.get('shapes', sh.get('seed')), sh.get('lo'), d.get('cpu'), d.get('judged'), d.get('viol'), d.get('err'))
    tot+=d.get('cpu',0)
print('total cpu', tot)
import collections
kk=collections.Counter()
for sh,d in out:
    for k,v in d.get('keys',{}).items(): kk[k]+=v
for k,v in sorted(kk.items()): print(v,k)
