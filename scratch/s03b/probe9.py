import sys, json, collections
sys.path.insert(0,'/verif')
import warnings; warnings.simplefilter('ignore')
from omv.checks import c03_coloring as C
from omv.core import Acc
import contextlib, io
acc=Acc('C03')
with contextlib.redirect_stdout(io.StringIO()):
    C.run_shard({'kind': 'enum', 'shapes': [[3,4]], 'lo': 2048, 'hi': 2048+400}, acc)
    C.run_shard({'kind': 'random', 'seed': 1, 'n': 60}, acc)
    C.run_shard({'kind': 'reload', 'seed': 900, 'n': 30}, acc)
print('judged', acc.judged, 'viol', acc.n_viol)
for k,v in sorted(acc.counters.items()):
    if k.startswith('viol:'): print(v,k)
seen=set()
for v in acc.violations:
    if v['key'] not in seen:
        seen.add(v['key']); print(v['key'],'|',v['what'][:250])
