import time, random, pickle, copy, os, tempfile, io
import numpy as np
import openmdao.utils.coloring as cm
import sys
sys.path.insert(0, '/verif')
from omv.checks import c03_coloring as C
rng = random.Random(1)
# cost of coloring vs round trips on 3x4 patterns
shape=(3,4)
N=1000
t0=time.time()
cols=[]
for bits in range(N):
    P=C.pattern_from_bits(bits*4+3, shape)
    for mode,direct in C.COMBOS:
        cols.append(cm._compute_coloring(P.copy(), mode, direct=direct))
t1=time.time()
print('compute', (t1-t0)/len(cols)*1e6,'us each')
t0=time.time()
for c in cols: pickle.loads(pickle.dumps(c))
t1=time.time(); print('pickle', (t1-t0)/len(cols)*1e6)
t0=time.time()
for c in cols: copy.deepcopy(c)
t1=time.time(); print('deepcopy', (t1-t0)/len(cols)*1e6)
d=tempfile.mkdtemp()
fn=os.path.join(d,'c.pkl')
t0=time.time()
for c in cols:
    c.save(fn); cm.Coloring.load(fn)
t1=time.time(); print('file', (t1-t0)/len(cols)*1e6, d)
# subs rates
for kind in ['arrow','blockdiag+dense','banded','eisenstat','random']:
    for lo,hi in ((2,9),(5,11)):
        n=0; s=0; bid=0
        for i in range(300):
            a=rng.randrange(lo,hi); b=rng.randrange(lo,hi)
            P=C.structured_pattern(rng,a,b,kind)
            c=cm._compute_coloring(P.copy(),'auto',direct=False)
            n+=1
            if c._fwd and c._rev: bid+=1
            if c._subtractions: s+=1
        print(kind,lo,hi,'bidir',bid/n,'subs',s/n)
