import sys, os
sys.path.insert(0,'/verif')
import numpy as np, random
from omv.checks import c03_coloring as C
from omv.core import Acc
import inspect
print(inspect.signature(Acc.__init__))
