import sys
sys.path.insert(0,'/verif')
import warnings; warnings.simplefilter('ignore')
from omv.checks import c03_coloring as C
from omv.core import Acc
import contextlib, io
acc=Acc('C03')
with contextlib.redirect_stdout(io.StringIO()):
    for sd in (900,901):
        C.run_shard({'kind': 'reload', 'seed': sd, 'n': 30}, acc)
print('judged', acc.judged, 'viol', acc.n_viol, acc.skipped)
for k,v in sorted(acc.counters.items()):
    if k.startswith('viol:') or 'reload/partial' in k: print(v,k)
seen=set()
for v in acc.violations:
    if v['key'] not in seen:
        seen.add(v['key']); print(v['key'],'|',v['what'][:250])
