import sys, time
sys.path.insert(0,'/verif')
from omv.checks import c03_coloring as C
from omv.core import Acc
acc=Acc('C03')
t0=time.process_time()
C.run_shard({'kind': 'reload', 'seed': int(sys.argv[1]), 'n': int(sys.argv[2])}, acc)
print('cpu', time.process_time()-t0, 'judged', acc.judged, 'viol', acc.n_viol, 'skipped', acc.skipped)
print({k:v for k,v in sorted(acc.counters.items()) if 'reload' in k or 'hook' in k})
seen=set()
for v in acc.violations:
    k = v['key']
    if k in seen: continue
    seen.add(k); print(k, '|', v['what'][:300])
