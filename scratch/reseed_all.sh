#!/bin/bash
# reseed_all.sh: run every seeded change against the current checks (sequentially); summary in scratch/reseed_all.log
cd /verif
: > scratch/reseed_all.log
for d in $(ls seeded | grep -v -E "^(C02|C34)-") $(ls seeded | grep -E "^(C02|C34)-"); do
  prop=${d%%-*}; tag=${d#*-}
  JOBS=${JOBS:-6} scratch/reseed.sh "$tag $prop" >/dev/null 2>&1
  tail -1 scratch/seedrun.log | cut -c1-200 >> scratch/reseed_all.log
done
echo ALLDONE >> scratch/reseed_all.log
