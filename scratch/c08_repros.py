"""Minimal stand-alone programs for the five scaling defects found by C08 (run with cwd in a temp dir)."""
import numpy as np
import openmdao.api as om


def d1():   # array ref0 + scalar ref + src_indices subset -> final_setup raises   (core/group.py:_compute_root_scale_factors)
    p = om.Problem()
    ivc = p.model.add_subsystem('ivc', om.IndepVarComp())
    ivc.add_output('x', np.ones(4), ref0=np.array([2., 3., 4., 5.]))
    p.model.add_subsystem('c', om.ExecComp('y=2*a', a=np.ones(2), y=np.ones(2)))
    p.model.connect('ivc.x', 'c.a', src_indices=[0, 2])
    p.setup()
    p.final_setup()          # ValueError: operands could not be broadcast together with shapes (4,) (2,)


def _chain(c1, ln=None, mode='fwd'):
    p = om.Problem()
    m = p.model
    m.add_subsystem('ivc', om.IndepVarComp('x', 1.5))
    m.add_subsystem('c1', c1)
    m.add_subsystem('c2', om.ExecComp('z = 2*y'))
    m.connect('ivc.x', 'c1.x')
    m.connect('c1.y', 'c2.y')
    if ln is not None:
        m.linear_solver = ln
    p.setup(mode=mode)
    p.run_model()
    return p.compute_totals(['c1.y', 'c2.z'], ['ivc.x'], return_format='array').ravel()


def d2():   # DirectSolver(assemble_jac=False), rev mode, any scaling -> [0.12, 6] instead of [3, 6]   (solvers/linear/direct.py:solve)
    return _chain(om.ExecComp('y = 3*x', y={'ref': 5.0}), om.DirectSolver(assemble_jac=False), 'rev')


def d3():   # explicit comp with ref0 only, DEFAULT linear solver -> [-92.04, -184.08] instead of [3, 6]   (core/explicitcomponent.py:_solve_linear)
    return _chain(om.ExecComp('y = 3*x', y={'ref0': 31.68}))


class MF(om.ExplicitComponent):
    def setup(self):
        self.add_input('x', 1.0)
        self.add_output('y', 1.0, ref=5.0)

    def compute(self, i, o):
        o['y'] = 3 * i['x']

    def compute_jacvec_product(self, inputs, d_inputs, d_outputs, mode):
        if 'y' in d_outputs and 'x' in d_inputs:
            if mode == 'fwd':
                d_outputs['y'] += 3 * d_inputs['x']
            else:
                d_inputs['x'] += 3 * d_outputs['y']


def d4():   # matrix-free explicit comp with ref, ScipyKrylov -> [15, 30] instead of [3, 6]   (core/explicitcomponent.py:_apply_linear)
    return _chain(MF(), om.ScipyKrylov())


class IMF(om.ImplicitComponent):
    def setup(self):
        self.add_input('x', 1.0)
        self.add_output('y', 1.0, ref0=2.0)

    def apply_nonlinear(self, i, o, r):
        r['y'] = o['y'] + 0.2 * np.sin(o['y']) - 3 * i['x']

    def solve_nonlinear(self, i, o):
        y = o['y'].copy()
        for _ in range(50):
            y = y - (y + 0.2 * np.sin(y) - 3 * i['x']) / (1 + 0.2 * np.cos(y))
        o['y'] = y

    def apply_linear(self, inputs, outputs, d_inputs, d_outputs, d_residuals, mode):
        dry = 1 + 0.2 * np.cos(outputs['y'])
        if mode == 'fwd':
            if 'y' in d_outputs:
                d_residuals['y'] += dry * d_outputs['y']
            if 'x' in d_inputs:
                d_residuals['y'] -= 3 * d_inputs['x']
        else:
            if 'y' in d_outputs:
                d_outputs['y'] += dry * d_residuals['y']
            if 'x' in d_inputs:
                d_inputs['x'] -= 3 * d_residuals['y']


def d5():   # root DirectSolver(assemble_jac=False) linearized outside the scaled context -> [3.662, 7.324] instead of [3.0075, 6.0149]   (core/total_jac.py:1663)
    return _chain(IMF(), om.DirectSolver(assemble_jac=False))


if __name__ == '__main__':
    for f in (d2, d3, d4, d5):
        print(f.__name__, f())
    try:
        d1()
    except ValueError as e:
        print('d1', e)
