#!/bin/bash
# second thorough pass: checks that changed since (or failed in) scratch/thorough1
cd /verif
while ! grep -q "^C18 " scratch/thorough1/SUMMARY; do sleep 60; done
for c in "$@"; do
  t0=$(date +%s)
  ./check $c --tier thorough --jobs ${JOBS:-10} > scratch/thorough2/$c.log 2>&1
  echo "$c exit=$? t=$(( $(date +%s) - t0 ))" >> scratch/thorough2/SUMMARY
done
echo ALLDONE >> scratch/thorough2/SUMMARY
