import numpy as np, openmdao.api as om
p = om.Problem()
m = p.model
m.add_subsystem('c', om.ExecComp('y = 3*x**2 + sin(z)', x=np.ones(2), y=np.ones(2), z=np.ones(2)), promotes=['*'])
m.add_design_var('x'); m.add_design_var('z'); m.add_objective('y', index=0)
m.approx_totals(method='fd')                      # forward difference, step 1e-6
p.setup()
p.set_val('x', [0.3, 0.7]); p.set_val('z', [0.2, -0.4])
p.run_model()
J0 = p.compute_totals(return_format='array').copy()
p.check_totals(out_stream=None, method='fd', form='central', step=1e-2)
J1 = p.compute_totals(return_format='array').copy()
print(J0); print(J1); print('same:', J0.tobytes() == J1.tobytes(), np.abs(J0 - J1).max())
print(m._owns_approx_jac_meta)
