import numpy as np, openmdao.api as om
rng = np.random.default_rng(3)
n = 4
A = rng.uniform(-0.3, 0.3, (n, n)); B = rng.uniform(-0.3, 0.3, (n, n))
p = om.Problem()
m = p.model
m.add_subsystem('a', om.ExecComp('y = dot(A, sin(z)) + x', A=A, y=np.zeros(n), z=np.zeros(n), x=np.ones(n)), promotes=['*'])
m.add_subsystem('b', om.ExecComp('z = dot(B, cos(y)) - 0.3*y', B=B, y=np.zeros(n), z=np.zeros(n)), promotes=['*'])
m.nonlinear_solver = om.BroydenSolver(atol=1e-11, rtol=1e-13, maxiter=50, iprint=-1)
m.linear_solver = om.DirectSolver()
p.setup(force_alloc_complex=True)
p.set_val('A', A); p.set_val('B', B); p.set_val('x', 0.7)
p.run_model()
p.check_totals(of=['y'], wrt=['x'], method='cs', out_stream=None)     # a derivative check ...
p.set_val('x', 0.9)
p.run_model()                                                          # ... makes the next run_model raise
print('ok')
