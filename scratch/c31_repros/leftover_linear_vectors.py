import numpy as np, openmdao.api as om
rng = np.random.default_rng(3)
n = 4
A = rng.uniform(-0.3, 0.3, (n, n)); B = rng.uniform(-0.3, 0.3, (n, n))

def build():
    p = om.Problem()
    m = p.model
    m.add_subsystem('a', om.ExecComp('y = dot(A, sin(z)) + x', A=A, y=np.zeros(n), z=np.zeros(n), x=np.ones(n)), promotes=['*'])
    m.add_subsystem('b', om.ExecComp('z = dot(B, cos(y)) - 0.3*y', B=B, y=np.zeros(n), z=np.zeros(n)), promotes=['*'])
    m.nonlinear_solver = om.NewtonSolver(solve_subsystems=False, atol=1e-11, rtol=1e-13, maxiter=50, iprint=-1)
    m.linear_solver = om.ScipyKrylov(atol=1e-14, rtol=1e-14)      # or LinearBlockGS
    p.setup()
    p.set_val('A', A); p.set_val('B', B); p.set_val('x', 0.7)
    p.run_model()
    return p

def history(with_query):
    p = build()
    p.set_val('x', 0.9)
    if with_query:
        p.compute_totals(['y'], ['x'])        # a read-only query between set_val and run_model
    p.run_model()
    return np.concatenate([p.get_val('y'), p.get_val('z')])

a, b = history(True), history(False)
print('max diff', np.abs(a - b).max(), 'bitwise equal:', a.tobytes() == b.tobytes())
