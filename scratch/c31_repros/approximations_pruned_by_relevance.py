import numpy as np, openmdao.api as om

class A(om.ExplicitComponent):        # y = sin(x) (partial approximated by fd) ; w = 2*t (analytic partial)
    def setup(self):
        self.add_input('x', 1.0); self.add_input('t', 1.0)
        self.add_output('y', 0.0); self.add_output('w', 0.0)
        self.declare_partials('y', 'x', method='fd')
        self.declare_partials('w', 't', val=2.0)
    def compute(self, i, o):
        o['y'] = np.sin(i['x']); o['w'] = 2 * i['t']

def history(with_query):
    p = om.Problem()
    m = p.model
    m.add_subsystem('a', A(), promotes=['*'])
    m.add_design_var('x'); m.add_objective('y')
    p.setup()
    p.run_model()
    if with_query:
        p.compute_totals(of=['w'], wrt=['t'])          # read-only query about the other output of the component
    p.set_val('x', 2.5)
    p.run_model()
    return p.compute_totals()['y', 'x'][0, 0], np.cos(2.5), dict(m.a._approx_schemes)

print('without the query: dy/dx = %.6f (exact %.6f)  approximation schemes of a: %s' % history(False))
print('with the query   : dy/dx = %.6f (exact %.6f)  approximation schemes of a: %s' % history(True))
