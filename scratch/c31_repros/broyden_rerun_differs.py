import numpy as np, openmdao.api as om
rng = np.random.default_rng(3)
n = 4
A = rng.uniform(-0.3, 0.3, (n, n)); B = rng.uniform(-0.3, 0.3, (n, n))
p = om.Problem()
m = p.model
m.add_subsystem('a', om.ExecComp('y = dot(A, sin(z)) + x', A={'val': A, 'constant': True} if False else A, y=np.zeros(n), z=np.zeros(n), x=np.ones(n)), promotes=['*'])
m.add_subsystem('b', om.ExecComp('z = dot(B, cos(y)) - 0.3*y', B=B, y=np.zeros(n), z=np.zeros(n)), promotes=['*'])
m.nonlinear_solver = om.BroydenSolver(atol=1e-11, rtol=1e-13, maxiter=50, iprint=-1)
m.linear_solver = om.DirectSolver()
p.setup()
p.set_val('A', A); p.set_val('B', B); p.set_val('x', 0.7)

def solve_from_guess():
    p.set_val('y', 0.1); p.set_val('z', -0.2)      # identical inputs and identical output guesses
    p.run_model()
    return np.concatenate([p.get_val('y'), p.get_val('z')]), m.nonlinear_solver._iter_count

r1, it1 = solve_from_guess()
r2, it2 = solve_from_guess()
print(it1, it2, 'max diff', np.abs(r1 - r2).max(), 'bitwise equal:', r1.tobytes() == r2.tobytes())
m.nonlinear_solver._recompute_jacobian = True
r3, it3 = solve_from_guess()
print(it3, 'after forcing a fresh jacobian: equal to first solve:', r1.tobytes() == r3.tobytes())
