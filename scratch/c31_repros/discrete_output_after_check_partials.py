import numpy as np, openmdao.api as om
class C(om.ExplicitComponent):
    def setup(self):
        self.add_input('x', 1.0); self.add_output('y', 0.0)
        self.add_discrete_output('last_x', val=None)          # any discrete output that records where compute ran
        self.declare_partials('y', 'x')
    def compute(self, i, o, di=None, do=None):
        o['y'] = i['x'] ** 2; do['last_x'] = float(i['x'][0])
    def compute_partials(self, i, J, di=None):
        J['y', 'x'] = 2 * i['x']
p = om.Problem(); p.model.add_subsystem('c', C()); p.setup(); p.run_model()
print('before', p.get_val('c.last_x'))
p.check_partials(out_stream=None)
print('after ', p.get_val('c.last_x'))
