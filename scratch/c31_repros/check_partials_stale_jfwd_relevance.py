import numpy as np, openmdao.api as om

class A(om.ExplicitComponent):        # y = sin(x) (partial approximated by fd) ; w = 2*t (analytic partial)
    def setup(self):
        self.add_input('x', 1.0); self.add_input('t', 1.0)
        self.add_output('y', 0.0); self.add_output('w', 0.0)
        self.declare_partials('y', 'x', method='fd')
        self.declare_partials('w', 't', val=2.0)
    def compute(self, i, o):
        o['y'] = np.sin(i['x']); o['w'] = 2 * i['t']

p = om.Problem()
p.model.add_subsystem('a', A(), promotes=['*'])
p.model.add_design_var('t'); p.model.add_objective('w')      # y(x) is irrelevant to the optimisation problem
p.setup()
p.run_model()
p.check_partials(out_stream=None, form='central')
p.set_val('x', 2.5)
p.run_model()
d = p.check_partials(out_stream=None, form='central')['a']['y', 'x']
print('J_fwd %.6f  J_fd %.6f  exact %.6f' % (d['J_fwd'][0, 0], d['J_fd'][0, 0], np.cos(2.5)))
