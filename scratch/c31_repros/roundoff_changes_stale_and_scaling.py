import numpy as np, openmdao.api as om
# (a) stale explicit output + check_partials
p = om.Problem()
p.model.add_subsystem('c', om.ExecComp('y = 2*x'), promotes=['*'])
p.setup(); p.set_val('x', 1.0); p.run_model()
p.set_val('y', 0.1)                              # user-set value, model not re-run
p.check_partials(out_stream=None)
print('(a) y after check_partials: %r' % p.get_val('y')[0])
# (b) output scaling + compute_totals
n = 200
rng = np.random.default_rng(0)
p = om.Problem()
p.model.add_subsystem('c', om.ExecComp('y = 2*x', x=np.ones(n), y={'val': np.ones(n), 'ref': rng.uniform(0.5, 50, n), 'ref0': rng.uniform(-2, 2, n)}), promotes=['*'])
p.setup(); p.run_model()
y0 = rng.uniform(-2, 2, n)
p.set_val('y', y0)                               # e.g. an initial guess
p.compute_totals(['y'], ['x'])
print('(b) entries of y changed by compute_totals: %d of %d, max |delta| %.1e' % (np.count_nonzero(p.get_val('y') != y0), n, np.abs(p.get_val('y') - y0).max()))
