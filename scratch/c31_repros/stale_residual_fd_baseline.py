import numpy as np, openmdao.api as om

class Imp(om.ImplicitComponent):                 # y + 0.3 sin(y) - x = 0 ; partials approximated by fd
    def setup(self):
        self.add_input('x', 1.0)
        self.add_output('y', 0.0)
        self.declare_partials('y', ['x', 'y'], method='fd')
    def apply_nonlinear(self, i, o, r):
        r['y'] = o['y'] + 0.3 * np.sin(o['y']) - i['x']
    def solve_nonlinear(self, i, o):
        y = o['y']
        for _ in range(50):
            y = y - (y + 0.3 * np.sin(y) - i['x']) / (1 + 0.3 * np.cos(y))
        o['y'] = y

def history(with_query):
    p = om.Problem()
    p.model.add_subsystem('ivc', om.IndepVarComp('x', 1.0), promotes=['*'])
    p.model.add_subsystem('c', Imp(), promotes=['*'])
    p.model.linear_solver = om.DirectSolver()
    p.setup()
    p.run_model()
    p.set_val('x', 2.0); p.set_val('y', 0.5)     # new input, new initial guess for the state
    if with_query:
        p.check_partials(out_stream=None, form='central')          # read-only query on the not-yet-run model
    p.run_model()
    y = p.get_val('y')[0]
    return p.compute_totals(['y'], ['x'])['y', 'x'][0, 0], 1.0 / (1 + 0.3 * np.cos(y))

print('with check_partials   : dy/dx = %.6f  (exact %.6f)' % history(True))
print('without check_partials: dy/dx = %.6f  (exact %.6f)' % history(False))
