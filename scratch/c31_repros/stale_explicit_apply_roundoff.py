import numpy as np, openmdao.api as om
class C(om.ExplicitComponent):
    def setup(self):
        self.add_input('x', np.ones(5)); self.add_output('y', np.zeros(5)); self.declare_partials('y', 'x', rows=np.arange(5), cols=np.arange(5), val=2.0)
    def compute(self, i, o):
        o['y'] = 2 * i['x']
p = om.Problem()
p.model.add_subsystem('c', C(), promotes=['*'])
p.setup(); p.set_val('x', [0.3, 0.7, 1.1, 1.9, 2.3]); p.run_model()
guess = np.array([0.197, 0.409, -0.222, 0.1, 0.439])
p.set_val('y', guess)                            # user-set values (e.g. a guess); model not re-run
p.check_partials(out_stream=None)
print(p.get_val('y') - guess)
