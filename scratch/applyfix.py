#!/venv/bin/python
"""applyfix.py CNN patchfile msgfile 'what failed'  -> git apply + commit in /repo, append fixed entry."""
import json, subprocess, sys
import os
prop, patch, msg, what = sys.argv[1:5]
patch, msg = os.path.abspath(patch), os.path.abspath(msg)
subprocess.check_call(['git', '-C', '/repo', 'apply', '--check', patch])
subprocess.check_call(['git', '-C', '/repo', 'apply', patch])
files = subprocess.check_output(['git', '-C', '/repo', 'diff', '--name-only']).decode().split()
subprocess.check_call(['git', '-C', '/repo', 'add'] + files)
subprocess.check_call(['git', '-C', '/repo', 'commit', '-q', '-F', msg])
h = subprocess.check_output(['git', '-C', '/repo', 'rev-parse', '--short', 'HEAD']).decode().strip()
p = '/verif/known_findings.json'
d = json.load(open(p))
d['fixed'].append('fixed: property=%s %s %s' % (prop, h, what))
json.dump(d, open(p, 'w'), indent=1)
open(p, 'a').write('\n')
print('committed', h, files)
