import numpy as np, openmdao.api as om
class EMF(om.ExplicitComponent):
    def setup(self):
        self.add_input('x', 1.0); self.add_output('y', 0.5)
    def compute(self, i, o): o['y'] = np.sin(i['x'])
    def compute_jacvec_product(self, inputs, d_inputs, d_outputs, mode):
        if 'y' in d_outputs and 'x' in d_inputs:
            if mode == 'fwd': d_outputs['y'] += np.cos(inputs['x'])*d_inputs['x']
            else: d_inputs['x'] += np.cos(inputs['x'])*d_outputs['y']
for lin in ['krylov', 'runonce', 'direct-dict']:
  for mode in ['fwd','rev']:
    p = om.Problem()
    p.model.add_subsystem('iv', om.IndepVarComp('x', 1.0))
    g = p.model.add_subsystem('g', om.Group()); g.add_subsystem('c', EMF())
    p.model.connect('iv.x', 'g.c.x')
    g.approx_totals(method='fd')
    p.model.linear_solver = {'krylov': om.ScipyKrylov, 'runonce': om.LinearRunOnce, 'direct-dict': lambda: om.DirectSolver(assemble_jac=False)}[lin]()
    p.setup(mode=mode); p.run_model()
    try: print(lin, mode, p.compute_totals(of=['g.c.y'], wrt=['iv.x']), 'exact', np.cos(1.0))
    except Exception as e: print(lin, mode, type(e).__name__, str(e)[:100])
