import numpy as np, openmdao.api as om
class Imp(om.ImplicitComponent):
    def setup(self):
        self.add_input('x', 1.0); self.add_output('y', 0.5)
        self.declare_partials('y', 'x'); self.declare_partials('y', 'y')
    def apply_nonlinear(self, i, o, r): r['y'] = o['y'] + 0.2*np.sin(o['y']) - 2*i['x']
    def linearize(self, i, o, J): J['y','x'] = -2.0; J['y','y'] = 1+0.2*np.cos(o['y'])
p = om.Problem()
p.model.add_subsystem('iv', om.IndepVarComp('x', 1.0))
g = p.model.add_subsystem('g', om.Group())
g.add_subsystem('c', Imp())
g.nonlinear_solver = om.NewtonSolver(solve_subsystems=False, iprint=-1, atol=1e-13, rtol=1e-13)
g.linear_solver = om.DirectSolver()
p.model.connect('iv.x', 'g.c.x')
g.approx_totals(method='fd')
p.setup(); p.run_model()
y = p.get_val('g.c.y')
print('totals', p.compute_totals(of=['g.c.y'], wrt=['iv.x']), 'exact', 2/(1+0.2*np.cos(y)))
print({k: v.todense() for k,v in g._jacobian._get_subjacs().items()})
