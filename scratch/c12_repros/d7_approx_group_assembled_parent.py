import numpy as np, openmdao.api as om
class E(om.ExplicitComponent):
    def setup(self):
        self.add_input('x', 1.0); self.add_output('y', 0.5); self.declare_partials('y', 'x')
    def compute(self, i, o): o['y'] = np.sin(i['x'])
    def compute_partials(self, i, J): J['y','x'] = np.cos(i['x'])
for lin in ['direct', 'direct-dict', 'runonce']:
    p = om.Problem()
    p.model.add_subsystem('iv', om.IndepVarComp('x', 1.0))
    g = p.model.add_subsystem('g', om.Group()); g.add_subsystem('c1', E()); g.add_subsystem('c2', E()); g.connect('c1.y', 'c2.x')
    p.model.connect('iv.x', 'g.c1.x')
    g.approx_totals(method='fd')
    if lin != 'runonce': p.model.linear_solver = om.DirectSolver(assemble_jac=(lin=='direct'))
    p.setup(); p.run_model()
    print(lin, p.compute_totals(of=['g.c2.y'], wrt=['iv.x']), 'exact', np.cos(np.sin(1.0))*np.cos(1.0))
    print(lin, p.compute_totals(of=['g.c2.y'], wrt=['iv.x']), '(2nd call)')
