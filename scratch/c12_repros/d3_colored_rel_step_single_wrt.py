import numpy as np, openmdao.api as om
seen=[]
class C(om.ExplicitComponent):
    def setup(self):
        self.add_input('x1', np.ones(3)); self.add_input('x2', np.ones(3)); self.add_output('y', np.zeros(3))
    def setup_partials(self):
        self.declare_partials('y', ['x1','x2'], method='fd', **DP)
        self.declare_coloring(wrt='*', method='fd', show_summary=False, **DC)
    def compute(self, i, o):
        seen.append((np.array(i['x1']), np.array(i['x2']))); o['y'] = np.sin(i['x1']) + 2*np.sin(i['x2'])
for DP, DC in [({'step':1e-4,'step_calc':'rel_avg'}, {}), ({'step':1e-4,'form':'central'}, {}), ({'step':1e-4,'step_calc':'rel_avg'}, {'step':1e-3}), ({'step_calc':'rel_element'}, {'step':1e-3})]:
    p = om.Problem(); iv=p.model.add_subsystem('iv', om.IndepVarComp()); iv.add_output('x1', np.array([2.,3.,4.])); iv.add_output('x2', np.array([200.,300.,400.]))
    c=p.model.add_subsystem('c', C()); p.model.connect('iv.x1','c.x1'); p.model.connect('iv.x2','c.x2')
    p.setup(); p.run_model(); p.model.run_linearize(); seen.clear(); p.model.run_linearize()
    print(DP, DC, 'coloring', c._coloring_info.coloring is not None)
    for a,b in seen: print('   d1', a-[2,3,4], 'd2', b-[200,300,400])
    print(c._subjacs_info[('c.y','c.x1')].get('step'), c._subjacs_info[('c.y','c.x1')].get('step_calc'), c._subjacs_info[('c.y','c.x1')].get('form'))
