import numpy as np, openmdao.api as om
class C(om.ExplicitComponent):
    def setup(self):
        self.add_input('x0', np.ones(2)); self.add_input('x1', np.ones(2)); self.add_output('y0', np.zeros(2)); self.add_output('y1', np.zeros(2))
    def setup_partials(self):
        self.declare_partials('y0', 'x0', method='cs', step=STEP)
        self.declare_partials('y1', 'x1', method='cs', step=STEP)
        self.declare_coloring(wrt='*', method='cs', show_summary=False)
    def compute(self, i, o):
        o['y0'] = np.sin(i['x0']); o['y1'] = np.sin(i['x1'])
for STEP in [1e-40, 1e-60, 1e-100, 1e-20]:
    p = om.Problem(); c=p.model.add_subsystem('c', C())
    p.setup(); p.run_model(); p.model.run_linearize()
    print(STEP, np.diag(c._jacobian['y0','x0']), np.diag(c._jacobian['y1','x1']), c._coloring_info.coloring)
    print({k: (v.get('step'), v.get('method')) for k,v in c._subjacs_info.items()})
