import numpy as np, openmdao.api as om
seen=[]
class C(om.ExplicitComponent):
    def setup(self):
        self.add_input('x', np.zeros(2)); self.add_output('y', np.zeros(2))
    def setup_partials(self):
        self.declare_partials('y', 'x', method='fd', step=1e-3, step_calc=SC)
    def compute(self, i, o):
        seen.append(np.array(i['x'])); o['y'] = np.sin(i['x'])
for SC in ['rel_avg','rel_element','rel_legacy']:
    p = om.Problem(); p.model.add_subsystem('iv', om.IndepVarComp('x', np.zeros(2))); c=p.model.add_subsystem('c', C()); p.model.connect('iv.x','c.x')
    p.setup(); p.run_model(); seen.clear(); p.model.run_linearize(); print(SC, 'pt1 x=0:', [s-0 for s in seen])
    x2=np.array([100., 300.]); p.set_val('iv.x', x2); p.run_model(); seen.clear(); p.model.run_linearize(); print(SC, 'pt2 steps', [s-x2 for s in seen], 'J err', np.abs(np.diag(c._jacobian['y','x'])-np.cos(x2)))
