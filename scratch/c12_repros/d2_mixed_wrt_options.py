import numpy as np, openmdao.api as om
class C(om.ExplicitComponent):
    def setup(self):
        self.add_input('x', np.array([0.7, 1.3]))
        self.add_output('y0', np.zeros(2)); self.add_output('y1', np.zeros(2))
    def setup_partials(self):
        self.declare_partials('y0', 'x', method=self.m0, **self.o0)
        self.declare_partials('y1', 'x', method=self.m1, **self.o1)
    def compute(self, i, o):
        o['y0'] = np.sin(i['x']); o['y1'] = np.sin(i['x'])*2
for (m0,o0,m1,o1) in [('cs',{},'fd',{'step':1e-3}), ('fd',{'step':1e-3},'cs',{}), ('fd',{'step':1e-3},'fd',{'step':1e-7})]:
    p = om.Problem(); c = C(); c.m0=m0;c.o0=o0;c.m1=m1;c.o1=o1
    p.model.add_subsystem('c', c); p.setup(); p.run_model(); c.run_linearize()
    x = np.array([0.7,1.3])
    print(m0,o0,m1,o1, 'err y0', np.abs(np.diag(c._jacobian['y0','x']) - np.cos(x)).max(), 'err y1', np.abs(np.diag(c._jacobian['y1','x']) - 2*np.cos(x)).max(), list(c._approx_schemes))
