import numpy as np, openmdao.api as om
class Imp(om.ImplicitComponent):
    def setup(self):
        self.add_input('x1', 1.0); self.add_input('x2', 1.0); self.add_output('y', 0.5)
        self.declare_partials('y', ['x1', 'x2', 'y'])
    def apply_nonlinear(self, i, o, r): r['y'] = o['y'] + 0.2*np.sin(o['y']) - 2*i['x1'] - 3*i['x2']
    def linearize(self, i, o, J): J['y','x1'] = -2.0; J['y','x2'] = -3.0; J['y','y'] = 1+0.2*np.cos(o['y'])
p = om.Problem()
p.model.add_subsystem('iv', om.IndepVarComp('x', 1.0))
g = p.model.add_subsystem('g', om.Group())
g.add_subsystem('c', Imp())
g.nonlinear_solver = om.NewtonSolver(solve_subsystems=False, iprint=-1, atol=1e-13, rtol=1e-13, maxiter=40)
g.linear_solver = om.DirectSolver(assemble_jac=False)
p.model.connect('iv.x', ['g.c.x1', 'g.c.x2'])
g.approx_totals(method='fd')
p.setup(); p.run_model()
y = p.get_val('g.c.y')
print('totals', p.compute_totals(of=['g.c.y'], wrt=['iv.x']), 'exact', 5/(1+0.2*np.cos(y)))
print({k: v.todense().ravel() for k,v in g._jacobian._get_subjacs().items()})
