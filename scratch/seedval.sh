#!/bin/bash
# seedval.sh <tag> <CNN> : validate a seeded change (demo passes on HEAD, fails with patch); leaves /tmp/val-<tag> patched
tag=$1; prop=$2
out=/tmp/$tag/out
dst=/verif/seeded/$prop-$tag
mkdir -p $dst
cp $out/patch.diff $out/demo.py $dst/ || exit 2
[ -f $out/notes.md ] && cp $out/notes.md $dst/notes.txt
wt=/tmp/val-$tag
git -C /repo worktree remove --force $wt 2>/dev/null
git -C /repo worktree add --detach $wt HEAD >/dev/null 2>&1 || exit 2
run=/tmp/val-$tag-run; rm -rf $run; mkdir -p $run; cd $run
OPENMDAO_REPORTS=0 PYTHONPATH=$wt timeout 600 /venv/bin/python $dst/demo.py > $dst/demo_without.log 2>&1; r0=$?
git -C $wt apply $dst/patch.diff || { echo "PATCH DOES NOT APPLY to /repo HEAD"; exit 3; }
OPENMDAO_REPORTS=0 PYTHONPATH=$wt timeout 600 /venv/bin/python $dst/demo.py > $dst/demo_with.log 2>&1; r1=$?
echo "demo without change: exit $r0 ($(tail -1 $dst/demo_without.log | cut -c1-100)); with change: exit $r1 ($(tail -1 $dst/demo_with.log | cut -c1-160))"
git -C $wt diff --stat | tail -3
cd /; rm -rf $run
