import numpy as np, openmdao.api as om

def model(src_indices, shape, **ckw):
    p = om.Problem()
    p.model.add_subsystem('iv', om.IndepVarComp('a', val=np.arange(6.)))
    p.model.add_subsystem('c', om.ExecComp('y=2*x', x={'shape': shape}, y={'shape': shape}))
    p.model.connect('iv.a', 'c.x', src_indices=src_indices, **ckw)
    p.setup()
    return p

def attempt(label, p, *a, **k):
    try:
        p.set_val(*a, **k); print(label, '-> ok, iv.a =', p.get_val('iv.a'))
    except Exception as e:
        print(label, '-> RAISED', type(e).__name__, str(e).splitlines()[-1][:100])

p = model([0, 1, 2], (3,))
attempt("F1a set_val('iv.a', 5.0, indices=[0,1])", p, 'iv.a', 5.0, indices=[0, 1])
attempt("F1a set_val('c.x', 5.0)   (input with src_indices)", p, 'c.x', 5.0)
attempt("F1b set_val('c.x', 7.0, indices=1) before final_setup", p, 'c.x', 7.0, indices=1)
p.final_setup()
attempt("F1b set_val('c.x', 7.0, indices=1) after final_setup ", p, 'c.x', 7.0, indices=1)
p = model(3, (1,), flat_src_indices=False)
print("F2 get_val('c.x', indices=[0]) =", p.get_val('c.x', indices=[0]))
attempt("F2 set_val('c.x', [9.0], indices=[0])", p, 'c.x', [9.0], indices=[0])

# F3: two-level src_indices whose first level repeats a source entry: a full, consistent set is silently lost
p = om.Problem()
p.model.add_subsystem('iv', om.IndepVarComp('a', val=np.arange(6.)))
g = p.model.add_subsystem('g', om.Group())
g.add_subsystem('c', om.ExecComp('y=2*x', x={'shape': (2,)}, y={'shape': (2,)}))
g.promotes('c', inputs=['x'], src_indices=[2, 1], src_shape=(4,))
p.model.connect('iv.a', 'g.x', src_indices=[0, 0, 1, 0])
p.setup()
print("F3 g.c.x reads iv.a[[1, 0]]:", p.get_val('g.c.x'))
p.set_val('g.c.x', [8.0, 9.0])
print("F3 after set_val('g.c.x', [8, 9]): get_val ->", p.get_val('g.c.x'), ' iv.a =', p.get_val('iv.a'))

# F4: flat second-level index applied to a non-contiguous view: the set is silently lost
p = om.Problem()
p.model.add_subsystem('iv', om.IndepVarComp('a', val=np.arange(8.).reshape(2, 2, 2)))
g = p.model.add_subsystem('g', om.Group())
g.add_subsystem('c', om.ExecComp('y=2*x', x={'shape': (1,)}, y={'shape': (1,)}))
g.promotes('c', inputs=['x'], src_indices=-1, flat_src_indices=True, src_shape=(2, 2))
p.model.connect('iv.a', 'g.x', src_indices=om.slicer[:, -1, ...])
p.setup()
print("F4 before:", p.get_val('g.c.x'))
p.set_val('g.c.x', [-1.93])
print("F4 after set_val('g.c.x', [-1.93]): get_val ->", p.get_val('g.c.x'))
