import numpy as np, openmdao.api as om, sys
class Imp(om.ImplicitComponent):
    def setup(self):
        self.add_input('u', np.ones(2)); self.add_output('y', np.ones(2))
        ar = np.arange(2)
        if 'sparse' in sys.argv:
            self.declare_partials('y', 'y', rows=ar, cols=ar, val=1.0); self.declare_partials('y', 'u', rows=ar, cols=ar)
        else:
            self.declare_partials('y', 'y', val=np.eye(2)); self.declare_partials('y', 'u')
    def apply_nonlinear(self, i, o, r): r['y'] = o['y'] - 3.0*i['u']**2
    def solve_nonlinear(self, i, o): o['y'] = 3.0*i['u']**2
    def linearize(self, i, o, J):
        J['y','u'] = -6.0*i['u'] if 'sparse' in sys.argv else np.diag(-6.0*i['u'])
p = om.Problem(); m = p.model
m.add_subsystem('iv', om.IndepVarComp('x', np.array([2.0, 1.0])))
G = m.add_subsystem('G', om.Group())
par = G
if 'nest' in sys.argv:
    par = G.add_subsystem('H', om.Group(), promotes=['*'])
par.add_subsystem('c', Imp(), promotes=['*'])
G.add_subsystem('d', om.ExecComp('z = 2*y', y=np.ones(2), z=np.ones(2)), promotes=['*'])
m.connect('iv.x', 'G.u')
G.approx_totals(method='cs'); m.linear_solver = om.ScipyKrylov() if 'krylov' in sys.argv else om.DirectSolver()
p.setup(mode='rev' if 'rev' in sys.argv else 'fwd'); p.run_model()
print(p.compute_totals(of=['G.y', 'G.z'], wrt=['iv.x']), 'expected diag 12,6 ; 24,12')
