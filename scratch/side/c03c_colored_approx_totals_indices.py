import numpy as np, openmdao.api as om, sys
def build(color, idx_x, idx_z):
    p = om.Problem()
    m = p.model
    ivc = m.add_subsystem('ivc', om.IndepVarComp())
    ivc.add_output('x', np.arange(1., 7.))
    ivc.add_output('z', np.arange(2., 6.))
    m.add_subsystem('c1', om.ExecComp('y = 3*x**2', x=np.ones(6), y=np.ones(6)))
    m.add_subsystem('c2', om.ExecComp('y = 5*z**3', z=np.ones(4), y=np.ones(4)))
    m.connect('ivc.x', 'c1.x'); m.connect('ivc.z', 'c2.z')
    m.add_design_var('ivc.x', indices=idx_x)
    m.add_design_var('ivc.z', indices=idx_z)
    m.add_constraint('c1.y', lower=0.)
    m.add_constraint('c2.y', lower=0.)
    m.approx_totals(method='cs')
    p.driver = om.ScipyOptimizeDriver(optimizer='SLSQP')
    if color:
        p.driver.declare_coloring(show_summary=False)
        m.declare_coloring('*', method='cs', show_summary=False)
    p.setup(mode='fwd')
    p.run_model()
    return p
for idx_x, idx_z in [(None, None), ([0], None), ([5,0,2],[3,1]), (None, [2])]:
    J0 = build(False, idx_x, idx_z).compute_totals(return_format='array')
    p = build(True, idx_x, idx_z)
    J1 = p.compute_totals(return_format='array')
    J1 = p.compute_totals(return_format='array')
    print(idx_x, idx_z, np.abs(J0-J1).max(), p.model._coloring_info.coloring)
