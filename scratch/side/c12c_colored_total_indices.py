import numpy as np, openmdao.api as om
def build(colored, method='fd', idx=True):
    p = om.Problem(driver=om.ScipyOptimizeDriver(maxiter=1, disp=False))
    m = p.model
    ivc = m.add_subsystem('ivc', om.IndepVarComp())
    ivc.add_output('a', np.array([1., 2., 3., 4., 5.]))
    ivc.add_output('b', np.array([.5, .6, .7]))
    m.add_subsystem('ca', om.ExecComp('ya = sin(a)*a', a=np.ones(5), ya=np.ones(5)))
    m.add_subsystem('cb', om.ExecComp('yb = exp(b)*b', b=np.ones(3), yb=np.ones(3)))
    m.connect('ivc.a', 'ca.a'); m.connect('ivc.b', 'cb.b')
    if idx:
        m.add_design_var('ivc.a', indices=[1, 3])
    else:
        m.add_design_var('ivc.a')
    m.add_design_var('ivc.b')
    m.add_constraint('ca.ya', lower=0)
    m.add_constraint('cb.yb', lower=0)
    m.add_subsystem('co', om.ExecComp('o = sum(yb)', yb=np.ones(3)))
    m.connect('cb.yb','co.yb')
    m.add_objective('co.o')
    m.approx_totals(method=method)
    if colored:
        p.driver.declare_coloring(show_summary=False, show_sparsity=False)
    p.setup(force_alloc_complex=True)
    p.run_model()
    return p
for idx in (False, True):
    p0 = build(False, idx=idx)
    J0 = p0.compute_totals(return_format='array')
    p1 = build(True, idx=idx)
    p1.run_driver()
    p1.set_val('ivc.a', [1., 2., 3., 4., 5.]); p1.set_val('ivc.b', [.5,.6,.7]); p1.run_model()
    J1 = p1.driver._compute_totals(return_format='array')
    print('coloring used', p1.driver._coloring_info.coloring is not None)
    print(idx, np.abs(J0-J1).max())
    print(J0.round(3)); print(J1.round(3))
