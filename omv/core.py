"""Shared bookkeeping for every check: the per-shard accumulator `Acc`.

A check module (omv/checks/cNN_*.py) provides

    PROPERTY = 'C05'
    LEVEL    = 'exploration'                 # evidence level
    RULE     = '...'                         # how cases are generated / what is non-trivial
    MIN_JUDGED = {'quick': 100, 'thorough': 1000}   # fewer judged cases => INCONCLUSIVE
    REQUIRED_COUNTERS = ['hook:...']         # monitor counters that must be > 0 (else INCONCLUSIVE)
    def shards(tier, seed) -> list[dict]     # JSON-able shard descriptors
    def run_shard(shard, acc)                # executes cases, calls acc.ok/viol/skip
    def run_case(case, acc)                  # re-executes ONE case (a violation witness) -> used by --replay
    def classify(v) -> str                   # optional; mechanism key for known-findings (default v['key'])

Every verdict is derived from what `acc` recorded; nothing is inferred from exit codes of the
code under test.
"""
import hashlib
import json
import os
import sys
import time
import traceback

import numpy as np


def jsonable(o):
    """Best-effort conversion of a case description to JSON-able data."""
    if isinstance(o, dict):
        return {str(k): jsonable(v) for k, v in o.items()}
    if isinstance(o, (list, tuple)):
        return [jsonable(v) for v in o]
    if isinstance(o, (set, frozenset)):
        return sorted(jsonable(v) for v in o)
    if isinstance(o, np.ndarray):
        if o.dtype.kind == 'c':
            return {'__complex__': [jsonable(o.real), jsonable(o.imag)]}
        return o.tolist()
    if isinstance(o, (np.integer,)):
        return int(o)
    if isinstance(o, (np.floating,)):
        return float(o)
    if isinstance(o, (np.bool_,)):
        return bool(o)
    if isinstance(o, complex):
        return {'__complex__': [o.real, o.imag]}
    if isinstance(o, slice):
        return {'__slice__': [o.start, o.stop, o.step]}
    if o is Ellipsis:
        return '__ellipsis__'
    if isinstance(o, float):
        return o
    if isinstance(o, (int, str, bool)) or o is None:
        return o
    return repr(o)


def fingerprint(obj):
    s = json.dumps(jsonable(obj), sort_keys=True, default=repr)
    return hashlib.blake2b(s.encode(), digest_size=8).hexdigest()


class Acc:
    """Accumulates what one shard observed."""

    MAX_VIOL = 300
    MAX_SAMPLES = 4
    MAX_FPS = 400000

    def __init__(self, prop, shard=None):
        self.prop = prop
        self.shard = shard
        self.evaluations = 0      # cases executed
        self.judged = 0           # cases where the oracle gave a verdict
        self.fps = set()          # fingerprints of distinct non-trivial judged cases
        self.fps_overflow = 0
        self.violations = []
        self.n_viol = 0
        self.samples = []
        self.counters = {}
        self.skipped = {}
        self.t0 = time.time()

    # -- recording ---------------------------------------------------------------------------
    def count(self, name, n=1):
        self.counters[name] = self.counters.get(name, 0) + n

    def ok(self, fp=None, nontrivial=True, sample=None):
        """A judged case that agreed with the oracle."""
        self.evaluations += 1
        self.judged += 1
        if nontrivial and fp is not None:
            self._fp(fp)
        if sample is not None and len(self.samples) < self.MAX_SAMPLES:
            self.samples.append(jsonable(sample))

    def _fp(self, fp):
        if not isinstance(fp, str):
            fp = fingerprint(fp)
        if len(self.fps) < self.MAX_FPS:
            self.fps.add(fp)
        elif fp not in self.fps:
            self.fps_overflow += 1

    def viol(self, key, what, case, fp=None, detail=None, new_case=True):
        """A judged case where the oracle was contradicted.

        key  : mechanism key produced by the check's classifier (never a case hash/random value)
        what : one-line human description
        case : JSON-able description sufficient to re-run the case (run_case(case))
        new_case : pass False for the 2nd, 3rd ... discrepancy reported on the same case, so that
               evaluations/judged count cases, not discrepancies
        """
        if new_case:
            self.evaluations += 1
            self.judged += 1
        self.n_viol += 1
        if fp is not None:
            self._fp(fp)
        self.count('viol:' + key)
        # keep the first few per key so that one noisy mechanism cannot hide another
        per_key = sum(1 for v in self.violations if v['key'] == key)
        if per_key < 2 and len(self.violations) < self.MAX_VIOL:
            self.violations.append({'key': key, 'what': what, 'case': jsonable(case),
                                    'detail': jsonable(detail)})

    def skip(self, reason):
        """A generated case the oracle cannot judge (guard); counted, never a verdict."""
        self.evaluations += 1
        self.skipped[reason] = self.skipped.get(reason, 0) + 1

    # -- output ------------------------------------------------------------------------------
    def dump(self):
        return {
            'prop': self.prop, 'shard': self.shard,
            'evaluations': self.evaluations, 'judged': self.judged,
            'fps': sorted(self.fps), 'fps_overflow': self.fps_overflow,
            'violations': self.violations, 'n_viol': self.n_viol,
            'samples': self.samples, 'counters': self.counters, 'skipped': self.skipped,
            'wall_s': time.time() - self.t0,
        }


def guarded(acc, key_prefix, case, fn, *args, legal=True, **kw):
    """Run fn; an exception from the code under test on a legal input is a violation."""
    try:
        return True, fn(*args, **kw)
    except Exception as e:  # noqa
        if legal:
            tb = traceback.extract_tb(sys.exc_info()[2])
            where = ''
            for fr in reversed(tb):
                if '/openmdao/' in fr.filename:
                    where = '%s:%s' % (os.path.basename(fr.filename), fr.name)
                    break
            acc.viol('%s:raises:%s@%s' % (key_prefix, type(e).__name__, where),
                     '%s: %s' % (type(e).__name__, str(e)[:300]), case)
        return False, e


def repo_root():
    return os.environ.get('OMV_REPO', '/repo')


def assert_repo():
    """The code under test must be the tree being checked."""
    import openmdao
    root = os.path.realpath(repo_root())
    f = os.path.realpath(openmdao.__file__)
    if not f.startswith(root + os.sep):
        raise RuntimeError('openmdao imported from %s, expected under %s' % (f, root))
    return f
