"""Shared monitor kit for the G-model based checks (C01, C02, C04, C07, C08, C12, C24, C31, C32).

* FailureMonitor - observes Solver.report_failure (class-level wrap, restored on exit): a case is judged
  only if no solver reported a failure (the properties are conditional on convergence).
* exc_key - mechanism key for an exception escaping the code under test on a legal input.
* conn_features - index/units features of a connection (mechanism keys for wiring problems).
"""
import os
import sys
import traceback

import numpy as np


class SolverAbort(Exception):
    """raised from report_failure while FailureMonitor.abort is set: the result would not be judged anyway, so stop
    iterating (nested non-converging block solvers otherwise run maxiter**depth sweeps)."""


class FailureMonitor:
    def __init__(self):
        self.failures = []
        self.calls = 0
        self.abort = False

    def __enter__(self):
        from openmdao.solvers.solver import Solver
        self._cls = Solver
        self._orig = Solver.__dict__['report_failure']
        mon = self

        def report_failure(slf, msg):
            mon.failures.append((type(slf).__name__, msg))
            if mon.abort:
                raise SolverAbort()
            return mon._orig(slf, msg)
        Solver.report_failure = report_failure
        return self

    def __exit__(self, *a):
        self._cls.report_failure = self._orig
        return False

    def clear(self):
        self.failures = []


def exc_where(e):
    tb = traceback.extract_tb(e.__traceback__)
    for fr in reversed(tb):
        if '/openmdao/' in fr.filename and '/omv/' not in fr.filename:
            return '%s:%s' % (os.path.basename(fr.filename), fr.name)
    return '?'


def exc_key(prefix, e):
    return '%s:raises:%s@%s' % (prefix, type(e).__name__, exc_where(e))


def _atoms(idx):
    return list(idx) if isinstance(idx, tuple) else [idx]


def link_features(link, src_shape):
    """features of one index link (decoded python index) applied to src_shape."""
    from omv.ref.flatmodel import dec_idx
    idx = dec_idx(link['idx'])
    f = set()
    flat = link.get('flat')
    nd = len(src_shape) > 1
    if flat:
        f.add('flat')
    elif nd:
        f.add('nd')
    at = _atoms(idx)
    if isinstance(idx, tuple):
        f.add('tuple')
    for x in at:
        if isinstance(x, slice):
            f.add('slice')
            if x.step is not None and x.step < 0:
                f.add('negstep')
        elif x is Ellipsis:
            f.add('ellipsis')
        elif isinstance(x, np.ndarray):
            f.add('array')
            if x.size and x.min() < 0:
                f.add('negidx')
        else:
            f.add('int')
            if x < 0:
                f.add('negidx')
    if nd and not flat and not isinstance(idx, tuple) and ('int' in f or 'array' in f):
        f.add('KNOWN-nd-nonflat-single-index')
    return f


def conn_features(spec, cn):
    """sorted feature list of a connection: how it is made, chain length, index/units features."""
    from omv.gen.models import _shape_before_link
    from omv.ref.flatmodel import conv
    f = set()
    f.add(cn.get('how', 'connect'))
    f.add('chain%d' % len(cn['chain']))
    for k, link in enumerate(cn['chain']):
        shp = _shape_before_link(spec, cn, k)
        f |= link_features(link, shp)
    src_units = None
    for c in spec['comps']:
        for oo in c['outputs']:
            if oo['name'] == cn['src']:
                src_units = oo.get('units')
    for p in spec['params']:
        if p['name'] == cn['src']:
            src_units = p.get('units')
    fac, off = conv(src_units, cn.get('tgt_units'))
    if src_units is None or cn.get('tgt_units') is None:
        f.add('units-none')
    elif off != 0.0:
        f.add('units-offset')
    elif fac != 1.0:
        f.add('units-scale')
    else:
        f.add('units-same')
    return sorted(f)


def spec_features(spec):
    """coarse model-level features (for keys of whole-model failures)."""
    f = set()
    for cn in spec['conns']:
        fs = conn_features(spec, cn)
        for x in fs:
            if x in ('negidx', 'chain2', 'KNOWN-nd-nonflat-single-index', 'param'):
                f.add(x)

    def walk(n):
        if 'comp' in n:
            return
        ln = n.get('ln', {})
        if ln.get('type') == 'direct' and ln.get('assemble_jac'):
            f.add('assembled')
        for ch in n['children']:
            walk(ch)
    walk(spec['tree'])
    return sorted(f)


def tree_solvers(spec):
    out = []

    def walk(n):
        if 'comp' in n:
            return
        out.append((n.get('nl', {}).get('type'), n.get('ln', {}).get('type')))
        for ch in n['children']:
            walk(ch)
    walk(spec['tree'])
    return out
