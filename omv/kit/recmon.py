"""Record-time event log for the case-recording checks (C17, C19).

`RecMonitor.install()` wraps, at the call boundary,

  * `SqliteRecorder.record_iteration_{driver,system,solver,problem}` and `record_derivatives_driver`
  * `_RecIteration.push/pop` (to give every frame of the iteration stack a unique serial number, so
    that "descendant of" can be decided by identity of the enclosing execution, not by the
    coordinate string, which repeats across runs)

and appends one event per call: monotone sequence number, recorder, requester kind, source path,
copy of the iteration stack, frame serials, the variable names handed to the recorder, and a live
snapshot of every model input/output/residual read from the root vectors at that instant.
"""
import copy

import numpy as np


def _copyval(v):
    if isinstance(v, np.ndarray):
        return np.array(v, copy=True)
    return copy.deepcopy(v)


class RecMonitor:
    def __init__(self):
        self.events = []
        self._serial = 0
        self._frames = {}
        self._saved = []
        self.built = None
        self.counts = {}

    # ---------------------------------------------------------------------------------------
    def snapshot(self):
        b = self.built
        model = b['prob'].model
        snap = {'input': {}, 'output': {}, 'residual': {}}
        for kind, vec in (('input', model._inputs), ('output', model._outputs),
                          ('residual', model._residuals)):
            if vec is None:
                continue
            for n in vec._abs_iter():
                snap[kind][n] = np.array(vec._abs_get_val(n, flat=False), copy=True)
        # discrete variables straight from the owning components (incl. _auto_ivc)
        from openmdao.core.component import Component
        snap['executed'] = {}
        for comp in model.system_iter(recurse=True, typ=Component):
            snap['executed'][comp.pathname] = int(comp.iter_count)
            di = getattr(comp, '_discrete_inputs', None)
            do = getattr(comp, '_discrete_outputs', None)
            if di:
                for k in di:
                    snap['input'][comp.pathname + '.' + k] = _copyval(di[k])
            if do:
                for k in do:
                    snap['output'][comp.pathname + '.' + k] = _copyval(do[k])
        # last computed physical I/O of harness components (independent of vector scaling state)
        last = {}
        for cpath, inst in b['comps'].items():
            lv = getattr(inst, '_omv_last', None)
            if lv is not None:
                last[cpath] = ({k: v.copy() for k, v in lv[0].items()}, {k: v.copy() for k, v in lv[1].items()})
        snap['last'] = last
        return snap

    def _event(self, kind, recorder, requester, data, metadata):
        recit = requester._recording_iter
        if kind == 'problem':
            src = 'problem'
        elif kind in ('driver', 'derivs'):
            src = 'driver'
        elif kind == 'system':
            src = 'root.' + requester.pathname if requester.pathname else 'root'
        else:
            p = requester._system().pathname
            src = ('root.' + p if p else 'root') + '.nonlinear_solver'
            if requester.SOLVER.startswith('LS'):
                src += '.linesearch'
        ev = {'seq': len(self.events), 'kind': kind, 'rec': id(recorder), 'source': src,
              'stack': [(str(n), int(c)) for n, c in recit.stack], 'prefix': recit.prefix,
              'frames': list(self._frames.get(id(recit), [])),
              'snap': self.snapshot() if self.built is not None else None}
        if kind == 'derivs':
            ev['derivs'] = {k: np.array(v, copy=True) for k, v in data.items()}
        else:
            ev['keys'] = {k: sorted(data[k]) if data.get(k) else [] for k in ('input', 'output', 'residual')}
            ev['abs'] = data.get('abs')
            ev['rel'] = data.get('rel')
            ev['has_totals'] = 'totals' in data
            if 'totals' in data:
                ev['totals'] = {k: np.array(v, copy=True) for k, v in data['totals'].items()}
            ev['name'] = metadata.get('name') if metadata else None
            ev['success'] = metadata.get('success') if metadata else None
        self.events.append(ev)
        self.counts[kind] = self.counts.get(kind, 0) + 1

    # ---------------------------------------------------------------------------------------
    def install(self):
        from openmdao.recorders.sqlite_recorder import SqliteRecorder
        from openmdao.recorders.recording_iteration_stack import _RecIteration
        mon = self

        def wrap_rec(name, kind):
            orig = getattr(SqliteRecorder, name)

            def wrapper(self, requester, data, metadata):
                mon._event(kind, self, requester, data, metadata)
                return orig(self, requester, data, metadata)
            wrapper.__name__ = name
            setattr(SqliteRecorder, name, wrapper)
            self._saved.append((SqliteRecorder, name, orig))

        wrap_rec('record_iteration_driver', 'driver')
        wrap_rec('record_iteration_system', 'system')
        wrap_rec('record_iteration_solver', 'solver')
        wrap_rec('record_iteration_problem', 'problem')
        wrap_rec('record_derivatives_driver', 'derivs')

        opush, opop = _RecIteration.push, _RecIteration.pop

        def push(self, iter_coord):
            mon._serial += 1
            mon._frames.setdefault(id(self), []).append(mon._serial)
            return opush(self, iter_coord)

        def pop(self):
            r = opop(self)
            fr = mon._frames.get(id(self))
            if fr:
                fr.pop()
            return r
        _RecIteration.push = push
        _RecIteration.pop = pop
        self._saved.append((_RecIteration, 'push', opush))
        self._saved.append((_RecIteration, 'pop', opop))
        return self

    def uninstall(self):
        for owner, name, orig in reversed(self._saved):
            setattr(owner, name, orig)
        self._saved = []


def coord_string(stack, prefix=None):
    """The iteration coordinate the recorder is documented to use for a stack."""
    return ('%s_' % prefix if prefix else '') + 'rank0:' + '|'.join('%s|%d' % (n, c) for n, c in stack)


def values_equal(a, b):
    """Exact equality of a recorded value and a snapshot value (NaN == NaN, -0.0 != 0.0 not demanded)."""
    if isinstance(b, np.ndarray) or isinstance(a, np.ndarray):
        try:
            a = np.asarray(a)
            b = np.asarray(b)
        except Exception:
            return False
        if a.dtype.kind in 'OUS' or b.dtype.kind in 'OUS':
            return a.shape == b.shape and a.tolist() == b.tolist()
        if a.shape != b.shape:
            # a recorded scalar-shaped value may come back as shape (1,) <-> () : demand same size+values
            if a.size != b.size or a.size != 1:
                return False
            a = a.ravel()
            b = b.ravel()
        return bool(np.array_equal(a, b, equal_nan=True))
    if isinstance(a, float) and isinstance(b, float) and a != a and b != b:
        return True
    if isinstance(b, tuple):
        b = list(b)
    return type(a) is type(b) and a == b or (isinstance(a, (int, float)) and isinstance(b, (int, float))
                                            and not isinstance(a, bool) and not isinstance(b, bool)
                                            and a == b)
