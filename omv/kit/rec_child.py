"""Crash-injection kit for C18: run a recording scenario in a *forked* child and kill it at a chosen point.

Why fork and not a fresh interpreter per kill point: importing openmdao costs 5-15 CPU-seconds here;
with ~1000 kill points per scenario that alone would be hours.  The worker imports once; every kill
point still gets its own process (os.fork), its own scratch directory, and a watchdog (waitpid poll
with timeout) - there is no pool that a dying child could hang.

Kill mechanisms
  stmt   : `sqlite3.connect` is patched in the child to build `KConn` connections whose execute /
           cursor().execute / commit / __exit__ call `os.kill(getpid(), SIGKILL)` before or after the
           k-th statement / k-th commit (counted over all recorder connections of the process).
  sys    : the child waits on a pipe; `strace -f -p <pid> -P <db> -P <db>-journal
           -e inject=<syscall>:signal=SIGKILL:when=N` is attached; the child is released.  The kill lands
           at ENTRY of the N-th <syscall> on those files.
  pycall : `sys.setprofile` counts Python-level call events; SIGKILL at the N-th one (deterministic
           "random instants", reaches pure-Python stretches between database calls).
  timer  : parent sleeps a given time after the recorder started, then SIGKILLs.

The child drops a marker file `started` when the first `SqliteRecorder.startup()` has returned.
"""
import json
import os
import signal
import sqlite3
import subprocess
import sys
import time
import traceback

MUTATING = ('pwrite64', 'write', 'pwritev', 'fdatasync', 'fsync', 'unlink', 'unlinkat', 'ftruncate', 'openat',
            'rename', 'renameat', 'renameat2')


class K:
    """Per-process kill state (lives in the forked child)."""
    n = {'pre-exec': 0, 'post-exec': 0, 'pre-commit': 0, 'post-commit': 0}
    target = None          # (kind, k)
    log = None             # list of (kind, sql-head) in the reference run
    in_txn = 0

    @classmethod
    def point(cls, kind, what=''):
        cls.n[kind] += 1
        if cls.log is not None:
            cls.log.append((kind, what[:40]))
        if cls.target is not None and cls.target[0] == kind and cls.target[1] == cls.n[kind]:
            os.kill(os.getpid(), signal.SIGKILL)


class KCursor(sqlite3.Cursor):
    def execute(self, sql, *a):
        K.point('pre-exec', sql)
        r = super().execute(sql, *a)
        K.point('post-exec', sql)
        return r


class KConn(sqlite3.Connection):
    def cursor(self, factory=KCursor):
        return super().cursor(factory)

    def execute(self, sql, *a):
        K.point('pre-exec', sql)
        r = super().execute(sql, *a)
        K.point('post-exec', sql)
        return r

    def commit(self):
        K.point('pre-commit', 'commit()')
        r = super().commit()
        K.point('post-commit', 'commit()')
        return r

    def __exit__(self, *a):
        K.point('pre-commit', '__exit__')
        r = super().__exit__(*a)
        K.point('post-commit', '__exit__')
        return r


def _child_body(spec, kill, go_fd):
    """Runs in the forked child inside its scratch dir.  Never returns."""
    code = 3
    try:
        from omv.gen import recmodels as G
        from openmdao.recorders.sqlite_recorder import SqliteRecorder
        # marker after the first startup() returned
        orig_startup = SqliteRecorder.startup
        state = {'started': False}

        def startup(self, requester, comm=None):
            r = orig_startup(self, requester, comm)
            if not state['started']:
                state['started'] = True
                fd = os.open('started', os.O_WRONLY | os.O_CREAT, 0o644)
                os.write(fd, json.dumps(K.n).encode())
                os.close(fd)
            return r
        SqliteRecorder.startup = startup

        orig_connect = sqlite3.connect

        def connect(*a, **kw):
            kw.setdefault('factory', KConn)
            return orig_connect(*a, **kw)
        sqlite3.connect = connect
        K.n = {k: 0 for k in K.n}
        K.target = None
        K.log = None
        ncalls = [0]
        if kill and kill['mode'] == 'stmt':
            K.target = (kill['kind'], kill['k'])
        if kill is None or kill.get('mode') == 'ref':
            K.log = []
        if kill and kill['mode'] == 'pycall':
            tgt = kill['k']

            def prof(frame, event, arg):
                if event == 'call':
                    ncalls[0] += 1
                    if ncalls[0] == tgt:
                        os.kill(os.getpid(), signal.SIGKILL)
            sys.setprofile(prof)
        elif kill and kill.get('count_calls'):
            def prof(frame, event, arg):
                if event == 'call':
                    ncalls[0] += 1
                    if not state['started']:
                        state['calls_at_start'] = ncalls[0]
            sys.setprofile(prof)
        if go_fd is not None:
            os.read(go_fd, 1)          # wait until the tracer is attached
        devnull = os.open(os.devnull, os.O_WRONLY)
        os.dup2(devnull, 1)
        built = G.build(spec)
        G.run_sequence(built)
        built['prob'].cleanup()
        sys.setprofile(None)
        with open('counts.json', 'w') as f:
            json.dump({'n': K.n, 'log': K.log, 'calls': ncalls[0],
                       'calls_at_start': state.get('calls_at_start')}, f)
        code = 0
    except BaseException:   # noqa
        try:
            with open('child_error.txt', 'w') as f:
                f.write(traceback.format_exc())
        except Exception:  # noqa
            pass
        code = 3
    finally:
        os._exit(code)


def fork_run(spec, workdir, kill=None, timeout=120.0, db_files=()):
    """Run the scenario in a forked child in `workdir`.  -> dict(status, signaled, started, elapsed, ...)"""
    os.makedirs(workdir, exist_ok=True)
    mode = kill['mode'] if kill else 'ref'
    r = w = None
    if mode == 'sys' or mode == 'sysref':
        r, w = os.pipe()
    sys.stdout.flush()
    sys.stderr.flush()
    t0 = time.time()
    pid = os.fork()
    if pid == 0:
        try:
            os.chdir(workdir)
            if w is not None:
                os.close(w)
        except BaseException:  # noqa
            os._exit(4)
        _child_body(spec, kill, r)
    res = {'mode': mode, 'tracer_rc': None}
    tracer = None
    if r is not None:
        os.close(r)
        cmd = ['strace', '-f', '-p', str(pid), '-o', os.path.join(workdir, 'strace.out')]
        for f in db_files:
            p = os.path.abspath(os.path.join(workdir, f))
            cmd += ['-P', p, '-P', p + '-journal']
        if mode == 'sys':
            cmd += ['-e', 'trace=' + kill['syscall'],
                    '-e', 'inject=%s:signal=SIGKILL:when=%d' % (kill['syscall'], kill['k'])]
        tracer = subprocess.Popen(cmd, stdout=subprocess.DEVNULL, stderr=subprocess.PIPE)
        line = tracer.stderr.readline()
        res['tracer_attached'] = b'attached' in line
        os.write(w, b'x')
        os.close(w)
    kill_at = None
    if mode == 'timer':
        kill_at = kill['delay']
    status = None
    started_seen = None
    while True:
        wp, st = os.waitpid(pid, os.WNOHANG)
        if wp == pid:
            status = st
            break
        now = time.time()
        if kill_at is not None:
            if started_seen is None and os.path.exists(os.path.join(workdir, 'started')):
                started_seen = now
            if started_seen is not None and now - started_seen >= kill_at:
                try:
                    os.kill(pid, signal.SIGKILL)
                except OSError:
                    pass
                kill_at = None
        if now - t0 > timeout:
            try:
                os.kill(pid, signal.SIGKILL)
            except OSError:
                pass
            os.waitpid(pid, 0)
            res['timeout'] = True
            break
        time.sleep(0.002)
    if tracer is not None:
        try:
            tracer.wait(timeout=20)
        except subprocess.TimeoutExpired:
            tracer.kill()
        res['tracer_rc'] = tracer.returncode
        tracer.stderr.close()
    res['elapsed'] = time.time() - t0
    res['signaled'] = status is not None and os.WIFSIGNALED(status)
    res['exit'] = os.WEXITSTATUS(status) if (status is not None and os.WIFEXITED(status)) else None
    res['started'] = os.path.exists(os.path.join(workdir, 'started'))
    err = os.path.join(workdir, 'child_error.txt')
    if os.path.exists(err):
        with open(err) as f:
            res['child_error'] = f.read()[-1500:]
    return res


def syscall_counts(strace_out):
    """Count mutating syscalls on the traced files in a reference strace log."""
    counts = {}
    order = []
    with open(strace_out) as f:
        for line in f:
            parts = line.split(None, 1)
            if len(parts) < 2:
                continue
            rest = parts[1]
            name = rest.split('(', 1)[0].strip()
            if name in MUTATING and '(' in rest:
                if 'resumed' in name:
                    continue
                counts[name] = counts.get(name, 0) + 1
                order.append(name)
    return counts, order
