"""poison(modules): the Python analogue of MSan for np.empty buffers.

Replaces the `np` binding of the given openmdao modules by a proxy whose empty/empty_like return arrays
pre-filled with a sentinel (NaN for floats/complex, a huge negative number for ints).  A sentinel that
survives into a result is an uninitialised read: NaNs propagate into values (caught by every numeric
oracle), the int sentinel makes any index use fail loudly (IndexError) instead of silently reading garbage.
"""
import importlib

import numpy as _np

INT_SENTINEL = -(2 ** 62)


class _NpProxy:
    def __init__(self):
        self.calls = 0

    def __getattr__(self, name):
        return getattr(_np, name)

    def _fill(self, a):
        self.calls += 1
        if a.dtype.kind in 'fc':
            a.fill(_np.nan)
        elif a.dtype.kind in 'iu':
            a.fill(INT_SENTINEL if a.dtype.itemsize >= 8 else _np.iinfo(a.dtype).min)
        return a

    def empty(self, *a, **k):
        return self._fill(_np.empty(*a, **k))

    def empty_like(self, *a, **k):
        return self._fill(_np.empty_like(*a, **k))


DEFAULT_MODULES = ['openmdao.vectors.default_transfer', 'openmdao.utils.indexer', 'openmdao.core.total_jac',
                   'openmdao.matrices.coo_matrix', 'openmdao.matrices.csc_matrix', 'openmdao.matrices.csr_matrix',
                   'openmdao.matrices.dense_matrix', 'openmdao.matrices.matrix', 'openmdao.vectors.default_vector',
                   'openmdao.jacobians.jacobian', 'openmdao.jacobians.subjac',
                   'openmdao.jacobians.dictionary_jacobian', 'openmdao.core.conn_graph']


class poison:
    def __init__(self, modules=None):
        self.modules = modules or DEFAULT_MODULES
        self.proxy = _NpProxy()
        self._saved = []

    def __enter__(self):
        for name in self.modules:
            try:
                m = importlib.import_module(name)
            except Exception:
                continue
            if getattr(m, 'np', None) is _np:
                self._saved.append((m, 'np'))
                m.np = self.proxy
            if getattr(m, 'numpy', None) is _np:
                self._saved.append((m, 'numpy'))
                m.numpy = self.proxy
        return self

    def __exit__(self, *a):
        for m, attr in self._saved:
            setattr(m, attr, _np)
        return False
