"""C24 child process: started with OPENMDAO_NO_RELEVANCE=1 (the documented switch, read when
openmdao.utils.relevance is imported).  Reads {'seed', 'mode'} from stdin, rebuilds the same spec as the parent,
computes the explicit of/wrt totals and prints one line `C24-CHILD <json>`."""
import json
import random
import sys
import warnings


def main():
    warnings.simplefilter('ignore')
    import numpy as np
    np.seterr(all='ignore')
    req = json.loads(sys.stdin.read())
    from omv.core import assert_repo
    assert_repo()
    import openmdao.utils.relevance as rel
    from omv.checks import c24_relevance as C
    if req.get('kind') == 'hist':
        # a whole history (omv/gen/c24_hist.py) under the documented switch; step results serialised
        from omv.gen import c24_hist as H
        rng = random.Random(req['seed'])
        s = H.gen_hist_spec(rng, req['cls'], opt=bool(req.get('opt')))
        steps, info = H.gen_history(rng, s)
        r = C._run_hist_twin(s, steps, norel=rel._no_relevance)
        out = {'env_flag': bool(rel._no_relevance), 'exc': repr(r['exc'])[:300] if r['exc'] is not None else None,
               'pruned': list(r['pruned']), 'nfail': r['nfail'], 'steps': []}
        for x in (r['steps'] or []):
            if not isinstance(x, dict):
                out['steps'].append(None)
            elif 'exc' in x:
                out['steps'].append({'exc': type(x['exc']).__name__})
            elif 'values' in x:
                out['steps'].append({'values': {k: np.asarray(v).tolist() for k, v in x['values'].items()}})
            elif 'J' in x:
                out['steps'].append({'J': np.asarray(x['J']).tolist()})
            elif 'driver' in x:
                out['steps'].append({'driver': {'success': x['driver']['success'],
                                                'x': {k: np.asarray(v).tolist() for k, v in x['driver']['x'].items()}}})
            else:
                out['steps'].append(None)
        sys.stdout.write('\nC24-CHILD ' + json.dumps(out) + '\n')
        return
    spec = C._gen_totals_spec(random.Random(req['seed']))
    plan = {'api': 'explicit', 'of': list(spec['of']), 'wrt': list(spec['wrt'])}
    # norel=None-like: leave the module flag exactly as the environment variable set it
    out = {'env_flag': bool(rel._no_relevance)}
    r = C._run_totals_twin(spec, req['mode'], plan, norel=rel._no_relevance)
    out['exc'] = repr(r['exc'])[:300] if r['exc'] is not None else None
    out['failures'] = [list(f) for f in r['failures']]
    out['pruned'] = list(r['pruned'])
    out['totals'] = np.asarray(r['res'].get('totals', np.zeros((0, 0)))).tolist()
    sys.stdout.write('\nC24-CHILD ' + json.dumps(out) + '\n')


if __name__ == '__main__':
    import os
    import tempfile
    import shutil
    tmp = tempfile.mkdtemp(prefix='omv-c24child-')
    old = os.getcwd()
    os.chdir(tmp)
    try:
        main()
    finally:
        os.chdir(old)
        shutil.rmtree(tmp, ignore_errors=True)
