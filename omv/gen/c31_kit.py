"""C31 kit: small components with DISCRETE variables that are attached to a G-model (omv/gen/models.py) so that the
read-only monitor can also observe discrete inputs/outputs.

  dsrc  (IndepVarComp)        discrete outputs  k (int), tag (str)
  dmid  (ExplicitComponent)   x (continuous, fed by a state of the G-model), discrete input k
                              y = k*x + 0.1 sin x ; discrete outputs kk = 2k+1 ,
                              regime = floor(1e7*sum(x)) mod 7   (a discrete "regime flag" that depends on the
                              continuous input - it moves whenever the component is evaluated at a perturbed point)
  dsink (ExplicitComponent)   z = kk*y + regime  (discrete inputs kk, regime, tag)

None of y, z is ever used as a response, so total derivatives never depend on a discrete variable.
"""
import numpy as np

import openmdao.api as om


class DMid(om.ExplicitComponent):
    def __init__(self, n, **kw):
        super().__init__(**kw)
        self._omv_n = n

    def setup(self):
        n = self._omv_n
        self.add_input('x', val=np.ones(n))
        self.add_discrete_input('k', val=1)
        self.add_output('y', val=np.zeros(n))
        self.add_discrete_output('kk', val=0)
        self.add_discrete_output('regime', val=0)
        self.declare_partials('y', 'x', rows=np.arange(n), cols=np.arange(n))

    def compute(self, inputs, outputs, discrete_inputs, discrete_outputs):
        k = discrete_inputs['k']
        x = inputs['x']
        outputs['y'] = k * x + 0.1 * np.sin(x)
        discrete_outputs['kk'] = 2 * k + 1
        discrete_outputs['regime'] = int(np.floor(float(np.sum(np.real(x))) * 1e7)) % 7

    def compute_partials(self, inputs, partials, discrete_inputs):
        partials['y', 'x'] = discrete_inputs['k'] + 0.1 * np.cos(inputs['x'])


class DSink(om.ExplicitComponent):
    def __init__(self, n, **kw):
        super().__init__(**kw)
        self._omv_n = n

    def setup(self):
        n = self._omv_n
        self.add_input('y', val=np.ones(n))
        self.add_discrete_input('kk', val=1)
        self.add_discrete_input('regime', val=0)
        self.add_discrete_input('tag', val='a')
        self.add_output('z', val=np.zeros(n))
        self.add_discrete_output('seen', val='')
        self.declare_partials('z', 'y', rows=np.arange(n), cols=np.arange(n))

    def compute(self, inputs, outputs, discrete_inputs, discrete_outputs):
        outputs['z'] = discrete_inputs['kk'] * inputs['y'] + discrete_inputs['regime']
        discrete_outputs['seen'] = '%s/%d' % (discrete_inputs['tag'], discrete_inputs['regime'])

    def compute_partials(self, inputs, partials, discrete_inputs):
        partials['z', 'y'] = np.full(self._omv_n, float(discrete_inputs['kk']))


def attach_discrete(prob, src_prom_name, n):
    """add dsrc -> dmid -> dsink to the root of an un-setup G problem; dmid.x is fed by `src_prom_name`."""
    model = prob.model
    ivc = om.IndepVarComp()
    ivc.add_discrete_output('k', val=3)
    ivc.add_discrete_output('tag', val='a')
    model.add_subsystem('dsrc', ivc)
    model.add_subsystem('dmid', DMid(n))
    model.add_subsystem('dsink', DSink(n))
    model.connect(src_prom_name, 'dmid.x', src_indices=list(range(n)), flat_src_indices=True)
    model.connect('dsrc.k', 'dmid.k')
    model.connect('dsrc.tag', 'dsink.tag')
    model.connect('dmid.kk', 'dsink.kk')
    model.connect('dmid.regime', 'dsink.regime')
    model.connect('dmid.y', 'dsink.y')


def discrete_snapshot(model):
    """{abs name: value} of every discrete input and output in the model (values are immutable here)."""
    from openmdao.core.component import Component
    out = {}
    for s in model.system_iter(typ=Component, recurse=True):
        for kind in ('_discrete_inputs', '_discrete_outputs'):
            d = getattr(s, kind, None)
            if d:
                for k in d:
                    out['%s:%s.%s' % (kind[10:], s.pathname, k)] = d[k]
    return out


def discrete_restore(model, snap):
    from openmdao.core.component import Component
    for s in model.system_iter(typ=Component, recurse=True):
        for kind in ('_discrete_inputs', '_discrete_outputs'):
            d = getattr(s, kind, None)
            if d:
                for k in list(d):
                    key = '%s:%s.%s' % (kind[10:], s.pathname, k)
                    if key in snap:
                        d[k] = snap[key]
