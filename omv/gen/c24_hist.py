"""C24 kit, family `hist`: HISTORIES on one Problem object (call sequences whose later results depend on state that an
earlier derivative computation left behind), with an own closed-form reference for every step.

Model (spec = JSON-able dict, see gen_hist_spec): B = 2..4 branches; branch k has its own vector design variable xk and
a chain of 1..3 elementwise components
    el    y = a*u**2 + b*u [+ c*sum(v)] [+ q] [+ k*w]     u: previous variable of the chain, v: a variable of a LOWER
                                                          branch (cross link: the cones of the branches overlap in one
                                                          direction only, so something is always irrelevant),
                                                          q: output of `par` (fed by a non-design source),
                                                          w: output of the partner component (linear two-component cycle
                                                          y1 = base + k*y2, y2 = m*y1; closed form y1 = base/(1 - k*m))
    row   g = sum_u w_u.(u - t_u)**2                      scalar response over the last variables of several branches
    par   q = 2*p + 1                                     p is no design variable
dead-end components (`dead`) are no responses and feed nothing.  Implementations of `el`: analytic sparse partials (exp),
approximated partials (fd / cs, declare_partials(method=...)), matrix-free (mf, compute_jacvec_product), implicit with
declared partials + solve_linear (imp), implicit matrix-free (impmf, apply_linear + solve_linear).
Components sit at the root or in sub-groups (contiguous slices of the execution order, nested up to depth 2) with their
own linear solvers; a (sub-)group may carry approx_totals(fd forward/central | cs); the root may carry approx_totals
with or without a driver total coloring.  All variables are promoted to the root.

Every component carries a FUSE (attribute `_omv_fuse`): when armed it raises at its n-th call of one hook (compute,
linearize/compute_partials, compute_jacvec_product, apply_linear, solve_linear) or - implicit components, `singular` -
reports a zero dR/dy so that a DirectSolver above it fails to factorise.

Reference (NumPy only): hist_eval() evaluates all variables and d(var)/d(design sources) at a point - exact chain rule;
a unit whose derivatives OpenMDAO approximates by finite differences (component with fd partials, group with
approx_totals('fd'), root total fd) is differentiated by the SAME difference formula applied to the closed-form unit
function (same step, same form, every externally fed input perturbed separately, as documented), so that the reference
carries the same truncation error and only round-off (bounded: `noise`) separates it from a correct result.
"""
import numpy as np

FD_STEP = 1e-6
EPS = 2.220446049250313e-16


def _r(rng, lo, hi, n=None):
    if n is None:
        return round(rng.uniform(lo, hi), 3)
    return [round(rng.uniform(lo, hi), 3) for _ in range(n)]


def _pm(rng, lo, hi, n):
    return [round(rng.uniform(lo, hi) * rng.choice([-1.0, 1.0]), 3) for _ in range(n)]


# =====================================================================================================
# generator
# =====================================================================================================
def gen_hist_spec(rng, cls, opt=False):
    """cls: 'errpath' (fault inside a derivative computation, then reuse) | 'seq' (sequence of compute_totals calls
    with different of/wrt over approximated units)."""
    B = rng.randint(2, 4)
    sizes = {}
    xs = ['x%d' % k for k in range(B)]
    for x in xs:
        sizes[x] = rng.randint(1, 3)
    comps = []
    last = {}
    pool = []
    want_cycle = rng.random() < (0.55 if cls == 'errpath' else 0.15)
    cyc_at = None
    chains = []
    for k in range(B):
        prev = xs[k]
        mine = []
        for j in range(rng.randint(1, 3)):
            out = 'y%d%d' % (k, j)
            m = sizes[prev]
            c = {'name': 'c%d%d' % (k, j), 'kind': 'el', 'impl': 'exp', 'out': out, 'u': prev, 'branch': k,
                 'a': _r(rng, 0.1, 0.5, m), 'b': _pm(rng, 0.3, 1.0, m), 'v': None, 'c': None, 'w': None, 'k': None,
                 'q': None, 'dead': False}
            if pool and rng.random() < 0.4:
                c['v'] = rng.choice(pool)
                c['c'] = _pm(rng, 0.1, 0.5, m)
            sizes[out] = m
            comps.append(c)
            mine.append(c)
            prev = out
        chains.append(mine)
        last[k] = prev
        pool.extend([xs[k]] + [c['out'] for c in mine])
    if want_cycle:
        c = rng.choice([c for c in comps])
        m = sizes[c['out']]
        pn = c['out'] + 'p'
        partner = {'name': c['name'] + 'p', 'kind': 'el', 'impl': 'exp', 'out': pn, 'u': c['out'], 'branch': c['branch'],
                   'a': [0.0] * m, 'b': _pm(rng, 0.5, 0.7, m), 'v': None, 'c': None, 'w': None, 'k': None, 'q': None,
                   'dead': False, 'partner_of': c['name']}
        c['w'] = pn
        c['k'] = _pm(rng, 0.4, 0.7, m)           # |k*m| in [0.2, 0.49]
        sizes[pn] = m
        comps.insert(comps.index(c) + 1, partner)
        cyc_at = c['name']
    has_par = rng.random() < 0.3
    if has_par:
        tgt = rng.choice([c for c in comps if not c.get('partner_of')])
        m = sizes[tgt['out']]
        sizes['p'] = m
        sizes['q'] = m
        tgt['q'] = 'q'
        comps.insert(0, {'name': 'par', 'kind': 'par', 'impl': 'exp', 'out': 'q', 'u': 'p', 'dead': False,
                         'branch': None})
    row = None
    if opt or rng.random() < 0.55:
        ks = list(range(B)) if opt else sorted(rng.sample(range(B), rng.randint(1, B)))
        us = [last[k] for k in ks]
        row = {'name': 'row', 'kind': 'row', 'impl': 'exp', 'out': 'g', 'us': us, 'dead': False, 'branch': None,
               'wt': {u: _r(rng, 0.3, 1.2, sizes[u]) for u in us}, 't': {u: _r(rng, -0.5, 0.5, sizes[u]) for u in us}}
        sizes['g'] = 1
        comps.append(row)
    for d in range(rng.choice([0, 1, 1, 2])):
        src = rng.choice(xs + [c['out'] for c in comps if c['kind'] == 'el' and not c['dead']])
        m = sizes[src]
        out = 'dz%d' % d
        c = {'name': 'dd%d' % d, 'kind': 'el', 'impl': 'exp', 'out': out, 'u': src, 'branch': None,
             'a': _r(rng, 0.1, 0.5, m), 'b': _pm(rng, 0.3, 1.0, m), 'v': None, 'c': None, 'w': None, 'k': None,
             'q': None, 'dead': True}
        sizes[out] = m
        comps.append(c)
    # ---------------- implementations -------------------------------------------------------------------
    p_apx = 0.3 if cls == 'seq' else 0.08
    for c in comps:
        if c['kind'] != 'el':
            continue
        r = rng.random()
        cyc = c.get('w') or c.get('partner_of')
        if cyc:
            c['impl'] = 'mf' if r < 0.15 else 'exp'
        elif r < p_apx:
            c['impl'] = rng.choice(['fd', 'fd', 'cs'])
            c['form'] = rng.choice(['forward', 'forward', 'central'])
            # two approximation schemes in one component (fd wrt u, cs wrt the rest): which of them has something to
            # do depends on the relevance of the request
            c['mix'] = c['impl'] == 'fd' and bool(c.get('v') or c.get('q')) and rng.random() < 0.7
        elif r < p_apx + 0.12:
            c['impl'] = 'mf'
        elif r < p_apx + 0.22:
            c['impl'] = 'imp'
        elif r < p_apx + 0.27:
            c['impl'] = 'impmf'
    if cls == 'errpath' and not any(c['kind'] == 'el' and c['impl'] in ('mf', 'imp', 'impmf') for c in comps):
        c = rng.choice([c for c in comps if c['kind'] == 'el' and not c['dead']])
        c['impl'] = 'mf' if (c.get('w') or c.get('partner_of')) else rng.choice(['mf', 'imp', 'impmf'])
    # ---------------- tree -------------------------------------------------------------------------------
    names = [c['name'] for c in comps]
    tree = list(names)
    groups = []
    if len(names) >= 3 and rng.random() < (0.9 if cls == 'seq' else 0.6):
        i0 = rng.randint(0, len(names) - 2)
        i1 = rng.randint(i0 + 2, min(len(names), i0 + 5))
        ga = {'name': 'ga', 'children': names[i0:i1]}
        groups.append(ga)
        tree = names[:i0] + [ga] + names[i1:]
        if len(ga['children']) >= 3 and rng.random() < 0.45:
            ch = ga['children']
            j0 = rng.randint(0, len(ch) - 2)
            j1 = rng.randint(j0 + 1, len(ch) - (1 if j0 == 0 else 0))
            if j1 > j0:
                gaa = {'name': 'gaa', 'children': ch[j0:j1]}
                ga['children'] = ch[:j0] + [gaa] + ch[j1:]
                groups.append(gaa)
        rest = names[i1:]
        if len(rest) >= 2 and rng.random() < 0.5:
            k1 = rng.randint(1, len(rest))
            gb = {'name': 'gb', 'children': rest[:k1]}
            groups.append(gb)
            tree = names[:i0] + [ga, gb] + rest[k1:]
    root = {'name': '', 'children': tree}
    spec = {'cls': cls, 'sizes': sizes, 'xs': xs, 'has_par': has_par, 'comps': comps, 'root': root, 'opt': bool(opt),
            'cycle': cyc_at, 'last': [last[k] for k in range(B)]}
    # ---------------- approximated groups ---------------------------------------------------------------
    byname = {c['name']: c for c in comps}

    def members(node):
        out = []
        for ch in node['children']:
            out.extend(members(ch) if isinstance(ch, dict) else [ch])
        return out

    def has_cycle(node):
        return any(byname[n].get('w') or byname[n].get('partner_of') for n in members(node))
    for g in groups:
        g['approx'] = None
    root['approx'] = None
    root['coloring'] = False
    if groups and rng.random() < (0.8 if cls == 'seq' else 0.15):
        cand = [g for g in groups if not has_cycle(g)]
        if cand:
            # prefer a group fed by more than one outside variable (different wrt select different group inputs)
            cand.sort(key=lambda g: -len(_ext_slots(spec, members(g))))
            g = cand[0] if rng.random() < 0.7 else rng.choice(cand)
            g['approx'] = {'method': rng.choice(['fd', 'cs', 'cs']), 'form': rng.choice(['forward', 'central'])}
            # a group nested in an approximated group may approximate too (inner one is never linearized)
    elif cls == 'seq' and cyc_at is None and rng.random() < 0.5:
        root['approx'] = {'method': rng.choice(['fd', 'cs']), 'form': rng.choice(['forward', 'central'])}
        root['coloring'] = rng.random() < 0.5
    # an implicit component below an approximated group is left out: with a non-run-once linear solver above the
    # group its own dR/dy = +1 ends up on the diagonal of the group's jacobian where -1 is assumed (wrong sign of the
    # totals with relevance on AND off - not this property's matter; scratch/side/c24s_implicit_in_approx_group_sign.py)
    apx_names = set()
    for g in [root] + groups:
        if g.get('approx'):
            apx_names |= set(members(g))
    for c in comps:
        if c['name'] in apx_names and c['impl'] in ('imp', 'impmf'):
            c['impl'] = 'exp'
    # ---------------- solvers ---------------------------------------------------------------------------
    family = rng.choice(['direct', 'iterative', 'iterative'])
    sub_choices = ['runonce', 'runonce', 'direct'] if family == 'direct' else ['runonce', 'runonce', 'lnbgs', 'krylov']
    root_choices = ['runonce', 'direct'] if family == 'direct' else ['runonce', 'lnbgs', 'lnbj', 'krylov']
    spec['family'] = family

    def cyc_group(node):
        """lowest group that contains both components of the cycle"""
        if cyc_at is None:
            return None
        for ch in node['children']:
            if isinstance(ch, dict):
                mem = members(ch)
                if cyc_at in mem and cyc_at + 'p' in mem:
                    return cyc_group(ch)
        return node
    cg = cyc_group(root)
    for g in [root] + groups:
        g['nl'] = 'runonce'
        g['ln'] = rng.choice(root_choices if g is root else sub_choices)
        if g is cg:
            g['ln'] = 'direct' if family == 'direct' else rng.choice(['lnbgs', 'lnbgs', 'lnbj', 'krylov'])
            # Newton (all outputs of the group are its states) only over a direct linear solve: cheap and exact
            g['nl'] = rng.choice(['nlbgs', 'newton']) if g['ln'] == 'direct' else 'nlbgs'
    spec['cyc_group'] = cg['name'] if cg is not None else None
    spec['ivc'] = rng.choice(['auto', 'one', 'per-var', 'per-var'])
    spec['mode'] = rng.choice(['fwd', 'rev'])
    spec['pre_opt_post'] = rng.random() < 0.35
    # ---------------- design variables / responses -------------------------------------------------------
    dvs = []
    for x in xs:
        idx = None
        if sizes[x] > 1 and rng.random() < 0.15:
            idx = sorted(rng.sample(range(sizes[x]), rng.randint(1, sizes[x] - 1)))
        dvs.append({'name': x, 'idx': idx})
    rng.shuffle(dvs)
    resps = [{'name': last[k], 'kind': 'con', 'idx': None} for k in range(B)]
    if row is not None:
        resps.append({'name': 'g', 'kind': 'obj', 'idx': None})
        # a row that covers a branch's last variable may replace that constraint
        resps = [r for r in resps if r['name'] not in row['us'] or rng.random() < 0.7 or opt]
    else:
        r = rng.choice(resps)
        r['kind'] = 'obj'
        r['idx'] = [rng.randrange(sizes[r['name']])]
    rng.shuffle(resps)
    spec['dvs'] = dvs
    spec['resps'] = resps
    dep = hist_deps(spec)
    # every design variable must influence a response (no dead seeds: another, known, mechanism)
    for d in dvs:
        if not any(d['name'] in dep[r['name']] for r in resps):
            k = int(d['name'][1:])
            resps.append({'name': last[k], 'kind': 'con', 'idx': None})
    spec['points'] = []
    for _ in range(3):
        pt = {x: _r(rng, 0.3, 1.2, sizes[x]) for x in xs}
        if has_par:
            pt['p'] = _r(rng, -0.5, 0.5, sizes['p'])
        spec['points'].append(pt)
    if has_par:         # the non-design source keeps its value
        for pt in spec['points'][1:]:
            pt['p'] = spec['points'][0]['p']
    return spec


def hist_tags(spec):
    impls = sorted(set(c['impl'] for c in spec['comps'] if c['kind'] == 'el'))
    t = ['cls=' + spec['cls'], 'mode=' + spec['mode'], 'B=%d' % len(spec['xs']), 'stack=' + spec['family'],
         'root=' + spec['root']['ln'], 'ivc=' + spec['ivc'], 'impl=' + '+'.join(impls)]
    for g in iter_groups(spec):
        if g['name']:
            t.append('%s:%s%s' % (g['name'], g['ln'], (':approx-' + g['approx']['method']) if g['approx'] else ''))
    if spec['root']['approx']:
        t.append('root-approx-%s%s' % (spec['root']['approx']['method'], '+coloring' if spec['root']['coloring'] else ''))
    if spec['cycle']:
        t.append('cycle@%s:%s' % (spec['cyc_group'] or 'root', [g for g in iter_groups(spec)
                                                              if g['name'] == (spec['cyc_group'] or '')][0]['nl']))
    if spec['has_par']:
        t.append('par')
    if any(c['dead'] for c in spec['comps']):
        t.append('dead-end')
    if any(c['kind'] == 'row' for c in spec['comps']):
        t.append('row')
    if any(d['idx'] for d in spec['dvs']):
        t.append('dv-idx')
    if spec['opt']:
        t.append('opt')
    if spec['pre_opt_post']:
        t.append('pre_opt_post')
    return t


def iter_groups(spec):
    def rec(node):
        yield node
        for ch in node['children']:
            if isinstance(ch, dict):
                yield from rec(ch)
    return rec(spec['root'])


def group_members(node):
    out = []
    for ch in node['children']:
        out.extend(group_members(ch) if isinstance(ch, dict) else [ch])
    return out


def comp_inputs(c):
    """[(slot, variable)] of a component"""
    if c['kind'] == 'row':
        return [(u, u) for u in c['us']]
    if c['kind'] == 'par':
        return [('u', c['u'])]
    out = [('u', c['u'])]
    for s in ('v', 'w', 'q'):
        if c.get(s):
            out.append((s, c[s]))
    return out


def _ext_slots(spec, names):
    """(component, slot, variable) of the inputs of the unit `names` that are fed from outside the unit"""
    byname = {c['name']: c for c in spec['comps']}
    inside = set(byname[n]['out'] for n in names)
    return [(n, s, v) for n in names for s, v in comp_inputs(byname[n]) if v not in inside]


def hist_deps(spec):
    """{variable: set of design sources it depends on}"""
    dep = {x: {x} for x in spec['xs']}
    dep['p'] = set()
    byname = {c['name']: c for c in spec['comps']}
    for c in spec['comps']:
        d = set()
        for s, v in comp_inputs(c):
            if s == 'w':
                continue
            d |= dep[v]
        dep[c['out']] = d
    for c in spec['comps']:         # partner of a cycle: same cone as the cycle's first component
        if c.get('partner_of'):
            dep[c['out']] = set(dep[byname[c['partner_of']]['out']])
    return dep


def var_ancestors(spec):
    """{variable: set of all variables it depends on (sources and outputs)}"""
    anc = {x: set() for x in spec['xs']}
    anc['p'] = set()
    for c in spec['comps']:
        a = set()
        for s, v in comp_inputs(c):
            if s == 'w':
                continue
            a |= anc[v] | {v}
        anc[c['out']] = a
    for c in spec['comps']:
        if c.get('w'):
            p = [q for q in spec['comps'] if q.get('partner_of') == c['name']][0]
            both = anc[c['out']] | {c['out'], p['out']}
            for cc in spec['comps']:
                if c['out'] in anc[cc['out']] or p['out'] in anc[cc['out']]:
                    anc[cc['out']] |= both
            anc[c['out']] = (both - {c['out']})
            anc[p['out']] = (both - {p['out']})
    return anc


# =====================================================================================================
# reference
# =====================================================================================================
def _comp_val(c, get, partner=None):
    """output of component c; get(slot, var) -> value of that input.  A cycle's first component is evaluated in
    closed form (partner = the second component)."""
    k = c['kind']
    if k == 'par':
        return 2.0 * get('u', c['u']) + 1.0
    if k == 'row':
        g = 0.0
        for u in c['us']:
            d = get(u, u) - np.asarray(c['t'][u])
            g = g + np.sum(np.asarray(c['wt'][u]) * d * d)
        return np.array([g])
    u = get('u', c['u'])
    y = np.asarray(c['a']) * u * u + np.asarray(c['b']) * u
    if c.get('v'):
        y = y + np.asarray(c['c']) * np.sum(get('v', c['v']))
    if c.get('q'):
        y = y + get('q', c['q'])
    if c.get('w'):
        y = y / (1.0 - np.asarray(c['k']) * np.asarray(partner['b']))
    return y


def _comp_partials(c, vals, partner=None):
    """{slot: exact d out / d input} (dense matrices)"""
    k = c['kind']
    if k == 'par':
        return {'u': 2.0 * np.eye(len(vals[c['u']]))}
    if k == 'row':
        return {u: (2.0 * np.asarray(c['wt'][u]) * (vals[u] - np.asarray(c['t'][u])))[None, :] for u in c['us']}
    u = vals[c['u']]
    m = len(u)
    f = np.ones(m)
    if c.get('w'):
        f = 1.0 / (1.0 - np.asarray(c['k']) * np.asarray(partner['b']))
    P = {'u': np.diag(f * (2.0 * np.asarray(c['a']) * u + np.asarray(c['b'])))}
    if c.get('v'):
        P['v'] = np.outer(f * np.asarray(c['c']), np.ones(len(vals[c['v']])))
    if c.get('q'):
        P['q'] = np.diag(f)
    return P


def _unit_fun(spec, names, vals, override):
    """values of the outputs of the unit `names` (ordered) with one input overridden: override = (kind, key, value),
    kind 'slot': key = (component, slot); kind 'var': key = variable name (root total approximation)."""
    byname = {c['name']: c for c in spec['comps']}
    loc = {}
    if override[0] == 'var':
        loc[override[1]] = override[2]

    def mk(cn):
        def get(slot, var):
            if override[0] == 'slot' and override[1] == (cn, slot):
                return override[2]
            if var in loc:
                return loc[var]
            return vals[var]
        return get
    for n in names:
        c = byname[n]
        loc[c['out']] = _comp_val(c, mk(n))
    return loc


def hist_eval(spec, point, total_wrt=None, exact_all=False):
    """-> vals, jac (d var / d all design sources, full size), noise (bound on the round-off error of jac rows that
    went through a finite difference).  total_wrt: design sources of the request (only used by a root approximation)."""
    sizes = spec['sizes']
    xs = spec['xs']
    byname = {c['name']: c for c in spec['comps']}
    partner = {c['partner_of']: c for c in spec['comps'] if c.get('partner_of')}
    off, W = {}, 0
    for x in xs:
        off[x] = W
        W += sizes[x]
    vals, jac, noise = {}, {}, {}
    for x in xs:
        vals[x] = np.asarray(point[x], float).reshape(sizes[x])
        J = np.zeros((sizes[x], W))
        J[:, off[x]:off[x] + sizes[x]] = np.eye(sizes[x])
        jac[x] = J
        noise[x] = 0.0
    if spec['has_par']:
        vals['p'] = np.asarray(point['p'], float)
        jac['p'] = np.zeros((sizes['p'], W))
        noise['p'] = 0.0
    # values first (needed as baseline of the differences)
    for c in spec['comps']:
        vals[c['out']] = _comp_val(c, lambda s, v: vals[v], partner.get(c['name']))

    def exact(c):
        P = _comp_partials(c, vals, partner.get(c['name']))
        J = np.zeros((sizes[c['out']], W))
        nz = 0.0
        for s, v in comp_inputs(c):
            if s == 'w':
                continue
            J = J + P[s] @ jac[v]
            nz += float(np.max(np.sum(np.abs(P[s]), axis=1))) * noise[v]
        jac[c['out']], noise[c['out']] = J, nz

    def fd_unit(names, form, slots):
        """finite differences of the unit function, every external input separately"""
        h = FD_STEP
        outs = [byname[n]['out'] for n in names]
        base = {o: vals[o] for o in outs}
        scale = max([1.0] + [float(np.max(np.abs(vals[o]))) for o in outs])
        nD = 4.0 * EPS * scale / h
        acc = {o: np.zeros((sizes[o], W)) for o in outs}
        nz = {o: 0.0 for o in outs}
        for kind, key, var in slots:
            x0 = vals[var]
            D = {o: np.zeros((sizes[o], len(x0))) for o in outs}
            for j in range(len(x0)):
                e = np.zeros(len(x0))
                e[j] = h
                fp = _unit_fun(spec, names, vals, (kind, key, x0 + e))
                if form == 'central':
                    fm = _unit_fun(spec, names, vals, (kind, key, x0 - e))
                    for o in outs:
                        D[o][:, j] = (fp[o] - fm[o]) / (2.0 * h)
                else:
                    for o in outs:
                        D[o][:, j] = (fp[o] - base[o]) / h
            for o in outs:
                acc[o] = acc[o] + D[o] @ jac[var]
                nz[o] += len(x0) * nD * float(np.max(np.abs(jac[var]))) if jac[var].size else 0.0
                nz[o] += float(np.max(np.sum(np.abs(D[o]), axis=1))) * noise[var]
        for o in outs:
            jac[o], noise[o] = acc[o], nz[o]

    def walk(node, exact_only):
        """exact_only: below a complex-step approximation nothing is linearized - the result is the exact
        derivative of the unit function (also where components would approximate their own partials by fd)"""
        for ch in node['children']:
            if isinstance(ch, dict):
                if not exact_only and ch.get('approx') and ch['approx']['method'] == 'fd':
                    names = group_members(ch)
                    fd_unit(names, ch['approx']['form'], [('slot', (n, s), v) for n, s, v in _ext_slots(spec, names)])
                else:
                    walk(ch, exact_only or bool(ch.get('approx')))
            else:
                c = byname[ch]
                if c['impl'] == 'fd' and not exact_only:
                    ins = comp_inputs(c)
                    if c.get('mix'):
                        # partials wrt u by fd, wrt the other inputs by cs (= exact)
                        fd_unit([ch], c['form'], [('slot', (ch, s), v) for s, v in ins if s == 'u'])
                        P = _comp_partials(c, vals, None)
                        for s, v in ins:
                            if s != 'u':
                                jac[c['out']] = jac[c['out']] + P[s] @ jac[v]
                                noise[c['out']] += float(np.max(np.sum(np.abs(P[s]), axis=1))) * noise[v]
                    else:
                        fd_unit([ch], c['form'], [('slot', (ch, s), v) for s, v in ins])
                else:
                    exact(c)
    ra = spec['root'].get('approx')
    if exact_all:
        walk(spec['root'], True)
    elif ra and ra['method'] == 'fd':
        names = [c['name'] for c in spec['comps']]
        srcs = [x for x in xs if total_wrt is None or x in total_wrt]
        fd_unit(names, ra['form'], [('var', x, x) for x in srcs])
    else:
        walk(spec['root'], bool(ra))
    return vals, jac, noise


def hist_totals(spec, jac, of, wrt):
    """of / wrt: lists of {'name', 'idx'} -> dense reference jacobian"""
    sizes = spec['sizes']
    off, W = {}, 0
    for x in spec['xs']:
        off[x] = W
        W += sizes[x]
    cols = []
    for d in wrt:
        idx = d['idx'] if d['idx'] is not None else range(sizes[d['name']])
        cols.extend(off[d['name']] + i for i in idx)
    rows = []
    for r in of:
        J = jac[r['name']]
        if r['idx'] is not None:
            J = J[r['idx'], :]
        rows.append(J[:, cols])
    return np.vstack(rows)


# =====================================================================================================
# the OpenMDAO model
# =====================================================================================================
class Fault(Exception):
    pass


def _classes():
    import openmdao.api as om

    def blow(self, site):
        """the fuse: raises at the n-th call of the armed hook"""
        f = self._omv_fuse
        if f is None or f['site'] != site:
            return
        f['n'] -= 1
        if f['n'] <= 0:
            f['fired'] = f.get('fired', 0) + 1
            if f['exc'] == 'analysis':
                raise om.AnalysisError('injected fault in %s of %s' % (site, self.pathname))
            raise RuntimeError('injected fault in %s of %s' % (site, self.pathname))

    class HComp(om.ExplicitComponent):
        def __init__(self, c, sizes, hook=None):
            super().__init__()
            self._c24 = (c, sizes, hook)
            self._omv_fuse = None

        def setup(self):
            c, sizes, hook = self._c24
            for s, v in comp_inputs(c):
                self.add_input(v, np.ones(sizes[v]))
            self.add_output(c['out'], np.zeros(sizes[c['out']]))

        def setup_partials(self):
            c, sizes, hook = self._c24
            o = c['out']
            if c['kind'] == 'row':
                for u in c['us']:
                    self.declare_partials(o, u)
                return
            m = sizes[o]
            ar = np.arange(m)
            if c['kind'] == 'par':
                self.declare_partials(o, c['u'], rows=ar, cols=ar, val=2.0)
                return
            if c['impl'] in ('fd', 'cs'):
                for s, v in comp_inputs(c):
                    if c['impl'] == 'fd' and (s == 'u' or not c.get('mix')):
                        self.declare_partials(o, v, method='fd', step=FD_STEP, form=c['form'], step_calc='abs')
                    else:       # `mix`: two approximation schemes in one component
                        self.declare_partials(o, v, method='cs')
                return
            if c['impl'] == 'mf':
                for s, v in comp_inputs(c):
                    self.declare_partials(o, v)
                return
            self.declare_partials(o, c['u'], rows=ar, cols=ar)
            if c.get('v'):
                self.declare_partials(o, c['v'], val=np.outer(np.asarray(c['c'], float), np.ones(sizes[c['v']])))
            if c.get('w'):
                self.declare_partials(o, c['w'], rows=ar, cols=ar, val=np.asarray(c['k'], float))
            if c.get('q'):
                self.declare_partials(o, c['q'], rows=ar, cols=ar, val=1.0)

        def _f(self, inputs):
            c = self._c24[0]
            if c['kind'] == 'par':
                return 2.0 * inputs[c['u']] + 1.0
            if c['kind'] == 'row':
                g = 0.0
                for u in c['us']:
                    d = inputs[u] - np.asarray(c['t'][u])
                    g = g + np.sum(np.asarray(c['wt'][u]) * d * d)
                return g
            u = inputs[c['u']]
            y = np.asarray(c['a']) * u * u + np.asarray(c['b']) * u
            if c.get('v'):
                y = y + np.asarray(c['c']) * np.sum(inputs[c['v']])
            if c.get('q'):
                y = y + inputs[c['q']]
            if c.get('w'):
                y = y + np.asarray(c['k']) * inputs[c['w']]
            return y

        def compute(self, inputs, outputs):
            c, sizes, hook = self._c24
            if hook:
                hook('compute', c['name'], None)
            blow(self, 'compute')
            outputs[c['out']] = self._f(inputs)

        def compute_partials(self, inputs, partials):
            c, sizes, hook = self._c24
            if hook:
                hook('linearize', c['name'], None)
            blow(self, 'linearize')
            o = c['out']
            if c['kind'] == 'row':
                for u in c['us']:
                    partials[o, u] = (2.0 * np.asarray(c['wt'][u]) * (inputs[u] - np.asarray(c['t'][u]))).reshape(1, -1)
            elif c['kind'] == 'el' and c['impl'] == 'exp':
                partials[o, c['u']] = 2.0 * np.asarray(c['a']) * inputs[c['u']] + np.asarray(c['b'])

    class HMf(HComp):
        def compute_jacvec_product(self, inputs, d_inputs, d_outputs, mode):
            c, sizes, hook = self._c24
            blow(self, 'jacvec')
            o = c['out']
            if o not in d_outputs:
                return
            du = 2.0 * np.asarray(c['a']) * inputs[c['u']] + np.asarray(c['b'])
            if mode == 'fwd':
                if c['u'] in d_inputs:
                    d_outputs[o] += du * d_inputs[c['u']]
                if c.get('v') and c['v'] in d_inputs:
                    d_outputs[o] += np.asarray(c['c']) * np.sum(d_inputs[c['v']])
                if c.get('w') and c['w'] in d_inputs:
                    d_outputs[o] += np.asarray(c['k']) * d_inputs[c['w']]
                if c.get('q') and c['q'] in d_inputs:
                    d_outputs[o] += d_inputs[c['q']]
            else:
                if c['u'] in d_inputs:
                    d_inputs[c['u']] += du * d_outputs[o]
                if c.get('v') and c['v'] in d_inputs:
                    d_inputs[c['v']] += np.sum(np.asarray(c['c']) * d_outputs[o])
                if c.get('w') and c['w'] in d_inputs:
                    d_inputs[c['w']] += np.asarray(c['k']) * d_outputs[o]
                if c.get('q') and c['q'] in d_inputs:
                    d_inputs[c['q']] += d_outputs[o]

    class HImp(om.ImplicitComponent):
        """R = y - f(inputs); solve_nonlinear explicit; declared partials + own solve_linear."""

        def __init__(self, c, sizes, hook=None):
            super().__init__()
            self._c24 = (c, sizes, hook)
            self._omv_fuse = None

        def setup(self):
            c, sizes, hook = self._c24
            for s, v in comp_inputs(c):
                self.add_input(v, np.ones(sizes[v]))
            self.add_output(c['out'], np.zeros(sizes[c['out']]))

        def setup_partials(self):
            c, sizes, hook = self._c24
            o = c['out']
            ar = np.arange(sizes[o])
            self.declare_partials(o, o, rows=ar, cols=ar, val=1.0)
            self.declare_partials(o, c['u'], rows=ar, cols=ar)
            if c.get('v'):
                self.declare_partials(o, c['v'], val=-np.outer(np.asarray(c['c'], float), np.ones(sizes[c['v']])))
            if c.get('q'):
                self.declare_partials(o, c['q'], rows=ar, cols=ar, val=-1.0)

        _f = HComp._f

        def apply_nonlinear(self, inputs, outputs, residuals):
            c = self._c24[0]
            residuals[c['out']] = outputs[c['out']] - self._f(inputs)

        def solve_nonlinear(self, inputs, outputs):
            c, sizes, hook = self._c24
            if hook:
                hook('solve_nonlinear', c['name'], None)
            blow(self, 'compute')
            outputs[c['out']] = self._f(inputs)

        def linearize(self, inputs, outputs, partials):
            c, sizes, hook = self._c24
            if hook:
                hook('linearize', c['name'], None)
            blow(self, 'linearize')
            o = c['out']
            f = self._omv_fuse
            sing = f is not None and f['site'] == 'singular'
            if sing:
                f['fired'] = f.get('fired', 0) + 1
            partials[o, o] = np.zeros(sizes[o]) if sing else np.ones(sizes[o])
            partials[o, c['u']] = -(2.0 * np.asarray(c['a']) * inputs[c['u']] + np.asarray(c['b']))

        def solve_linear(self, d_outputs, d_residuals, mode):
            c = self._c24[0]
            blow(self, 'solve_linear')
            o = c['out']
            if mode == 'fwd':
                d_outputs[o] = d_residuals[o]
            else:
                d_residuals[o] = d_outputs[o]

    class HImpMf(HImp):
        def setup_partials(self):
            c, sizes, hook = self._c24
            o = c['out']
            self.declare_partials(o, o)
            for s, v in comp_inputs(c):
                self.declare_partials(o, v)

        def linearize(self, inputs, outputs, partials):
            c, sizes, hook = self._c24
            if hook:
                hook('linearize', c['name'], None)
            blow(self, 'linearize')

        def apply_linear(self, inputs, outputs, d_inputs, d_outputs, d_residuals, mode):
            c = self._c24[0]
            blow(self, 'apply_linear')
            o = c['out']
            if o not in d_residuals:
                return
            du = 2.0 * np.asarray(c['a']) * inputs[c['u']] + np.asarray(c['b'])
            if mode == 'fwd':
                if o in d_outputs:
                    d_residuals[o] += d_outputs[o]
                if c['u'] in d_inputs:
                    d_residuals[o] -= du * d_inputs[c['u']]
                if c.get('v') and c['v'] in d_inputs:
                    d_residuals[o] -= np.asarray(c['c']) * np.sum(d_inputs[c['v']])
                if c.get('q') and c['q'] in d_inputs:
                    d_residuals[o] -= d_inputs[c['q']]
            else:
                if o in d_outputs:
                    d_outputs[o] += d_residuals[o]
                if c['u'] in d_inputs:
                    d_inputs[c['u']] -= du * d_residuals[o]
                if c.get('v') and c['v'] in d_inputs:
                    d_inputs[c['v']] -= np.sum(np.asarray(c['c']) * d_residuals[o])
                if c.get('q') and c['q'] in d_inputs:
                    d_inputs[c['q']] -= d_residuals[o]

    return {'exp': HComp, 'fd': HComp, 'cs': HComp, 'mf': HMf, 'imp': HImp, 'impmf': HImpMf}


def _ln_solver(om, t):
    kw = dict(iprint=-1, err_on_non_converge=False, atol=1e-12, rtol=1e-12)
    if t == 'runonce':
        return om.LinearRunOnce()
    if t == 'direct':
        return om.DirectSolver(assemble_jac=False)
    if t == 'lnbgs':
        return om.LinearBlockGS(maxiter=60, **kw)
    if t == 'lnbj':
        return om.LinearBlockJac(maxiter=120, **kw)
    if t == 'krylov':
        return om.ScipyKrylov(maxiter=100, **kw)
    raise ValueError(t)


def _nl_solver(om, t):
    # atol = 1e-10: a run pruned by relevance (finite-difference runs of check_totals / approximated totals) cannot
    # reduce the residuals of the systems it skips; they stay at the level the previous full run converged to
    # (<= 1e-10).  With a smaller atol the pruned run would report non-convergence at round-off level.
    if t == 'runonce':
        return om.NonlinearRunOnce()
    if t == 'nlbgs':
        # use_apply_nonlinear: the residual vector then holds the true residuals (by default NLBGS leaves the last
        # change of the outputs there, which a component that approximates its partials by fd takes as baseline:
        # error = change / step in both twins - not this property's matter)
        return om.NonlinearBlockGS(iprint=-1, maxiter=100, atol=1e-10, rtol=1e-12, err_on_non_converge=False,
                                   use_apply_nonlinear=True)
    if t == 'newton':
        return om.NewtonSolver(iprint=-1, maxiter=30, atol=1e-10, rtol=1e-12, solve_subsystems=False,
                               err_on_non_converge=False)
    raise ValueError(t)


def build_hist(spec, hook=None):
    """Problem (ScipyOptimizeDriver SLSQP), design variables / responses declared, NOT set up.
    prob._omv_comps: {component name: instance}, prob._omv_groups: {group name: instance}."""
    import openmdao.api as om
    cls = _classes()
    sizes = spec['sizes']
    prob = om.Problem()
    prob.options['group_by_pre_opt_post'] = bool(spec['pre_opt_post'])
    m = prob.model
    srcs = spec['xs'] + (['p'] if spec['has_par'] else [])
    if spec['ivc'] == 'one':
        iv = m.add_subsystem('iv', om.IndepVarComp(), promotes=['*'])
        for x in srcs:
            iv.add_output(x, np.ones(sizes[x]))
    elif spec['ivc'] == 'per-var':
        for x in srcs:
            m.add_subsystem('iv_' + x, om.IndepVarComp(x, np.ones(sizes[x])), promotes=['*'])
    byname = {c['name']: c for c in spec['comps']}
    insts, groups = {}, {'': m}

    def add(parent, node):
        for ch in node['children']:
            if isinstance(ch, dict):
                g = parent.add_subsystem(ch['name'], om.Group(), promotes=['*'])
                groups[ch['name']] = g
                add(g, ch)
                g.linear_solver = _ln_solver(om, ch['ln'])
                g.nonlinear_solver = _nl_solver(om, ch['nl'])
                if ch.get('approx'):
                    a = ch['approx']
                    if a['method'] == 'fd':
                        g.approx_totals(method='fd', step=FD_STEP, form=a['form'], step_calc='abs')
                    else:
                        g.approx_totals(method='cs')
            else:
                c = byname[ch]
                klass = cls[c['impl']] if c['kind'] == 'el' else cls['exp']
                insts[ch] = parent.add_subsystem(ch, klass(c, sizes, hook), promotes=['*'])
    add(m, spec['root'])
    m.linear_solver = _ln_solver(om, spec['root']['ln'])
    m.nonlinear_solver = _nl_solver(om, spec['root']['nl'])
    ra = spec['root'].get('approx')
    if ra:
        if ra['method'] == 'fd':
            m.approx_totals(method='fd', step=FD_STEP, form=ra['form'], step_calc='abs')
        else:
            m.approx_totals(method='cs')
    bnd = dict(lower=-3.0, upper=3.0) if spec['opt'] else {}
    for d in spec['dvs']:
        kw = dict(bnd)
        if d['idx'] is not None:
            kw['indices'] = d['idx']
        m.add_design_var(d['name'], **kw)
    for r in spec['resps']:
        if r['kind'] == 'obj':
            if r['idx'] is not None:
                m.add_objective(r['name'], index=r['idx'][0])
            else:
                m.add_objective(r['name'])
        else:
            m.add_constraint(r['name'], upper=1e3)
    prob.driver = om.ScipyOptimizeDriver(optimizer='SLSQP', tol=1e-10, maxiter=40, disp=False)
    prob.driver.options['singular_jac_behavior'] = 'ignore'
    if ra and spec['root'].get('coloring'):
        prob.driver.declare_coloring(show_summary=False, show_sparsity=False)
    prob._omv_comps = insts
    prob._omv_groups = groups
    return prob


# =====================================================================================================
# histories
# =====================================================================================================
def _approx_members(spec):
    """names of the components that live below an approximated group (their linear hooks are never called)"""
    if spec['root'].get('approx'):
        return set(c['name'] for c in spec['comps'])
    out = set()
    for g in iter_groups(spec):
        if g.get('approx'):
            out |= set(group_members(g))
    return out


def comp_ancestors_ln(spec, cname):
    """linear solver types of the groups above a component, innermost first"""
    def rec(node, path):
        for ch in node['children']:
            if isinstance(ch, dict):
                r = rec(ch, [ch['ln']] + path)
                if r is not None:
                    return r
            elif ch == cname:
                return path
        return None
    return rec(spec['root'], [spec['root']['ln']])


def relevant_between(spec, of_names, wrt_names):
    """names of the components on a path from one of `wrt_names` to one of `of_names`"""
    dep = hist_deps(spec)
    anc = var_ancestors(spec)
    W = set(wrt_names)
    out = []
    for c in spec['comps']:
        o = c['out']
        if dep[o] & W and any(o == r or o in anc[r] for r in of_names):
            out.append(c['name'])
    return out


def _live_request(spec, of, wrt):
    """drop seeds without counterpart (dead seeds are another, known, mechanism); of / wrt: lists of names"""
    dep = hist_deps(spec)
    while True:
        w2 = [w for w in wrt if any(w in dep[o] for o in of)]
        o2 = [o for o in of if dep[o] & set(w2)]
        if w2 == wrt and o2 == of:
            return of, wrt
        of, wrt = o2, w2


def _explicit_request(rng, spec, must=None, around=None):
    """explicit of/wrt request; `around`: a design source that has to be among wrt; `must`: component that has to be
    relevant.  Responses declared with indices are left out (declared indices would apply)."""
    dep = hist_deps(spec)
    anc = var_ancestors(spec)
    byname = {c['name']: c for c in spec['comps']}
    banned = set(r['name'] for r in spec['resps'] if r['idx'] is not None)
    cands = [c['out'] for c in spec['comps'] if c['kind'] != 'par' and c['out'] not in banned and dep[c['out']]]
    xs = list(spec['xs'])
    if must is not None:
        mo = byname[must]['out']
        wpool = sorted(dep[mo])
        around = around or rng.choice(wpool)
        opool = [o for o in cands if o == mo or mo in anc[o]]
        if not opool:
            return None
    else:
        around = around or rng.choice(xs)
        opool = [o for o in cands if around in dep[o]]
        if not opool:       # its only dependent output is a response declared with indices
            around = [x for x in xs if any(x in dep[o] for o in cands)][0]
            opool = [o for o in cands if around in dep[o]]
    wrt = [around] + [x for x in xs if x != around and rng.random() < 0.3]
    of = [rng.choice(opool)] + [o for o in cands if rng.random() < 0.25]
    of = sorted(set(of), key=cands.index)
    wrt = sorted(set(wrt), key=xs.index)
    if rng.random() < 0.5:
        wrt.reverse()
    of, wrt = _live_request(spec, of, wrt)
    idx = {d['name']: d['idx'] for d in spec['dvs']}
    return {'op': 'totals', 'api': 'explicit', 'of': [{'name': o, 'idx': None} for o in of],
            'wrt': [{'name': w, 'idx': idx[w]} for w in wrt]}


def _driver_request(spec, api):
    nl = [r for r in spec['resps'] if r['kind'] == 'obj'] + [r for r in spec['resps'] if r['kind'] == 'con']
    return {'op': 'totals', 'api': api, 'of': [{'name': r['name'], 'idx': r['idx']} for r in nl],
            'wrt': [{'name': d['name'], 'idx': d['idx']} for d in spec['dvs']]}


def gen_history(rng, spec):
    """-> (steps, info).  steps: list of JSON-able dicts (see run_history)."""
    steps = [{'op': 'point', 'k': 0, 'only': None}, {'op': 'run_model'}, {'op': 'values'}]
    info = {}
    dep = hist_deps(spec)
    if spec['cls'] == 'seq':
        reqs = []
        xs = list(spec['xs'])
        rng.shuffle(xs)
        a = _explicit_request(rng, spec, around=xs[0])
        b = _explicit_request(rng, spec, around=xs[1])
        reqs = [a, b]
        sup = {'op': 'totals', 'api': 'explicit',
               'of': sorted(a['of'] + [o for o in b['of'] if o not in a['of']], key=lambda o: o['name']),
               'wrt': a['wrt'] + [w for w in b['wrt'] if w not in a['wrt']]}
        o2, w2 = _live_request(spec, [o['name'] for o in sup['of']], [w['name'] for w in sup['wrt']])
        sup['of'] = [o for o in sup['of'] if o['name'] in o2]
        sup['wrt'] = [w for w in sup['wrt'] if w['name'] in w2]
        reqs.append(sup)
        reqs.append(_driver_request(spec, 'problem'))
        if rng.random() < 0.6:
            reqs.append(_driver_request(spec, 'driver'))
        if rng.random() < 0.3 and not spec['root'].get('approx'):
            reqs.append(_driver_request(spec, 'check'))
        rng.shuffle(reqs)
        reqs.append(dict(reqs[0]) if rng.random() < 0.5 else dict(a))
        cut = rng.randint(1, len(reqs) - 1)
        info['first'] = reqs[0]['api']
        for i, r in enumerate(reqs):
            if i == cut and rng.random() < 0.6:
                steps += [{'op': 'point', 'k': 1, 'only': None}, {'op': 'run_model'}, {'op': 'values'}]
            steps.append(r)
        info['n_requests'] = len(reqs)
        return steps, info
    # ---------------- errpath ---------------------------------------------------------------------------
    apx = _approx_members(spec)
    drv_of = [r['name'] for r in spec['resps']]
    drv_wrt = [d['name'] for d in spec['dvs']]
    live = set(relevant_between(spec, drv_of, drv_wrt))
    byname = {c['name']: c for c in spec['comps']}
    cands = []          # (site, component or group)
    for c in spec['comps']:
        n = c['name']
        if spec['pre_opt_post'] and (c['kind'] == 'par' or c['dead']) and n not in apx:
            # a component outside the optimisation loop (pre: fed by a non-design source only; post: dead end)
            cands.append(('compute-prepost', n))
        if n not in live or c['kind'] == 'par':
            continue
        if n in apx:
            if c['kind'] == 'el':
                cands.append(('compute-in-approx', n))
            continue
        lns = comp_ancestors_ln(spec, n)
        if c['kind'] == 'el' and c['impl'] == 'mf':
            cands += [('jacvec', n)] * 3
        if c['kind'] == 'el' and c['impl'] in ('imp', 'impmf'):
            if lns[0] in ('runonce', 'lnbgs', 'lnbj'):
                cands += [('solve_linear', n)] * 2
            if 'direct' in lns and c['impl'] == 'imp':
                cands += [('singular', n)] * 3
            if c['impl'] == 'impmf':
                cands += [('apply_linear', n)] * 3
        if c['impl'] in ('exp', 'imp', 'impmf') and not (c['kind'] == 'el' and c.get('partner_of')):
            cands.append(('linearize', n))
        if c['kind'] == 'el':
            cands.append(('compute', n))
    if spec['cycle'] and spec['cycle'] in live and spec['cycle'] not in apx:
        cg = [g for g in iter_groups(spec) if g['name'] == (spec['cyc_group'] or '')][0]
        if cg['ln'] in ('lnbgs', 'lnbj'):
            cands += [('ln-maxiter', spec['cycle'])] * 8
    # per-seed linear hooks (the per-seed relevance context is the innermost one around them) get most of the weight
    cat = {'seed': [x for x in cands if x[0] in ('ln-maxiter', 'jacvec', 'solve_linear', 'apply_linear')],
           'lin': [x for x in cands if x[0] in ('linearize', 'singular')],
           'nl': [x for x in cands if x[0] == 'compute'],
           'pp': [x for x in cands if x[0] == 'compute-prepost'],
           'apx': [x for x in cands if x[0] == 'compute-in-approx']}
    order = rng.choice([['seed', 'lin', 'nl', 'apx']] * 11 + [['lin', 'seed', 'nl', 'apx']] * 4 +
                       [['nl', 'seed', 'lin', 'apx']] * 3 + [['apx', 'lin', 'seed', 'nl']] * 2)
    pick = [cat[k] for k in order if cat[k]][0]
    if cat['pp'] and rng.random() < 0.35:
        pick = cat['pp']
    site, cname = rng.choice(pick)
    c = byname[cname]
    fault = {'site': site, 'comp': cname, 'n': rng.choice([1, 1, 2]), 'exc': rng.choice(['analysis'] * 3 + ['runtime'])}
    if site == 'ln-maxiter':
        fault['group'] = spec['cyc_group'] or ''
    if site in ('compute', 'compute-prepost'):
        api = 'run_driver'
    else:
        api = rng.choice(['problem'] * 3 + ['explicit'] * 2 + ['driver'] * 2 + ['check', 'run_driver', 'run_driver'])
    if site in ('compute-in-approx', 'compute-prepost'):
        fault['site'] = 'compute'
    # warm-up: the fault does not hit the first derivative computation of the problem
    if rng.random() < 0.5:
        steps.append(_driver_request(spec, 'problem') if rng.random() < 0.5 else _explicit_request(rng, spec))
        info['warmup'] = True
    steps.append(dict(fault, op='arm'))
    if api == 'run_driver':
        fs = {'op': 'run_driver', 'fault': True}
    elif api == 'explicit':
        fs = dict(_explicit_request(rng, spec, must=cname) or _driver_request(spec, 'problem'), fault=True)
        if cname not in relevant_between(spec, [o['name'] for o in fs['of']], [w['name'] for w in fs['wrt']]):
            fs = dict(_driver_request(spec, 'problem'), fault=True)
    else:
        fs = dict(_driver_request(spec, api), fault=True)
    steps.append(fs)
    steps.append({'op': 'disarm'})
    info.update(site=site, api=fs.get('api', 'run_driver'), exc=fault['exc'])
    # position of the first seed that reaches the faulty component
    if spec['mode'] == 'fwd':
        order = [d['name'] for d in spec['dvs']]
        hit = [i for i, x in enumerate(order) if x in dep[c['out']]]
    else:
        anc = var_ancestors(spec)
        nl = [r for r in spec['resps'] if r['kind'] == 'obj'] + [r for r in spec['resps'] if r['kind'] == 'con']
        order = [r['name'] for r in nl]
        hit = [i for i, r in enumerate(order) if r == c['out'] or c['out'] in anc[r]]
    info['seedpos'] = 'none' if not hit else 'first' if hit[0] == 0 else 'last' if hit[0] == len(order) - 1 else 'middle'
    # recovery: other design variables move (those the faulty component does not depend on), sometimes all
    others = [x for x in spec['xs'] if x not in dep[c['out']]]
    only = others if (others and rng.random() < 0.65 and api != 'run_driver') else None
    info['moved'] = 'others' if only else 'all'
    steps += [{'op': 'point', 'k': 1, 'only': only}, {'op': 'run_model'}, {'op': 'values'},
              _driver_request(spec, 'problem')]
    if rng.random() < 0.5:
        steps.append(_driver_request(spec, 'driver'))
    if rng.random() < 0.5:
        steps.append(_explicit_request(rng, spec))
    if spec['opt']:
        steps += [{'op': 'run_driver'}, {'op': 'values'}, _driver_request(spec, 'problem')]
    elif rng.random() < 0.35:
        steps += [{'op': 'point', 'k': 2, 'only': None}, {'op': 'run_model'}, {'op': 'values'},
                  _driver_request(spec, 'problem')]
    return steps, info


def _blocks(Jd, of, wrt):
    return np.vstack([np.hstack([np.atleast_2d(np.asarray(Jd[o['name']][w['name']], dtype=float)) for w in wrt])
                      for o in of])


def run_history(prob, spec, steps, fmon=None):
    """Execute the steps on the (set up) problem.  -> (list of results, list of solver failure reports per step);
    results, one per step:
    None (nothing to record) | {'values': {var: array}} | {'J': matrix} | {'driver': {...}} | {'exc': exception};
    stops after the first exception of a step that is not marked `fault`."""
    import openmdao.api as om
    out = []
    armed = None
    saved = None
    outs = [c['out'] for c in spec['comps']]
    srcs = spec['xs'] + (['p'] if spec['has_par'] else [])
    nfail = []
    for st in steps:
        op = st['op']
        res = None
        nfail.append(len(fmon.failures) if fmon is not None else 0)
        try:
            if op == 'point':
                pt = spec['points'][st['k']]
                for n, v in pt.items():
                    if st['only'] is None or n in st['only']:
                        prob.set_val(n, np.asarray(v, float))
            elif op == 'run_model':
                prob.run_model()
            elif op == 'values':
                res = {'values': {n: np.array(prob.get_val(n), dtype=float).ravel() for n in srcs + outs}}
            elif op == 'arm':
                if st['site'] == 'ln-maxiter':
                    ls = prob._omv_groups[st['group']].linear_solver
                    saved = (ls, ls.options['maxiter'])
                    ls.options['maxiter'] = 2
                    ls.options['err_on_non_converge'] = True
                    armed = 'ln'
                else:
                    armed = prob._omv_comps[st['comp']]
                    armed._omv_fuse = {'site': st['site'], 'n': st['n'], 'exc': st['exc']}
            elif op == 'disarm':
                if armed == 'ln':
                    saved[0].options['maxiter'] = saved[1]
                    saved[0].options['err_on_non_converge'] = False
                    res = {'fired': None}
                elif armed is not None:
                    res = {'fired': armed._omv_fuse.get('fired', 0)}
                    armed._omv_fuse = None
                armed = None
            elif op == 'run_driver':
                r = prob.run_driver()
                res = {'driver': {'success': bool(getattr(r, 'success', not r)),
                                  'x': {x: np.array(prob.get_val(x), dtype=float).ravel() for x in spec['xs']},
                                  'iters': int(prob.driver.iter_count)}}
            elif op == 'totals':
                of = [o['name'] for o in st['of']]
                wrt = [w['name'] for w in st['wrt']]
                api = st['api']
                if api == 'explicit':
                    res = {'J': _blocks(prob.compute_totals(of=of, wrt=wrt, return_format='dict'), st['of'], st['wrt'])}
                elif api == 'problem':
                    res = {'J': _blocks(prob.compute_totals(return_format='dict'), st['of'], st['wrt'])}
                elif api == 'driver':
                    res = {'J': _blocks(prob.driver._compute_totals(return_format='dict'), st['of'], st['wrt'])}
                elif api == 'check':
                    data = prob.check_totals(out_stream=None)
                    Jd = {}
                    for (o, w), d in data.items():
                        J = d.get('J_fwd') if d.get('J_fwd') is not None else d.get('J_rev')
                        Jd.setdefault(o, {})[w] = J
                    res = {'J': _blocks(Jd, st['of'], st['wrt'])}
                else:
                    raise ValueError(api)
            else:
                raise ValueError(op)
        except Exception as e:      # noqa - the exception IS the observation
            res = {'exc': e}
            out.append(res)
            if not st.get('fault'):
                break
            continue
        out.append(res)
    nfail.append(len(fmon.failures) if fmon is not None else 0)
    while len(out) < len(steps):
        out.append(None)
    while len(nfail) < len(steps) + 1:
        nfail.append(nfail[-1])
    return out, [nfail[i + 1] - nfail[i] for i in range(len(steps))]
