"""C12 kit: harness components whose partial blocks are approximated with per-block options, the option
grid, the *documented* step-size semantics and the derived error bounds.

Documented semantics used by the oracle (openmdao docs: approximating_partial_derivatives.ipynb, docstrings of
Component.declare_partials / Problem.check_partials):
  form      forward (default): (f(x+h)-f(x))/h ; backward: (f(x)-f(x-h))/h ; central: (f(x+h)-f(x-h))/2h
  step      None -> 1e-6 for 'fd', 1e-40 for 'cs'
  step_calc abs (default): h = step
            rel / rel_avg   : h = step * mean(|x|)        ("average absolute value of the vector")
            rel_legacy      : h = step * ||x||_2          ("norm of the vector")
            rel_element     : h_j = step * |x_j|          ("absolute value of each vector element")
  minimum_step (default 1e-12): "minimum step size allowed when using one of the relative step_calc options"
"""
import numpy as np

from omv.gen.comps import HExplicit, HImplicit, HImplicitMF, _flat

EPS = float(np.finfo(float).eps)

FD_DEFAULT_STEP = 1e-6
CS_DEFAULT_STEP = 1e-40
DEFAULT_MIN_STEP = 1e-12


# ----------------------------------------------------------------------------------------------------------
# options
# ----------------------------------------------------------------------------------------------------------
def rand_opts(rng, method=None, rel=True, small_steps=True):
    """random approximation options (JSON-able dict; None entries are not passed to OpenMDAO)."""
    m = method or rng.choice(['fd', 'fd', 'fd', 'cs'])
    if m == 'cs':
        return {'method': 'cs', 'step': rng.choice([None, None, 1e-20, 1e-12, 1e-100])}
    steps = [None, 1e-3, 1e-4, 1e-5, 3e-6, 1e-6]
    if small_steps:
        steps += [1e-7, 1e-8]
    o = {'method': 'fd', 'form': rng.choice([None, 'forward', 'backward', 'central', 'central']),
         'step': rng.choice(steps)}
    sc = rng.choice([None, 'abs', 'rel', 'rel_avg', 'rel_element', 'rel_legacy']) if rel else \
        rng.choice([None, 'abs'])
    o['step_calc'] = sc
    if sc not in (None, 'abs'):
        o['minimum_step'] = rng.choice([None, None, 1e-9, 1e-6, 1e-4])
    return o


def decl_kwargs(o):
    """kwargs for declare_partials."""
    return {k: v for k, v in o.items() if v is not None}


def cell_of(o):
    if o['method'] == 'cs':
        return 'cs'
    return 'fd/%s/%s' % (o.get('form') or 'default', o.get('step_calc') or 'default')


def eff_form(o):
    return 'cs' if o['method'] == 'cs' else (o.get('form') or 'forward')


def doc_step(o, x):
    """documented step per element of the wrt vector x (flat, real) -> array like x."""
    x = np.abs(np.asarray(x, dtype=float).ravel())
    n = x.size
    if o['method'] == 'cs':
        return np.full(n, o.get('step') or CS_DEFAULT_STEP)
    step = o.get('step') or FD_DEFAULT_STEP
    sc = o.get('step_calc') or 'abs'
    ms = o.get('minimum_step')
    ms = DEFAULT_MIN_STEP if ms is None else ms
    if sc == 'abs':
        return np.full(n, step)
    if sc in ('rel', 'rel_avg'):
        return np.full(n, max(step * (x.sum() / n), ms))
    if sc == 'rel_legacy':
        return np.full(n, max(step * float(np.sqrt((x * x).sum())), ms))
    if sc == 'rel_element':
        return np.maximum(step * x, ms)
    raise ValueError(sc)


def expected_deltas(o, h):
    """set of perturbations the documented scheme applies to one entry, given its documented step h."""
    f = eff_form(o)
    if f == 'cs':
        return [1j * h]
    if f == 'forward':
        return [h]
    if f == 'backward':
        return [-h]
    return [h, -h]


def fd_bound(form, h, M, D, x, E, stale=0.0):
    """Entry-wise bound on |approximation - exact| for a block d f_i / d x_j.

    h (n,) documented step; M (m,n) bound on |d2 f_i/dx_j2| (and on |d3 f_i/dx_j3|: for c + A x + B sin x both
    are |B_ij|); D (m,n) exact derivative; x (n,) point; E (m,) absolute rounding error bound of ONE evaluation
    of f_i; stale (m,) inconsistency of the stored 'current' residual used by one-sided forms.

      truncation (Taylor, rigorous):  forward/backward  M h / 2 ;  central  M h^2 / 6
      round-off: two evaluations (2E), the perturbed abscissa fl(x+h) is off by <= eps(|x|+h) which changes the
      difference by |D| eps (|x|+h); everything divided by h.  Safety factor 4 on the round-off part only.
    """
    h = np.asarray(h, dtype=float)[None, :]
    M = np.abs(M)
    if form in ('forward', 'backward'):
        T = 0.5 * M * h
        st = np.asarray(stale, dtype=float) * np.ones(M.shape[0])
    else:
        T = M * h * h / 6.0
        st = np.zeros(M.shape[0])
    R = (2.0 * np.asarray(E)[:, None] + EPS * (np.abs(x)[None, :] + h) * np.abs(D) + st[:, None]) / h
    return T + 4.0 * R, T, R


def cs_bound(D):
    return 1e-11 * max(1.0, float(np.max(np.abs(D), initial=0.0)))


# ----------------------------------------------------------------------------------------------------------
# harness components
# ----------------------------------------------------------------------------------------------------------
class _C12Mixin:
    """cspec['c12'] = {'blocks': {'o|k': opts}, 'order': [keys], 'self': {'o': opts}, 'coloring': kwargs|None,
                    'xblocks': {'o|k': opts}}
    Blocks listed there are declared with method fd/cs and their own options; all others keep the G style."""

    def _c12(self):
        return self._omv_cs.get('c12') or {}

    def _omv_declare(self):
        cfg = self._c12()
        xblocks = cfg.get('xblocks') or {}     # uncolored approximated blocks beside a coloring (own method/options)
        blocks = dict(cfg.get('blocks', {}))
        blocks.update(xblocks)
        saved = self._omv_styles
        # 'matfree' style makes the parent declare nothing for that block
        self._omv_styles = {k: ('matfree' if k in blocks else v) for k, v in saved.items()}
        try:
            super()._omv_declare()
        finally:
            self._omv_styles = saved
        for key in sorted(xblocks):
            o, k = key.split('|')
            self.declare_partials(o, k, **decl_kwargs(xblocks[key]))
        if cfg.get('via_coloring_only'):
            return
        if cfg.get('predeclare'):
            # every (of, wrt) pair of the colored wrts gets the same options (declare_coloring declares all pairs)
            wrts, opts = cfg['predeclare']
            self.declare_partials('*', wrts, **decl_kwargs(opts))
            return
        for key in cfg.get('order') or sorted(cfg.get('blocks', {})):
            o, k = key.split('|')
            self.declare_partials(o, k, **decl_kwargs(blocks[key]))

    def _linearize(self, *args, **kwargs):
        # observation only: the state at which this component is linearized (the first one is where OpenMDAO
        # builds and caches its approximation data)
        if self._omv_hook:
            self._omv_hook('pre_linearize', self._omv_cs['name'],
                           ({k: np.array(self._inputs[k], dtype=float).ravel() for k in self._inputs},
                            {k: np.array(self._outputs[k], dtype=float).ravel() for k in self._outputs}))
        return super()._linearize(*args, **kwargs)

    def _c12_coloring(self):
        col = self._c12().get('coloring')
        if col:
            self.declare_coloring(**col)


class C12Explicit(_C12Mixin, HExplicit):
    def setup_partials(self):
        self._omv_declare()
        self._c12_coloring()


class _CsSafeSolve:
    def solve_nonlinear(self, inputs, outputs):
        cplx = any(np.iscomplexobj(inputs[k]) for k in inputs) or any(np.iscomplexobj(outputs[o])
                                                                      for o in self._omv_T)
        if not cplx:
            return super().solve_nonlinear(inputs, outputs)
        # complex-safe variant: the stopping test only sees the real part, so two further (exact) Newton
        # updates are made after it fires -> the imaginary part is converged as well
        if self._omv_hook:
            self._omv_hook('solve_nonlinear', self._omv_cs['name'], {k: np.array(inputs[k]) for k in inputs})
        f = self._omv_f(inputs)
        for o in self._omv_T:
            y = _flat(outputs[o]).astype(complex)
            extra = 0
            for _ in range(80):
                r = y + self._omv_beta * np.sin(y) - f[o]
                if np.max(np.abs(r)) < 1e-15:
                    extra += 1
                    if extra > 3:
                        break
                y = y - r / (1.0 + self._omv_beta * np.cos(y))
            outputs[o] = y.reshape(outputs[o].shape)


class C12ImplicitMF(_CsSafeSolve, HImplicitMF):
    """matrix-free implicit harness component with the complex-safe solve_nonlinear."""


class C12Implicit(_CsSafeSolve, _C12Mixin, HImplicit):
    def setup_partials(self):
        cfg = self._c12()
        self._omv_declare()
        selfb = cfg.get('self', {})
        for o in self._omv_T:
            if o in selfb:
                if not cfg.get('via_coloring_only') and not cfg.get('predeclare'):
                    self.declare_partials(o, o, **decl_kwargs(selfb[o]))
            else:
                n = self._omv_T[o]['c'].size
                self.declare_partials(o, o, rows=np.arange(n), cols=np.arange(n))
        self._c12_coloring()

    def apply_nonlinear(self, inputs, outputs, residuals):
        if self._omv_hook:
            self._omv_hook('apply_out', self._omv_cs['name'], {o: np.array(outputs[o]) for o in self._omv_T})
        super().apply_nonlinear(inputs, outputs, residuals)

    def linearize(self, inputs, outputs, partials):
        if self._omv_hook:
            self._omv_hook('linearize', self._omv_cs['name'], {k: np.array(inputs[k]) for k in inputs})
        self._omv_dry = {o: 1.0 + self._omv_beta * np.cos(_flat(outputs[o])) for o in self._omv_T}
        self._omv_fill_partials(inputs, partials, sign=-1.0)
        selfb = self._c12().get('self', {})
        for o in self._omv_T:
            if o not in selfb:
                partials[o, o] = self._omv_dry[o]


def comp_factory(c, hook):
    if c['kind'] == 'exp' and not c.get('matfree'):
        return C12Explicit(c, hook)
    if c['kind'] == 'imp':
        return C12ImplicitMF(c, hook) if c.get('matfree') else C12Implicit(c, hook)
    return None


# ----------------------------------------------------------------------------------------------------------
# pure NumPy evaluation of a component spec (independent of the harness component code paths under test)
# ----------------------------------------------------------------------------------------------------------
def comp_eval(c, xs, ys=None):
    """xs: {input: flat real array}; ys: {output: flat array} (implicit).  Returns per output:
    f (value of c + A x + B sin x), E (abs rounding bound of one evaluation of the residual/output)."""
    res = {}
    for oo in c['outputs']:
        o = oo['name']
        t = c['terms'][o]
        cc = np.asarray(t['c'], dtype=float)
        f = cc.copy()
        mag = np.abs(cc)
        nterm = 0
        for k, A in t['A'].items():
            A = np.asarray(A, dtype=float)
            f = f + A @ xs[k]
            mag = mag + np.abs(A) @ np.abs(xs[k])
            nterm += xs[k].size
        for k, B in t['B'].items():
            B = np.asarray(B, dtype=float)
            f = f + B @ np.sin(xs[k])
            mag = mag + np.abs(B).sum(axis=1)
            nterm += xs[k].size
        if ys is not None and o in ys:
            mag = mag + np.abs(ys[o]) * (1.0 + abs(c.get('beta', 0.0)))
        res[o] = {'f': f, 'E': (nterm + 8) * EPS * (mag + np.abs(f))}
    return res


def block_exact(c, o, k, x):
    """(D, M): exact d f_o / d x_k (sign of the OpenMDAO residual convention applied by the caller) and the
    bound M on its 2nd and 3rd derivative."""
    t = c['terms'][o]
    m = len(t['c'])
    n = x.size
    D = np.zeros((m, n))
    M = np.zeros((m, n))
    if k in t['A']:
        D = D + np.asarray(t['A'][k], dtype=float)
    if k in t['B']:
        B = np.asarray(t['B'][k], dtype=float)
        D = D + B * np.cos(x)[None, :]
        M = np.abs(B)
    return D, M
