"""Second model family for C07: true scalar (0-d) variables, mixes of 0-d / (1,) / array variables and dynamic shapes.

`omv/gen/models.py` never declares a variable with shape ().  OpenMDAO treats such variables on code paths of their
own (the source value read back from the vectors is a python float / 0-d array, not an array), so this kit generates
small feed-forward models in which every way of declaring a true scalar is used

  * IndepVarComp.add_output(shape=()), val=np.array(v) + shape=(), component option default_shape=() (IndepVarComp,
    ExecComp and ExplicitComponent),
  * ExecComp / ExplicitComponent inputs and outputs with shape (), (1,) and one array shape per model, mixed in one
    component,
  * unconnected inputs -> auto-IVC: single absolute inputs, inputs of several components promoted to one name with
    differing units (incl. offset units) + set_input_defaults(units=..., val=...),
  * connected inputs whose units differ from the source, () <-> (1,) connections, a 0-d / (1,) input reading one
    entry of an array source through src_indices (int or [k]),
  * dynamic shapes: shape_by_conn inputs (connected, or member of an auto-IVC tree next to a sized member or a
    set_input_defaults value), copy_shape / compute_shape outputs, chains of them,

and the reference `KitModel` (pure NumPy, unit table of omv/ref/flatmodel.py) with the FlatModel interface that the
Shadow store of the C07 check needs.  Every component computes  y_j = c_j + sum_i w_ji * T(x_i)  in the units of its
own variables, T = identity (equal shapes), broadcast (size-1 input) or sum (size-1 output of an array input).

Specs are JSON-able.  `build(spec)` imports openmdao; nothing else here does.
"""
import numpy as np

from omv.ref.flatmodel import FAMILIES, conv

A_SHAPES = [(2,), (3,), (4,), (2, 2), (1, 3), (3, 1), (2, 3)]


def _shape(spec, cls):
    return {'0d': (), '1': (1,), 'A': tuple(spec['A'])}[cls]


def _size(shape):
    return int(np.prod(shape)) if len(shape) else 1


# ------------------------------------------------------------------------------------------------------
# generator
# ------------------------------------------------------------------------------------------------------
def gen_spec(rng):
    fam = rng.choice(FAMILIES)
    # keep conversion factors within 1e6 of each other
    spec = {'family': 'scalar-kit', 'A': list(rng.choice(A_SHAPES)), 'fam': fam}

    def units(p_none=0.12):
        return None if rng.random() < p_none else rng.choice(fam)

    def cls(p0=0.5, p1=0.15):
        r = rng.random()
        return '0d' if r < p0 else ('1' if r < p0 + p1 else 'A')

    def val(c):
        n = _size(_shape(spec, c))
        v = [round(rng.uniform(-2, 2), 3) for _ in range(n)]
        return v[0] if c != 'A' else v

    def decl(c, default0d):
        if c == '0d':
            return rng.choice(['default', 'default', 'shape']) if default0d else rng.choice(['shape', 'shape', 'val0d'])
        if c == '1':
            return 'shape' if default0d else rng.choice(['plain', 'shape', 'val'])
        return rng.choice(['val', 'shape'])

    # ---- independent variables
    ivd = rng.random() < 0.4
    ivc = {'default_shape0d': ivd, 'promote': rng.random() < 0.5, 'outs': []}
    for k in range(rng.randint(1, 3)):
        c = cls()
        ivc['outs'].append({'name': 's%d' % k, 'cls': c, 'units': units(), 'val': val(c), 'decl': decl(c, ivd)})
    spec['ivc'] = ivc
    # ---- components
    ncomp = rng.randint(1, 3)
    has_g = rng.random() < 0.5
    spec['g'] = {'present': has_g, 'prom_out': rng.random() < 0.5, 'prom_in_all': rng.random() < 0.3}
    nparam = rng.randint(0, 2)
    params = [{'name': 'p%d' % k, 'cls': cls(0.4), 'members': [], 'unitless': rng.random() < 0.12}
              for k in range(nparam)]
    comps = []
    sources = [('iv', o['name'], o['cls'], False) for o in ivc['outs']]      # (comp, var, cls, dynamic)
    conns = []
    # (the components of g are consecutive, so that the execution order stays feed-forward)
    g_lo = rng.randrange(ncomp)
    g_hi = rng.randint(g_lo + 1, ncomp)
    for ci in range(ncomp):
        d0 = rng.random() < 0.4
        comp = {'name': 'c%d' % ci, 'kind': rng.choice(['exec', 'expl']), 'in_g': has_g and g_lo <= ci < g_hi,
                'default_shape0d': d0, 'prom_out': rng.random() < 0.5, 'prom_in_all': rng.random() < 0.35,
                'ins': [], 'outs': []}
        nin = rng.randint(1, 3)
        myparams = set()
        for ii in range(nin):
            r = rng.random()
            if params and r < 0.45:
                p = rng.choice(params)
                if p['name'] in myparams:
                    continue
                myparams.add(p['name'])
                u = None if p['unitless'] else rng.choice(fam)
                i = {'name': p['name'], 'cls': p['cls'], 'units': u, 'val': None, 'decl': decl(p['cls'], d0),
                     'dyn': None, 'param': p['name']}
                p['members'].append([comp['name'], i['name']])
                comp['ins'].append(i)
                continue
            name = 'c%d_x%d' % (ci, ii)
            if r < 0.5:
                # unconnected, not shared: auto-IVC behind a single input
                c = cls()
                i = {'name': name, 'cls': c, 'units': units(), 'val': val(c), 'decl': decl(c, d0), 'dyn': None,
                     'param': '@' + name}
                comp['ins'].append(i)
                continue
            sc, sv, scls, sdyn = rng.choice(sources)
            si = None
            if scls == 'A' and rng.random() < 0.35:
                c = rng.choice(['0d', '0d', '1'])
                n = _size(tuple(spec['A']))
                k = rng.randrange(-n, n)
                si = {'idx': k if rng.random() < 0.5 else [k], 'flat': len(spec['A']) > 1}
            elif scls == 'A':
                c = 'A'
            else:
                c = scls if rng.random() < 0.7 else ('1' if scls == '0d' else '0d')
            i = {'name': name, 'cls': c, 'units': units(), 'val': val(c), 'decl': decl(c, d0), 'dyn': None,
                 'param': None}
            if si is None and c == scls and rng.random() < 0.35:
                i['dyn'] = 'shape_by_conn'
            conns.append({'src': [sc, sv], 'tgt': [comp['name'], name], 'si': si})
            comp['ins'].append(i)
        if not comp['ins']:
            continue
        for oi in range(rng.randint(1, 2)):
            c = cls()
            o = {'name': 'c%d_y%d' % (ci, oi), 'cls': c, 'units': units(), 'val': val(c), 'decl': decl(c, d0),
                 'dyn': None, 'c': round(rng.uniform(-1, 1), 3),
                 'w': [round(rng.choice([-1, 1]) * rng.uniform(0.3, 1.5), 3) for _ in comp['ins']]}
            same = [i['name'] for i in comp['ins'] if i['cls'] == c]
            if same and rng.random() < 0.35:
                o['dyn'] = rng.choice(['copy_shape', 'compute_shape']) + ':' + rng.choice(same)
            comp['outs'].append(o)
            sources.append((comp['name'], o['name'], c, o['dyn'] is not None))
        comps.append(comp)
    spec['comps'] = comps
    spec['conns'] = conns
    # ---- auto-IVC parameters
    cmap = {c['name']: c for c in comps}
    out = []
    for p in params:
        if not p['members']:
            continue
        mem = [_find(cmap[c]['ins'], v) for c, v in p['members']]
        # a parameter of a group: all members in g and g does not promote it
        in_g = all(cmap[c]['in_g'] for c, _ in p['members'])
        p['g_level'] = in_g and rng.random() < 0.4
        us = set(m['units'] for m in mem)
        v0 = val(p['cls'])
        need = len(us) > 1
        # (0-d trees: how a shape_by_conn member of a 0-d auto-IVC tree is sized - OpenMDAO makes it (1,) - is a
        #  matter of shape resolution, not of set_val/get_val)
        if len(mem) > 1 and p['cls'] != '0d' and rng.random() < 0.7:
            k = rng.randrange(len(mem))
            mem[k]['dyn'] = 'shape_by_conn'
        static = [m for m in mem if m['dyn'] is None]
        d = None
        if need or not static or rng.random() < 0.35:
            d = {}
            if need or (not p['unitless'] and rng.random() < 0.6):
                d['units'] = rng.choice(fam)
            # (units without a value would leave it to OpenMDAO how the declared numbers of the members are
            #  re-interpreted in the new units: initial values are not this kit's subject)
            if need or not static or rng.random() < 0.6 or ('units' in d and d['units'] != mem[0]['units']):
                d['val'] = v0
                d['val0d'] = p['cls'] == '0d' and rng.random() < 0.5
            if not d:
                d = None
        p['defaults'] = d
        if len(static) < len(mem) and not (d and 'val' in d):
            # a shape_by_conn member starts as ones: without a set_input_defaults value the sized members must agree
            v0 = 1.0 if p['cls'] != 'A' else [1.0] * _size(_shape(spec, 'A'))
        if not need:
            for m in static:
                m['val'] = v0
        else:
            for m in static:
                m['val'] = val(p['cls'])
        p['units'] = d['units'] if d and 'units' in d else mem[0]['units']
        p['val'] = d['val'] if d and 'val' in d else v0
        p['has_dyn'] = any(m['dyn'] for m in mem)
        out.append(p)
    for c in comps:
        for i in c['ins']:
            if i['param'] and i['param'].startswith('@'):
                d = None
                # (set_input_defaults is given for the promoted name of the input only)
                if c['prom_in_all'] and rng.random() < 0.45 and i['units'] is not None:
                    d = {'units': rng.choice(fam)}
                    if rng.random() < 0.5 or d['units'] != i['units']:
                        d['val'] = val(i['cls'])
                        d['val0d'] = i['cls'] == '0d' and rng.random() < 0.5
                out.append({'name': i['param'], 'cls': i['cls'], 'members': [[c['name'], i['name']]],
                            'g_level': False, 'defaults': d, 'has_dyn': False, 'single': True,
                            'units': d['units'] if d else i['units'],
                            'val': d['val'] if d and 'val' in d else None})
    spec['params'] = out
    return spec


def _find(lst, name):
    for x in lst:
        if x['name'] == name:
            return x
    raise KeyError(name)


# ------------------------------------------------------------------------------------------------------
# names
# ------------------------------------------------------------------------------------------------------
def comp_path(spec, cname):
    if cname == 'iv':
        return 'iv'
    c = _find(spec['comps'], cname)
    return ('g.' if c['in_g'] else '') + cname


def abs_name(spec, cname, var):
    return comp_path(spec, cname) + '.' + var


def top_name(spec, cname, var, io):
    """Name of a variable in the root namespace (what connect / set_val at the problem level may use)."""
    if cname == 'iv':
        return var if spec['ivc']['promote'] else 'iv.' + var
    c = _find(spec['comps'], cname)
    g = spec['g']
    if io == 'out':
        glevel = var if c['prom_out'] else cname + '.' + var
        if not c['in_g']:
            return glevel
        # (a '*' of the group also matches the dotted names of what its components did not promote)
        return glevel if g['prom_out'] else 'g.' + glevel
    i = _find(c['ins'], var)
    shared = i['param'] is not None and not i['param'].startswith('@')
    by_comp = c['prom_in_all'] or shared
    glevel = var if by_comp else cname + '.' + var
    if not c['in_g']:
        return glevel
    if shared:
        p = _find(spec['params'], i['param'])
        return 'g.' + var if p['g_level'] else var
    if g['prom_in_all']:
        if g_promotes_inputs(spec) == ['*'] or by_comp:
            return glevel
    return 'g.' + glevel


def g_promotes_inputs(spec):
    """names that group g promotes to the root."""
    g = spec['g']
    if g['prom_in_all']:
        # everything but the parameters that stay at the level of g
        keep = [p['name'] for p in spec['params'] if p.get('g_level')]
        if not keep:
            return ['*']
        names = set()
        for c in spec['comps']:
            if not c['in_g']:
                continue
            for i in c['ins']:
                shared = i['param'] is not None and not i['param'].startswith('@')
                if (c['prom_in_all'] or shared) and i['name'] not in keep:
                    names.add(i['name'])
        return sorted(names)
    names = set()
    for p in spec['params']:
        if p.get('single') or p.get('g_level'):
            continue
        if any(_find(spec['comps'], c)['in_g'] for c, _ in p['members']):
            names.add(p['name'])
    return sorted(names)


# ------------------------------------------------------------------------------------------------------
# reference
# ------------------------------------------------------------------------------------------------------
class KitModel:
    """FlatModel-like reference of a kit spec (interface used by the C07 Shadow store)."""

    def __init__(self, spec):
        self.spec = spec
        self.out_shape, self.out_units = {}, {}
        self.param_names, self.state_names = [], []
        self.init = {}
        for o in spec['ivc']['outs']:
            self._slot('iv.' + o['name'], o, True)
        for p in spec['params']:
            mem = [self._in(c, v) for c, v in p['members']]
            shp = _shape(spec, p['cls'])
            v = p['val']
            if p['defaults'] is None or 'val' not in p['defaults']:
                # no set_input_defaults value: the (agreeing) declared values of the sized members, expressed in the
                # units of the promoted name
                m0 = [m for m in mem if m['dyn'] is None][0]
                fac, off = conv(m0['units'], p['units'])
                v = np.asarray(m0['val'], dtype=float) * fac + off
            self.out_shape[p['name']] = shp
            self.out_units[p['name']] = p['units']
            self.param_names.append(p['name'])
            self.init[p['name']] = np.broadcast_to(np.asarray(v, dtype=float).ravel(), (_size(shp),)).copy()
        self.soff = {}
        off = 0
        for c in spec['comps']:
            for o in c['outs']:
                nme = abs_name(spec, c['name'], o['name'])
                self._slot(nme, o, False)
                n = _size(_shape(spec, o['cls']))
                self.soff[nme] = (off, off + n)
                off += n
        self.nstate = off
        self.nparam = len(self.param_names)
        self.poff = {}
        off = 0
        for n in self.param_names:
            k = _size(self.out_shape[n])
            self.poff[n] = (off, off + k)
            off += k
        # source of every input: (slot, positions)
        self.in_src = {}
        for cn in spec['conns']:
            sc, sv = cn['src']
            slot = 'iv.' + sv if sc == 'iv' else abs_name(spec, sc, sv)
            self.in_src[tuple(cn['tgt'])] = (slot, cn['si'])
        for p in spec['params']:
            for c, v in p['members']:
                self.in_src[(c, v)] = (p['name'], None)

    def _in(self, c, v):
        return _find(_find(self.spec['comps'], c)['ins'], v)

    def _slot(self, nme, o, is_param):
        shp = _shape(self.spec, o['cls'])
        self.out_shape[nme] = shp
        self.out_units[nme] = o['units']
        (self.param_names if is_param else self.state_names).append(nme)
        # (a dynamically shaped output cannot declare a value: it starts as ones)
        v = 1.0 if o.get('dyn') else o['val']
        self.init[nme] = np.broadcast_to(np.asarray(v, dtype=float).ravel(), (_size(shp),)).copy()

    def positions(self, slot, si, shape):
        """flat slot positions seen by an input of `shape` (ndarray of that shape)."""
        n = _size(self.out_shape[slot])
        base = np.arange(n).reshape(self.out_shape[slot])
        if si is not None:
            idx = si['idx']
            sel = base.ravel()[idx] if (si['flat'] or base.ndim == 1) else base[idx]
            base = np.asarray(sel)
        return np.asarray(base).reshape(shape)

    def p0(self):
        return np.concatenate([self.init[n] for n in self.param_names]) if self.param_names else np.zeros(0)

    def u0(self):
        return np.concatenate([self.init[n] for n in self.state_names]) if self.state_names else np.zeros(0)

    def _get(self, nme, u, p):
        if nme in self.soff:
            a, b = self.soff[nme]
            return np.asarray(u[a:b], dtype=float)
        a, b = self.poff[nme]
        return np.asarray(p[a:b], dtype=float)

    def solve(self, p):
        spec = self.spec
        u = np.zeros(self.nstate)
        for c in spec['comps']:
            xs = []
            for i in c['ins']:
                slot, si = self.in_src[(c['name'], i['name'])]
                shp = _shape(spec, i['cls'])
                raw = self._get(slot, u, p)[self.positions(slot, si, shp)]
                fac, off = conv(self.out_units[slot], i['units'])
                xs.append(raw * fac + off)
            for o in c['outs']:
                shp = _shape(spec, o['cls'])
                y = np.full(shp, float(o['c']))
                for w, x in zip(o['w'], xs):
                    if x.shape == shp:
                        t = x
                    elif x.size == 1:
                        t = np.full(shp, float(x.ravel()[0]))
                    else:
                        t = np.full(shp, float(np.sum(x)))
                    y = y + w * t
                a, b = self.soff[abs_name(spec, c['name'], o['name'])]
                u[a:b] = np.ravel(y)
        return u, True


# ------------------------------------------------------------------------------------------------------
# addressable names (same records as omv.checks.c07_setget.addressable)
# ------------------------------------------------------------------------------------------------------
def addressable(spec, km):
    out = []

    def add(name, kind, slot, si, shape, units, dyn=False, canon=False, mech=None):
        pos = km.positions(slot, si, shape)
        su = km.out_units[slot]
        settable = not (su is None and units is not None)
        if mech is None:
            mech = '0d' if shape == () else ('1-on-0d-source' if km.out_shape[slot] == () else 'plain')
            if si is not None:
                mech = 'entry-of-array-' + ('0d' if shape == () else '1')
        out.append({'name': name, 'kind': kind, 'slot': slot, 'pos': pos, 'units': units, 'slot_units': su,
                    'settable': settable, 'indexed': si is not None, 'mech': mech, 'dyn': dyn, 'canon': canon})

    for o in spec['ivc']['outs']:
        a = 'iv.' + o['name']
        add(a, 'ivc-abs', a, None, _shape(spec, o['cls']), o['units'], canon=True)
        t = top_name(spec, 'iv', o['name'], 'out')
        if t != a:
            add(t, 'ivc-prom', a, None, _shape(spec, o['cls']), o['units'])
    pm = {p['name']: p for p in spec['params']}
    for c in spec['comps']:
        for o in c['outs']:
            a = abs_name(spec, c['name'], o['name'])
            dyn = o['dyn'] is not None
            add(a, 'state-abs', a, None, _shape(spec, o['cls']), o['units'], dyn=dyn, canon=True)
            t = top_name(spec, c['name'], o['name'], 'out')
            if t != a:
                add(t, 'state-prom', a, None, _shape(spec, o['cls']), o['units'], dyn=dyn)
    for p in spec['params']:
        if p.get('single'):
            continue
        c0, v0 = p['members'][0]
        mech = None
        if p['has_dyn'] and p['defaults'] and 'val' in p['defaults']:
            mech = 'dyn-tree-with-default-val'
        add(top_name(spec, c0, v0, 'in'), 'param-prom', p['name'], None, _shape(spec, p['cls']), p['units'],
            canon=True, mech=mech)
    for c in spec['comps']:
        for i in c['ins']:
            slot, si = km.in_src[(c['name'], i['name'])]
            a = abs_name(spec, c['name'], i['name'])
            shp = _shape(spec, i['cls'])
            dyn = i['dyn'] is not None
            if i['param']:
                p = pm[i['param']]
                mech = None
                if p['has_dyn'] and p['defaults'] and 'val' in p['defaults']:
                    mech = 'dyn-tree-with-default-val'
                if p.get('single'):
                    # the absolute (or once promoted) input is the only handle of its auto-IVC
                    t = top_name(spec, c['name'], i['name'], 'in')
                    add(a, 'param-abs-in', slot, None, shp, i['units'], dyn=dyn, canon=(t == a))
                    if t != a:
                        add(t, 'param-prom', slot, None, shp, p['units'], canon=True)
                else:
                    add(a, 'param-abs-in', slot, None, shp, i['units'], dyn=dyn, mech=mech)
                continue
            add(a, 'conn-abs-in', slot, si, shp, i['units'], dyn=dyn)
            t = top_name(spec, c['name'], i['name'], 'in')
            if t != a:
                add(t, 'conn-prom-in', slot, si, shp, i['units'], dyn=dyn)
    return out


def known_before_final_setup(spec, km):
    """slots whose value (and shape) exists right after setup()."""
    known = set('iv.' + o['name'] for o in spec['ivc']['outs'])
    for c in spec['comps']:
        for o in c['outs']:
            if o['dyn'] is None:
                known.add(abs_name(spec, c['name'], o['name']))
    for p in spec['params']:
        static = [1 for c, v in p['members'] if km._in(c, v)['dyn'] is None]
        if static or (p['defaults'] and 'val' in p['defaults']):
            known.add(p['name'])
    return known


def features(spec):
    """cells of the configuration grid a spec visits (for the monitor counters)."""
    f = set()
    allv = list(spec['ivc']['outs'])
    if spec['ivc']['default_shape0d']:
        f.add('decl=ivc-default_shape0d')
    for c in spec['comps']:
        allv += c['ins'] + c['outs']
        if c['default_shape0d']:
            f.add('decl=%s-default_shape0d' % c['kind'])
        for v in c['ins'] + c['outs']:
            if v['cls'] == '0d':
                f.add('0d-var=%s' % c['kind'])
            if v.get('dyn'):
                f.add('dyn=' + v['dyn'].split(':')[0])
        clss = set(v['cls'] for v in c['ins'] + c['outs'])
        if '0d' in clss and 'A' in clss:
            f.add('mix=0d+array-in-one-comp')
    for v in allv:
        if v['cls'] == '0d':
            f.add('decl0d=' + v['decl'])
    for cn in spec['conns']:
        if cn['si'] is not None:
            f.add('conn=entry-of-array')
    for p in spec['params']:
        if p['defaults']:
            f.add('defaults=' + '+'.join(sorted(k for k in p['defaults'] if k != 'val0d')))
        if p['has_dyn']:
            f.add('dyn=param-member' + ('+default-val' if p['defaults'] and 'val' in p['defaults'] else ''))
        if p['cls'] == '0d':
            f.add('param=0d')
    return f


# ------------------------------------------------------------------------------------------------------
# builder (imports openmdao)
# ------------------------------------------------------------------------------------------------------
def _decl_kwargs(spec, v, with_val=True):
    """keyword arguments of add_input / add_output / ExecComp metadata for variable v."""
    kw = {}
    if v['units'] is not None:
        kw['units'] = v['units']
    dyn = v.get('dyn')
    if dyn:
        kind, _, ref = dyn.partition(':')
        if kind == 'shape_by_conn':
            kw['shape_by_conn'] = True
        elif kind == 'copy_shape':
            kw['copy_shape'] = ref
        else:
            kw['compute_shape'] = _shape_of(ref)
        return kw
    shp = _shape(spec, v['cls'])
    val = v['val']
    if val is None:
        val = 1.0
    d = v['decl']
    if v['cls'] == 'A':
        if d == 'val':
            kw['val'] = np.asarray(val, dtype=float).reshape(shp)
        else:
            kw['shape'] = shp
            kw['val'] = np.asarray(val, dtype=float).reshape(shp)
    elif d == 'default' or d == 'plain':
        kw['val'] = float(val)
    elif d == 'shape':
        kw['shape'] = shp
        kw['val'] = float(val)
    elif d == 'val0d':
        kw['shape'] = shp
        kw['val'] = np.array(float(val))
    else:       # 'val' of a (1,) variable
        kw['val'] = np.array([float(val)])
    return kw


def _shape_of(ref):
    def compute_shape(shapes):
        return shapes[ref]
    return compute_shape


def _expr(spec, comp, o):
    terms = ['%r' % float(o['c'])]
    for w, i in zip(o['w'], comp['ins']):
        if i['cls'] == o['cls']:
            t = i['name']
        elif i['cls'] != 'A':
            # size-1 input: broadcasts; a (1,) input into a 0-d output must lose its axis
            t = i['name'] if (i['cls'] == '0d' or o['cls'] != '0d') else 'sum(%s)' % i['name']
        else:
            t = 'sum(%s)' % i['name']
        terms.append('%r*%s' % (float(w), t))
    return '%s = %s' % (o['name'], ' + '.join(terms))


def build(spec):
    import openmdao.api as om

    class KitComp(om.ExplicitComponent):
        def initialize(self):
            self.options.declare('omv_spec', recordable=False)
            self.options.declare('omv_comp', recordable=False)

        def setup(self):
            sp, c = self.options['omv_spec'], self.options['omv_comp']
            for i in c['ins']:
                self.add_input(i['name'], **_decl_kwargs(sp, i))
            for o in c['outs']:
                self.add_output(o['name'], **_decl_kwargs(sp, o))

        def compute(self, inputs, outputs):
            c = self.options['omv_comp']
            for o in c['outs']:
                shp = np.shape(outputs[o['name']])
                y = np.full(shp, float(o['c']))
                for w, i in zip(o['w'], c['ins']):
                    x = np.asarray(inputs[i['name']])
                    if x.shape == shp:
                        t = x
                    elif x.size == 1:
                        t = float(x.ravel()[0])
                    else:
                        t = float(np.sum(x))
                    y = y + w * t
                outputs[o['name']] = y

    prob = om.Problem()
    model = prob.model
    iv = spec['ivc']
    ivc = om.IndepVarComp(default_shape=()) if iv['default_shape0d'] else om.IndepVarComp()
    for o in iv['outs']:
        kw = _decl_kwargs(spec, o)
        v = kw.pop('val')
        ivc.add_output(o['name'], v, **kw)
    model.add_subsystem('iv', ivc, promotes_outputs=['*'] if iv['promote'] else None)
    g = None
    for c in spec['comps']:
        if c['in_g'] and g is None:
            g = om.Group()
            model.add_subsystem('g', g, promotes_inputs=g_promotes_inputs(spec) or None,
                                promotes_outputs=['*'] if spec['g']['prom_out'] else None)
        opts = {'default_shape': ()} if c['default_shape0d'] else {}
        if c['kind'] == 'exec':
            meta = {}
            for v in c['ins'] + c['outs']:
                meta[v['name']] = _decl_kwargs(spec, v)
            comp = om.ExecComp([_expr(spec, c, o) for o in c['outs']], **opts, **meta)
        else:
            comp = KitComp(omv_spec=spec, omv_comp=c, **opts)
        pin = ['*'] if c['prom_in_all'] else [i['name'] for i in c['ins']
                                               if i['param'] and not i['param'].startswith('@')]
        (g if c['in_g'] else model).add_subsystem(c['name'], comp, promotes_inputs=pin or None,
                                                  promotes_outputs=['*'] if c['prom_out'] else None)
    for cn in spec['conns']:
        s = top_name(spec, cn['src'][0], cn['src'][1], 'out')
        t = top_name(spec, cn['tgt'][0], cn['tgt'][1], 'in')
        if cn['si'] is None:
            model.connect(s, t)
        else:
            model.connect(s, t, src_indices=cn['si']['idx'], flat_src_indices=True if cn['si']['flat'] else None)
    for p in spec['params']:
        d = p['defaults']
        if not d:
            continue
        kw = {}
        if 'units' in d:
            kw['units'] = d['units']
        if 'val' in d:
            shp = _shape(spec, p['cls'])
            if p['cls'] == 'A':
                kw['val'] = np.asarray(d['val'], dtype=float).reshape(shp)
            elif p['cls'] == '1':
                kw['val'] = float(d['val'])
            else:
                kw['val'] = np.array(float(d['val'])) if d.get('val0d') else float(d['val'])
        c0, v0 = p['members'][0]
        t = top_name(spec, c0, v0, 'in')
        if p.get('g_level'):
            g.set_input_defaults(t[2:], **kw)
        else:
            model.set_input_defaults(t, **kw)
    return prob
