"""C29 kit: anchor call sequences on record decks (pure Python, does not import openmdao).

The round-trip part of omv/checks/c29_filewrap.py marks ONE anchor from a reset state in templates whose anchor
text occurs once per line.  Real wrappers step through repeated records with repeated mark_anchor() calls, and the
record keyword is routinely a prefix of other words of the same line ('GRID 3 GRID_X 0.0', 'x = x0').  This file
generates that dimension and holds the (set valued) location model the check judges it with:

  deck      3-9 lines of 2m tokens (m = 2..5): 'label' tokens and placeholder tokens alternate, so that on EVERY line
            the same field numbers are placeholders (a write can never destroy a label, whichever line it lands on).
            Labels of record lines carry the anchor text 1-3 times per line (and several times per token); anchor
            families: keyword that is a prefix / suffix / double of other labels, one-letter anchors, 'key key0',
            anchors made of regex-special characters (with decoy labels a regex would match but the text does not),
            self-overlapping anchors ('XX' in 'XXXXX', 'AbA' in 'AbAbA'), plain one-per-line anchors; a second anchor
            text on other lines or on the same line; text lines; anchors on the first / last line by chance.
  sequence  2..m steps: [reset_anchor()] mark_anchor(text, occurrence) transfer_var(value, row, field) - occurrence
            1, 2, 3, -1, -2, -3 or one that does not exist (both classes must raise), from a fresh and from an
            anchored state, same or other anchor text than the previous step, every step writes its own field number.

Location model (admissible()).  What the documentation fixes is modelled exactly; where it leaves room, BOTH
readings are admissible (the check then still demands that generator and parser agree, via the read back):
  * forward search, not anchored: n-th line from the top that contains the text;
  * forward search, anchored ('a forward search begins at the old anchor location', 'we still search the line, but
    only after the anchor'): n-th line BELOW the current one; if the current line contains the text - other than
    exactly once as the anchor that was just marked - a reading that counts the current line first is admissible too;
  * reverse search ('always start at the end of the file no matter the state of any previous anchor'): n-th line from
    the bottom; if anchored and the last line contains the text, the reading that skips the last line (what both
    classes do) is admissible too.
A landing line always contains the anchor text.
"""

NUMERIC_CHARS = set('0123456789.+-einfaINFN')      # characters a written number can consist of
PLACEHOLDERS = ['0.125', '9.75', '88', '-66', 'ph', '0.5', '3.0625']
PLACEHOLDER_VALUES = [0.125, 9.75, 88, -66, 0.5, 3.0625]
TEXTWORDS = ['this', 'is', 'a', 'comment', 'line', 'of', 'the', 'deck', 'v2', 'data', 'block']
PLAIN = ['SEC_A', 'SEC_B', 'INPUT', 'END']

REGEX_ANCHORS = [('N(1)', ['N1', 'N(2)']), ('a.b', ['aXb', 'a_b']), ('v[2]', ['v2', 'v[3]']), ('$K', ['K', 'SK']),
                 ('A+B', ['AAB', 'AB']), ('C*', ['CCC', 'C']), ('^top', ['top']), ('p|q', ['pq', 'q']),
                 ('w?', ['w', 'ww']), ('r{2}', ['rr', 'r2']), ('(', [')', 'O']), ('[x', ['x', 'lx']),
                 ('G.*D', ['GRID', 'GD']), ('k\\d', ['k5', 'kd'])]
OVERLAP_ANCHORS = [('XX', ['XX', 'XXX', 'XXXX', 'XXXXX', 'uXXXw'], ['X', 'uXw']),
                   ('abab', ['abab', 'ababab', 'abababab', 'cababab'], ['ab', 'aba']),
                   ('AbA', ['AbA', 'AbAbA', 'AbAbAbA'], ['Ab', 'bA'])]


def family(rng, mode):
    """-> (family name, anchor text, labels containing it, decoy labels)."""
    fam = rng.choice(['prefix', 'prefix', 'short', 'keyeq', 'regex', 'regex', 'overlap', 'plain'])
    if fam == 'prefix':
        b = rng.choice(['GRID', 'CQUAD4', 'SEC', 'NODE', 'MAT'])
        return fam, b, [b, b, b + '_X', b + '_Y', b + '2', 'S' + b, b + b], [b[:-1], b.lower(), b[0] + '_' + b[1:]]
    if fam == 'short':
        b = rng.choice(['x', 'K', 'y', 'T'])
        return fam, b, [b, b, b + '0', b + b, b + 'm' + b + 'u', 'mu' + b], ['u', 'W0']
    if fam == 'keyeq':
        b = rng.choice(['key', 'par', 'len'])
        return fam, b, [b, b, b + '0', b + '_b', b + b], [b[:-1] + '_', b.upper()]
    if fam == 'regex':
        while True:
            a, decoys = rng.choice(REGEX_ANCHORS)
            if '\\' in a and mode not in ('ws', 'ws-tab'):
                continue            # the parser documents a fixed symbol set for non-blank delimiters
            return fam, a, [a, a, a + '_X', 'L' + a, a + a, a + 'z' + a], decoys
    if fam == 'overlap':
        a, with_, decoys = rng.choice(OVERLAP_ANCHORS)
        return fam, a, with_, decoys
    a = rng.choice(PLAIN)
    return fam, a, [a], ['mesh', 'title']


def count_occ(line, text):
    """Number of non-overlapping occurrences, scanning from the left (own implementation)."""
    n, i = 0, line.find(text)
    while i >= 0:
        n += 1
        i = line.find(text, i + len(text))
    return n


def admissible(lines, state, text, occ):
    """Rows mark_anchor(text, occ) may land on from `state` = (row, anchored, last_text); None = not found."""
    row, anchored, last = state
    has = [i for i, ln in enumerate(lines) if text in ln]

    def pick(seq, k):
        if k > 0:
            return seq[k - 1] if k <= len(seq) else None
        return seq[k] if -k <= len(seq) else None

    if occ > 0:
        if not anchored:
            return {pick([i for i in has if i >= row], occ)}
        below = [i for i in has if i > row]
        out = {pick(below, occ)}
        c = count_occ(lines[row], text)
        if c > 1 or (c == 1 and text != last):
            out.add(pick([row] + below, occ))
        return out
    out = {pick(has, occ)}
    if anchored and has and has[-1] == len(lines) - 1:
        out.add(pick(has[:-1], occ))
    return out


def step_class(lines, state, text, occ):
    """Input class of one mark_anchor call (mechanism name)."""
    row, anchored, last = state
    d = 'fwd' if occ > 0 else 'bwd'
    if not anchored:
        return 'fresh-' + d
    rel = 'same' if text == last else 'other'
    if occ > 0:
        c = count_occ(lines[row], text)
        return 'anchored-fwd-%s-cur-%s' % (rel, '0' if c == 0 else ('1' if c == 1 else 'multi'))
    return 'anchored-bwd-%s-last-%s' % (rel, 'has' if text in lines[-1] else '0')


def gen_seq_case(rng, mode, seps, gen_value):
    """One deck + call sequence.  gen_value(rng) -> scalar value (the check's own value generator)."""
    while True:
        case = _gen(rng, mode, seps, gen_value)
        if case is not None:
            return case


def _join(rng, fields, seps):
    s = fields[0]
    for f in fields[1:]:
        s += rng.choice(seps) + f
    if rng.random() < 0.3:
        s = ' ' * rng.randrange(1, 4) + s
    return s


def _gen(rng, mode, seps, gen_value):
    fam, prim, with_, decoys = family(rng, mode)
    sec = rng.choice([a for a in PLAIN if a != prim])
    m = rng.randrange(2, 6)
    parity = rng.randrange(2)                    # label tokens sit at index % 2 == parity
    nlines = rng.randrange(3, 10)
    label_slots = [j for j in range(2 * m) if j % 2 == parity]
    fields = [j + 1 for j in range(2 * m) if j % 2 != parity]
    lines = []
    for i in range(nlines):
        r = rng.random()
        labels = [rng.choice(TEXTWORDS + decoys) for _ in label_slots]
        if r < 0.55:
            k = rng.choice([1, 1, 2, 2, 2, 3])
            for p in rng.sample(range(m), min(k, m)):
                labels[p] = rng.choice(with_)
            if rng.random() < 0.15:
                labels[rng.randrange(m)] = sec           # both anchor texts on one line
        elif r < 0.72:
            labels[rng.randrange(m)] = sec
        toks = [None] * (2 * m)
        for p, j in enumerate(label_slots):
            toks[j] = labels[p]
        for j in range(2 * m):
            if toks[j] is None:
                toks[j] = rng.choice(PLACEHOLDERS)
        lines.append(_join(rng, toks, seps))
    if sum(1 for ln in lines if prim in ln) < 2:
        return None
    anchors = [prim, sec]
    for a in anchors:
        if not (set(a) - NUMERIC_CHARS) or any(a in p for p in PLACEHOLDERS):
            return None

    def value():
        while True:
            v = gen_value(rng)
            if isinstance(v, str):
                if v in PLACEHOLDERS or any(a in v for a in anchors):
                    continue
            elif any(v == p for p in PLACEHOLDER_VALUES):
                continue
            return v

    nsteps = rng.randrange(2, m + 1) if m > 2 else 2
    fsel = rng.sample(fields, nsteps)
    states = {(0, False, None)}
    steps = []
    force_reset = False
    for s in range(nsteps):
        for _ in range(30):
            reset = force_reset or (s > 0 and rng.random() < 0.15)
            text = prim if rng.random() < 0.75 else sec
            occ = rng.choice([1] * 10 + [2] * 3 + [3] + [-1] * 3 + [-2] * 2 + [-3] + [7, -7])
            cur = {(0, False, None)} if reset else states
            res = set()
            for st in cur:
                res |= admissible(lines, st, text, occ)
            if res == {None}:
                if rng.random() < 0.5 or not steps:
                    continue
                steps.append({'reset': reset, 'text': text, 'occ': occ, 'missing': True})
                states = cur
                force_reset = True
                break
            if None in res:
                continue
            offs = [o for o in (-2, -1, 0, 1, 2) if all(0 <= r + o < nlines for r in res)]
            off = 0 if rng.random() < 0.6 else rng.choice(offs)
            steps.append({'reset': reset, 'text': text, 'occ': occ, 'missing': False, 'row': off,
                          'field': fsel[s], 'value': value()})
            states = {(r, True, text) for r in res}
            force_reset = False
            break
        else:
            break
    if sum(1 for st in steps if not st['missing']) < 2:
        return None
    return {'kind': 'seq', 'mode': mode, 'family': fam, 'lines': lines, 'steps': steps, 'm': m, 'parity': parity,
            'final_newline': rng.random() < 0.8}
