"""Build the OpenMDAO problem for a QP spec (see omv/ref/qpspec.py).  Used by C20, C21, C22.

The component is a plain ExplicitComponent with analytic partials, so every quantity has the closed
form the harness evaluates on its own; it logs every evaluation point (model units).
"""
import numpy as np

from omv.ref import affine as af


def _b(v):
    if v is None:
        return None
    return np.asarray(v, float) if isinstance(v, (list, tuple)) else float(v)


def make_comp(spec):
    import openmdao.api as om
    if spec.get('par'):
        return make_param_comp(spec)
    na, nb = spec['sizes']
    n = na + nb
    Q = np.asarray(spec['Q'], float).reshape(n, n)
    c = np.asarray(spec['c'], float)
    A = np.asarray(spec['A'], float).reshape(-1, n)
    b = np.asarray(spec['b'], float)
    m = A.shape[0]

    class QPComp(om.ExplicitComponent):
        def setup(self):
            self.evals = []
            self.add_input('xa', np.zeros(na), units=spec['xunits'][0])
            if nb:
                self.add_input('xb', np.zeros(nb), units=spec['xunits'][1])
            self.add_output('f', 0.0, units=spec['funits'])
            self.add_output('g', np.zeros(m), units=spec['gunits'])
            self.declare_partials('*', '*')

        def _z(self, inputs):
            return np.concatenate([inputs['xa'], inputs['xb']]) if nb else np.array(inputs['xa'])

        def compute(self, inputs, outputs):
            z = self._z(inputs)
            if z.dtype.kind != 'c':
                self.evals.append(z.copy())
            outputs['f'] = 0.5 * z @ Q @ z + c @ z
            outputs['g'] = A @ z + b

        def compute_partials(self, inputs, J):
            z = self._z(inputs)
            gf = Q @ z + c
            J['f', 'xa'] = gf[:na].reshape(1, na)
            J['g', 'xa'] = A[:, :na]
            if nb:
                J['f', 'xb'] = gf[na:].reshape(1, nb)
                J['g', 'xb'] = A[:, na:]

    return QPComp()


def make_param_comp(spec):
    """Component of a spec with a parameter (omv/ref/qphist.py):
    f = (1 + q1 p) 1/2 z'Qz + (c + p c1)'z,  g = (A + p B) z + b + p b1,  p a (non design) input.
    The data sit in `self.data` and can be replaced (`set_data`) before a re-setup with equal sizes."""
    import openmdao.api as om
    na, nb = spec['sizes']
    n = na + nb

    class QPParamComp(om.ExplicitComponent):
        def set_data(self, sp):
            par = sp['par']
            self.data = {'Q': np.asarray(sp['Q'], float).reshape(n, n), 'c': np.asarray(sp['c'], float),
                         'A': np.asarray(sp['A'], float).reshape(-1, n), 'b': np.asarray(sp['b'], float),
                         'B': np.asarray(par['B'], float).reshape(-1, n), 'c1': np.asarray(par['c1'], float),
                         'b1': np.asarray(par['b1'], float), 'q1': float(par['q1'])}

        def setup(self):
            self.evals = []
            m = self.data['A'].shape[0]
            self.add_input('xa', np.zeros(na), units=spec['xunits'][0])
            if nb:
                self.add_input('xb', np.zeros(nb), units=spec['xunits'][1])
            self.add_input('p', float(spec['par']['p']))
            self.add_output('f', 0.0, units=spec['funits'])
            self.add_output('g', np.zeros(m), units=spec['gunits'])
            self.declare_partials('*', '*')

        def _z(self, inputs):
            return np.concatenate([inputs['xa'], inputs['xb']]) if nb else np.array(inputs['xa'])

        def compute(self, inputs, outputs):
            d = self.data
            z = self._z(inputs)
            p = inputs['p'][0]
            if z.dtype.kind != 'c':
                self.evals.append(z.copy())
            outputs['f'] = (1.0 + d['q1'] * p) * 0.5 * (z @ d['Q'] @ z) + (d['c'] + p * d['c1']) @ z
            outputs['g'] = (d['A'] + p * d['B']) @ z + d['b'] + p * d['b1']

        def compute_partials(self, inputs, J):
            d = self.data
            z = self._z(inputs)
            p = inputs['p'][0]
            gf = (1.0 + d['q1'] * p) * (d['Q'] @ z) + d['c'] + p * d['c1']
            Ae = d['A'] + p * d['B']
            J['f', 'xa'] = gf[:na].reshape(1, na)
            J['g', 'xa'] = Ae[:, :na]
            if nb:
                J['f', 'xb'] = gf[na:].reshape(1, nb)
                J['g', 'xb'] = Ae[:, na:]
            J['f', 'p'] = d['q1'] * 0.5 * (z @ d['Q'] @ z) + d['c1'] @ z
            J['g', 'p'] = (d['B'] @ z + d['b1']).reshape(-1, 1)

    comp = QPParamComp()
    comp.set_data(spec)
    return comp


def set_options_kwargs(sc):
    """kwargs that make set_design_var_options / set_constraint_options / set_objective_options replace the
    scaling by `sc` (naming one pair clears the other; both None = no scaling)."""
    kw = af.scaling_kwargs(sc)
    return kw if kw else {'scaler': None, 'adder': None}


def build(spec, driver=None, setup=True, recorder=None):
    """-> (problem, comp).  x0 is set; final_setup is NOT called."""
    import openmdao.api as om
    p = om.Problem()
    comp = make_comp(spec)
    if spec.get('par') and spec['par'].get('ivc'):
        p.model.add_subsystem('ivc', om.IndepVarComp('p', float(spec['par']['p'])), promotes=['*'])
    p.model.add_subsystem('qp', comp, promotes=['*'])
    for d in spec['dvs']:
        p.model.add_design_var(d['name'], lower=_b(d.get('lower')), upper=_b(d.get('upper')),
                               indices=d.get('indices'), units=d.get('units'),
                               **af.scaling_kwargs(d.get('sc')))
    for cd in spec['cons']:
        kw = dict(lower=_b(cd.get('lower')), upper=_b(cd.get('upper')), equals=_b(cd.get('equals')),
                  indices=cd.get('indices'), units=cd.get('units'), linear=bool(cd.get('linear')))
        if cd.get('alias'):
            kw['alias'] = cd['alias']
        kw.update(af.scaling_kwargs(cd.get('sc')))
        p.model.add_constraint(cd['name'], **kw)
    o = spec['obj']
    p.model.add_objective('f', units=o.get('units'), **af.scaling_kwargs(o.get('sc')))
    if driver is not None:
        p.driver = driver
    if recorder is not None:
        p.driver.add_recorder(recorder)
    if setup:
        p.setup()
        set_z(p, spec, spec['x0'])
        if spec.get('par'):
            p.set_val('p', float(spec['par']['p']))
    return p, comp


def set_z(p, spec, z):
    na, nb = spec['sizes']
    z = np.asarray(z, float)
    p.set_val('xa', z[:na])
    if nb:
        p.set_val('xb', z[na:])


def get_z(p, spec):
    na, nb = spec['sizes']
    z = np.array(p.get_val('xa'), float).ravel()
    if nb:
        z = np.concatenate([z, np.array(p.get_val('xb'), float).ravel()])
    return z
