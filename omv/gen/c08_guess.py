"""C08 'guess' stratum: models whose converged root is selected by a user guess_nonlinear (group level, component
level, nested, root).  Every state solves cq*((x - v)**2 - s*a) = 0 elementwise, a > 0 coming from an
IndepVarComp (possibly through a unit conversion and with ref/ref0 on the source), so each entry has exactly two
roots v +- sqrt(s*a) and Newton (a scalar convex/concave iteration per entry, the states are not coupled) stays on
the side of the vertex v it is started from.  The guess puts every entry on a chosen side; the value given with
set_val is on the other side.  A guess that is handed scaled vectors (or whose written values are interpreted as
scaled) therefore shows both in what the guess *sees* and, for a large share of the scalings, in which root the
model converges to.

Pure description (JSON-able) is produced by gen_case(seed); build(case, scaled) makes the Problem and returns the
`seen` log the guesses append to.  Nothing here imports from the oracle side: the expected values are computed by
expected() from the description alone."""
import random

import numpy as np

# own unit table: (source units, target units, factor, offset)   target = (source + offset) * factor
UNITS = [
    (None, None, 1.0, 0.0),
    ('m', 'm', 1.0, 0.0),
    ('m', 'cm', 100.0, 0.0),
    ('km', 'm', 1000.0, 0.0),
    ('inch', 'ft', 1.0 / 12.0, 0.0),
    ('degC', 'degK', 1.0, 273.15),
    ('min', 's', 60.0, 0.0),
]
LEVELS = ['group', 'root', 'nested', 'comp', 'group+comp']
SOLVERS = ['newton', 'newton-subsolve', 'broyden']


def _r(x):
    return float('%.4g' % x)


def _arr(rng, n, lo, hi, signed=False):
    out = []
    for _ in range(n):
        v = _r(rng.uniform(lo, hi))
        if signed and rng.random() < 0.5:
            v = -v
        out.append(v)
    return out


def _scaling(rng, n):
    """random ref/ref0/res_ref for one output of size n; returns (dict, feature set)"""
    kw, feats = {}, set()
    form = rng.choice(['ref', 'ref0', 'ref+ref0', 'ref+ref0', 'ref+ref0+res_ref', 'res_ref', 'ref<ref0', 'neg-ref'])
    array = n > 1 and rng.random() < 0.5
    m = n if array else 1

    def mag():
        return 10.0 ** rng.uniform(-2, 2)
    if form in ('ref', 'ref+ref0', 'ref+ref0+res_ref'):
        kw['ref'] = [_r(mag()) for _ in range(m)]
    if form in ('ref0', 'ref+ref0', 'ref+ref0+res_ref'):
        kw['ref0'] = [_r(rng.uniform(-5, 5)) for _ in range(m)]
        if 'ref' in kw:
            kw['ref'] = [_r(r0 + (1 if rng.random() < 0.6 else -1) * mag()) for r0 in kw['ref0']]
    if form == 'ref<ref0':
        kw['ref0'] = [_r(rng.uniform(1, 6)) for _ in range(m)]
        kw['ref'] = [_r(r0 - mag()) for r0 in kw['ref0']]
    if form == 'neg-ref':
        kw['ref'] = [-_r(mag()) for _ in range(m)]
    if form in ('res_ref', 'ref+ref0+res_ref') or rng.random() < 0.2:
        kw['res_ref'] = [_r(mag()) for _ in range(m)]
    # guard: ref != ref0
    if 'ref' in kw and 'ref0' in kw:
        kw['ref'] = [r if abs(r - r0) > 1e-3 else _r(r0 + 1.0) for r, r0 in zip(kw['ref'], kw['ref0'])]
    if 'ref0' in kw and 'ref' not in kw:
        # ref defaults to 1: keep ref0 away from it
        kw['ref0'] = [r0 if abs(1.0 - r0) > 1e-3 else 2.5 for r0 in kw['ref0']]
    for k in kw:
        feats.add(k)
    if array:
        feats.add('array')
    r = kw.get('ref', [1.0] * m)
    r0 = kw.get('ref0', [0.0] * m)
    if any(a < b for a, b in zip(r, r0)):
        feats.add('ref<ref0')
    if any(a < 0 for a in r):
        feats.add('negative-ref')
    if not array:
        kw = {k: v[0] for k, v in kw.items()}
    return kw, feats


def gen_case(seed):
    rng = random.Random(seed * 13 + 5)
    level = LEVELS[seed % len(LEVELS)]
    solver = SOLVERS[(seed // len(LEVELS)) % len(SOLVERS)]
    nq = rng.choice([1, 2, 2, 3])
    if level == 'nested':
        nq = max(nq, 2)
    states = []
    for k in range(nq):
        shape = rng.choice([(), (1,), (2,), (3,), (2, 2)])
        if solver == 'broyden' and len(shape) > 1:
            shape = (4,)       # BroydenSolver with state_vars cannot handle a 2-D state (raises in get_vector)
        n = int(np.prod(shape)) if shape else 1
        src_u, tgt_u, fac, off = rng.choice(UNITS)
        a = _arr(rng, n, 1.0, 9.0)
        v = _arr(rng, n, 0.0, 4.0, signed=True)
        s = _r(rng.uniform(0.5, 3.0)) / max(fac, 1.0) if fac > 1 else _r(rng.uniform(0.5, 3.0))
        cq = [rng.choice([1.0, -2.0, 0.5]) for _ in range(n)]
        side = [rng.choice([-1.0, 1.0]) for _ in range(n)]
        gdist = _arr(rng, n, 0.3, 3.0)        # |guess - v|
        idist = _arr(rng, n, 0.3, 3.0)        # |initial - v|  (initial value is on the other side)
        st = dict(name='q%d' % k, shape=list(shape), n=n, src_units=src_u, tgt_units=tgt_u, fac=fac, off=off,
                  a=a, v=v, s=s, cq=cq, side=side, gdist=gdist, idist=idist)
        st['x_scal'], st['x_feats'] = {}, []
        st['a_scal'], st['a_feats'] = {}, []
        if rng.random() < 0.8:
            kw, f = _scaling(rng, n)
            st['x_scal'], st['x_feats'] = kw, sorted(f)
        if rng.random() < 0.4:
            kw, f = _scaling(rng, n)
            kw.pop('res_ref', None)
            st['a_scal'], st['a_feats'] = kw, sorted(x for x in f if x != 'res_ref')
        # which guess functions touch this state:  'comp' (its own), 'inner' (nested lower group), 'outer'
        states.append(st)
    if not any(st['x_scal'] for st in states):
        kw, f = _scaling(rng, states[0]['n'])
        states[0]['x_scal'], states[0]['x_feats'] = kw, sorted(f)
    # who writes the final guess of each state
    for k, st in enumerate(states):
        if level in ('group', 'root'):
            st['writers'] = ['outer']
        elif level == 'comp':
            st['writers'] = ['comp']
        elif level == 'group+comp':
            st['writers'] = ['comp', 'outer'] if k % 2 == 0 else ['comp']
        else:  # nested: inner writes all, outer overrides the odd ones
            st['writers'] = ['inner', 'outer'] if k % 2 == 1 else ['inner']
    # how the scaled twin is told about ref/ref0/res_ref of each state: add_output keywords, or
    # set_output_solver_options called on the component / the group holding it / the group with the solver / the root
    for st in states:
        st['route'] = rng.choice(['add_output', 'add_output', 'options@comp', 'options@holder', 'options@solver',
                                  'options@root'])
    return dict(seed=seed, kind='guess', level=level, solver=solver, states=states,
                reruns=rng.choice([0, 1, 1]))


# -----------------------------------------------------------------------------------------------------------
# expectations (from the description alone)
# -----------------------------------------------------------------------------------------------------------
def a_target(st):
    """value of the quad's input `a` in its own units"""
    return (np.asarray(st['a'], dtype=float) + st['off']) * st['fac']


def initial_x(st):
    return np.asarray(st['v']) - np.asarray(st['side']) * np.asarray(st['idist'])


def guess_x(st, writer):
    """value written by `writer`; earlier writers use a different distance so that an override is visible"""
    d = np.asarray(st['gdist']) * (1.0 if writer == st['writers'][-1] else 0.5)
    return np.asarray(st['v']) + np.asarray(st['side']) * d


def root_x(st):
    return np.asarray(st['v']) + np.asarray(st['side']) * np.sqrt(st['s'] * a_target(st))


def other_root_x(st):
    return np.asarray(st['v']) - np.asarray(st['side']) * np.sqrt(st['s'] * a_target(st))


def resid_at(st, x):
    return np.asarray(st['cq']) * ((np.asarray(x) - np.asarray(st['v'])) ** 2 - st['s'] * a_target(st))


# -----------------------------------------------------------------------------------------------------------
# the real model
# -----------------------------------------------------------------------------------------------------------
def build(case, scaled):
    """-> (prob, seen, paths)   seen: list of (writer, state name, dict(outputs=, inputs=, residuals=)) appended by the
    user guess functions in call order; paths: state name -> absolute path of the quad component"""
    import openmdao.api as om
    seen = []
    states = case['states']
    level = case['level']

    def shp(st):
        return tuple(st['shape']) if st['shape'] else ()

    def rs(st, v):
        return np.asarray(v, dtype=float).reshape(shp(st)) if st['shape'] else float(np.asarray(v).ravel()[0])

    def kwarr(st, kw):
        out = {}
        for k, v in kw.items():
            out[k] = np.asarray(v, dtype=float).reshape(shp(st)) if isinstance(v, list) else v
        return out

    class Quad(om.ImplicitComponent):
        def initialize(self):
            self.options.declare('st', types=dict)
            self.options.declare('with_guess', types=bool, default=False)

        def setup(self):
            st = self.options['st']
            n = st['n']
            kw = {}
            if st['tgt_units']:
                kw['units'] = st['tgt_units']
            if st['shape']:
                self.add_input('a', np.ones(shp(st)), **kw)
            else:
                self.add_input('a', 1.0, **kw)
            okw = kwarr(st, st['x_scal']) if (scaled and st['route'] == 'add_output') else {}
            if st['shape']:
                self.add_output('x', np.ones(shp(st)), **okw)
            else:
                self.add_output('x', 1.0, **okw)
            ar = np.arange(n)
            self.declare_partials('x', 'x', rows=ar, cols=ar)
            self.declare_partials('x', 'a', rows=ar, cols=ar)

        def apply_nonlinear(self, inputs, outputs, residuals):
            st = self.options['st']
            cq = np.asarray(st['cq']).reshape(np.shape(outputs['x']))
            v = np.asarray(st['v']).reshape(np.shape(outputs['x']))
            residuals['x'] = cq * ((outputs['x'] - v) ** 2 - st['s'] * inputs['a'])

        def linearize(self, inputs, outputs, J):
            st = self.options['st']
            cq = np.asarray(st['cq'])
            v = np.asarray(st['v'])
            J['x', 'x'] = cq * 2.0 * (np.asarray(outputs['x']).ravel() - v)
            J['x', 'a'] = -cq * st['s']

    class QuadG(Quad):
        def guess_nonlinear(self, inputs, outputs, residuals):
            st = self.options['st']
            seen.append(('comp', st['name'], dict(outputs=np.array(outputs['x'], dtype=float).ravel(),
                                                  inputs=np.array(inputs['a'], dtype=float).ravel(),
                                                  residuals=np.array(residuals['x'], dtype=float).ravel())))
            outputs['x'] = rs(st, guess_x(st, 'comp'))

    class GG(om.Group):
        def initialize(self):
            self.options.declare('writer', types=str)
            self.options.declare('prefix', types=str, default='')

        def guess_nonlinear(self, inputs, outputs, residuals):
            w = self.options['writer']
            pre = self.options['prefix']
            for st in states:
                nm = pre + st['name']
                seen.append((w, st['name'], dict(outputs=np.array(outputs[nm + '.x'], dtype=float).ravel(),
                                                 inputs=np.array(inputs[nm + '.a'], dtype=float).ravel(),
                                                 residuals=np.array(residuals[nm + '.x'], dtype=float).ravel())))
                if w in st['writers']:
                    outputs[nm + '.x'] = rs(st, guess_x(st, w))

    prob = om.Problem()
    if level == 'root':
        prob.model = GG(writer='outer', prefix='')
    model = prob.model
    ivc = model.add_subsystem('iv', om.IndepVarComp())
    for st in states:
        kw = {}
        if st['src_units']:
            kw['units'] = st['src_units']
        if scaled:
            kw.update(kwarr(st, st['a_scal']))
        ivc.add_output('a_' + st['name'], rs(st, st['a']), **kw)

    if level == 'root':
        holder, solver_sys, prefix = model, model, ''
    elif level == 'nested':
        g = model.add_subsystem('g', GG(writer='outer', prefix='h.'))
        holder = g.add_subsystem('h', GG(writer='inner', prefix=''))
        solver_sys, prefix = g, 'g.h.'
    elif level == 'comp':
        holder = solver_sys = model.add_subsystem('g', om.Group())
        prefix = 'g.'
    else:
        holder = solver_sys = model.add_subsystem('g', GG(writer='outer', prefix=''))
        prefix = 'g.'
    paths = {}
    for st in states:
        cls = QuadG if 'comp' in st['writers'] else Quad
        comp = holder.add_subsystem(st['name'], cls(st=st))
        paths[st['name']] = prefix + st['name']
        model.connect('iv.a_' + st['name'], prefix + st['name'] + '.a')
        if scaled and st['route'] != 'add_output' and st['x_scal']:
            kw = kwarr(st, st['x_scal'])
            where = st['route'].split('@')[1]
            if where == 'comp':
                comp.set_output_solver_options('x', **kw)
            elif where == 'holder':
                holder.set_output_solver_options(st['name'] + '.x', **kw)
            elif where == 'solver':
                rel = 'h.' if level == 'nested' else ''
                solver_sys.set_output_solver_options(rel + st['name'] + '.x', **kw)
            else:
                model.set_output_solver_options(prefix + st['name'] + '.x', **kw)

    sv = case['solver']
    if sv == 'broyden':
        nl = solver_sys.nonlinear_solver = om.BroydenSolver()
        # (at root level the IndepVarComp outputs would otherwise be treated as states and drift by round-off)
        rel = {'root': '', 'nested': 'h.'}.get(level, '')
        nl.options['state_vars'] = [rel + st['name'] + '.x' for st in states]
    else:
        nl = solver_sys.nonlinear_solver = om.NewtonSolver(solve_subsystems=(sv == 'newton-subsolve'))
    nl.options['maxiter'] = 100
    nl.options['atol'] = 1e-11
    nl.options['rtol'] = 1e-300
    nl.options['iprint'] = -1
    nl.options['err_on_non_converge'] = True
    solver_sys.linear_solver = om.DirectSolver()
    return prob, seen, paths
