"""C02 kit: (1) a second family of small models built around OpenMDAO's STOCK components whose linear operators are
matrix-free and / or cached between calls, and (2) the HISTORY every C02 model (G-models and stock models) is driven
through: the linearization point is moved step by step and every fwd / rev operator pair is judged at every step.

Stock family ("blocks", each u, p -> y, all arrays of one size n <= 3, values O(1)):

  jax-exp[-mf]   JaxExplicitComponent (matrix_free False / True)   y = sin(u) p + .5 k c cos(u)   [+ z = .5 u p + p]
  jax-imp[-mf]   JaxImplicitComponent (matrix_free False / True)   R = y^2 - p y - (1 + .5 k c sin(u)^2) [+ R_z = 3 z - y p]
                 (c: option reported by get_self_statics; k: discrete input, default 2, optional)
  expfunc        ExplicitFuncComp (partials cs / jax)              y = u p + .5 cos(u)
  impfunc        ImplicitFuncComp (partials cs / jax)              R = y^2 + sin(u) y - (2 + p^2)
  impfunc-sl     ImplicitFuncComp with solve_nonlinear, linearize and solve_linear callbacks (linearize hands a
                 cached inverse diagonal to solve_linear), same residual
  exec           ExecComp                                          y = sin(u) p + .4 u
  balance        Group[ExecComp lhs = x^2 + sin(u) x ; BalanceComp lhs = 2 + p^2], Newton + DirectSolver
  linsys         Group[ExplicitFuncComp A = M0 + .1 outer(sin u, p), b = 1 + p ; LinearSystemComp]
  mm-unstruct    MetaModelUnStructuredComp (ResponseSurface / KrigingSurrogate), vec_size n
  mm-struct      MetaModelStructuredComp (slinear / cubic / akima, extrapolate), vec_size n

  ivc(a, p) -> b0 -> b1 [-> b2] -> post (ExecComp f = y^2 + 3 y + .5 z); the quadratic residuals have two roots of
  opposite side of their vertex, everywhere |dR/dy| >= 1 in the visited domain (see `move`), so every linear system
  the models pose is well conditioned at every visited point, converged or not.

Moves (the history dimension; `MOVES`), applied identically to the fwd-mode and the rev-mode twin:

  states-set   set_val on the implicit states (G-models: on all component outputs), nothing is re-run: inputs stay
               bit-identical, the linearization point moves in the outputs only
  new-guess    states perturbed, run_model: the solvers move the states back to the (same) root
  other-root   (stock) the guess of the multi-root states is reflected over the vertex of the quadratic, run_model
               converges to the OTHER root; the inputs of the first such component stay bit-identical
  one-iter     states perturbed, every nonlinear solver limited to ONE iteration, run_model: not converged
  inputs-only  new values for the independent variables, model.run_apply_nonlinear(): the transfers move the inputs,
               no output changes
  both         new values for the independent variables, run_model
  relin        nothing moves; the operators are linearized again (and the total product is also taken with
               linearize=False)
  statics      (stock, jax blocks) an option that compute_primal reads and get_self_statics() reports is changed
  discrete     (stock, jax blocks with a discrete input) the discrete input that compute_primal reads is changed

This file only BUILDS and MOVES; the dot-product oracle is in omv/checks/c02_adjoint.py.
"""
import numpy as np

MOVES_G = ['states-set', 'new-guess', 'one-iter', 'inputs-only', 'both', 'relin']
MOVES_STOCK = ['states-set', 'other-root', 'one-iter', 'inputs-only', 'both', 'relin', 'statics', 'discrete',
               'new-guess']

KINDS = ['jax-exp-mf', 'jax-exp', 'jax-imp-mf', 'jax-imp', 'expfunc', 'impfunc', 'impfunc-sl', 'exec', 'balance',
         'linsys', 'mm-unstruct', 'mm-struct']
JAX_KINDS = ['jax-exp-mf', 'jax-exp', 'jax-imp-mf', 'jax-imp']
MULTI_ROOT = ['jax-imp-mf', 'jax-imp', 'impfunc', 'impfunc-sl', 'balance']
# component classes the REQUIRED counters of the check are named after
CLASS_OF = {'jax-exp-mf': 'JaxExplicitComponent/matrix_free', 'jax-exp': 'JaxExplicitComponent/assembled',
            'jax-imp-mf': 'JaxImplicitComponent/matrix_free', 'jax-imp': 'JaxImplicitComponent/assembled',
            'expfunc': 'ExplicitFuncComp', 'impfunc': 'ImplicitFuncComp', 'impfunc-sl': 'ImplicitFuncComp/solve_linear',
            'exec': 'ExecComp', 'balance': 'BalanceComp', 'linsys': 'LinearSystemComp',
            'mm-unstruct': 'MetaModelUnStructuredComp', 'mm-struct': 'MetaModelStructuredComp'}

A_RANGE = (0.2, 1.0)
P_RANGE = (0.2, 1.0)
DELTA = 0.3          # largest perturbation of a state


# ------------------------------------------------------------------------------------------------------------------
# spec
# ------------------------------------------------------------------------------------------------------------------
def gen_stock_spec(rng, lead=None):
    """-> JSON-able spec of one stock model + its history.  `lead` forces the kind of one block (coverage grid)."""
    n = rng.choice([1, 2, 3])
    nb = rng.choice([2, 2, 3])
    kinds = []
    for i in range(nb):
        r = rng.random()
        if r < 0.45:
            kinds.append(rng.choice(JAX_KINDS))
        elif r < 0.7:
            kinds.append(rng.choice(['impfunc', 'impfunc-sl', 'balance', 'linsys']))
        else:
            kinds.append(rng.choice(['expfunc', 'exec', 'mm-unstruct', 'mm-struct']))
    if lead is not None:
        kinds[rng.randrange(min(2, nb))] = lead
    blocks = []
    for i, k in enumerate(kinds):
        b = {'kind': k, 'name': 'b%d' % i}
        if k in JAX_KINDS:
            b['use_jit'] = rng.random() < 0.15
            b['two'] = rng.random() < 0.4
            b['disc'] = rng.random() < 0.5
            b['c'] = round(rng.uniform(0.5, 1.2), 3) if 'imp' in k else round(rng.uniform(0.2, 0.6), 3)
        if k in ('expfunc', 'impfunc'):
            b['method'] = rng.choice(['cs', 'cs', 'jax'])
        if k == 'exec':
            b['diag'] = rng.random() < 0.5
        if k == 'mm-unstruct':
            b['surrogate'] = rng.choice(['rs', 'kriging'])
        if k == 'mm-struct':
            b['method'] = rng.choice(['slinear', 'cubic', 'akima'])
        if k in MULTI_ROOT:
            b['side'] = rng.choice([1, -1])       # which root the first run converges to
        blocks.append(b)
    has_mf = any(k.endswith('-mf') for k in kinds)
    # who owns the solvers: 'own' the implicit components themselves (flat model); 'group' a Newton solver on a
    # sub-group g holding all blocks; 'own-in-group' as 'own' but inside a sub-group g that has its own linear
    # solver (masked apply_linear scopes, inputs of g fed from outside)
    cfg = rng.choice(['own', 'own-in-group', 'group'])
    lins = ['direct-noasm', 'krylov'] + ([] if has_mf else ['direct-asm', 'direct-asm'])
    spec = {'family': 'stock', 'n': n, 'blocks': blocks, 'cfg': cfg,
            'a': [round(rng.uniform(*A_RANGE), 3) for _ in range(n)],
            'p': [round(rng.uniform(*P_RANGE), 3) for _ in range(n)]}
    for b in blocks:
        if b['kind'] in ('jax-imp-mf', 'jax-imp', 'impfunc'):
            # solvers owned by the component (cfg 'own'); a matrix-free component cannot be assembled
            mf = b['kind'].endswith('-mf')
            b['ln'] = rng.choice(['direct-noasm', 'krylov'] if mf else ['direct-asm', 'direct-asm', 'direct-noasm',
                                                                       'krylov'])
    if cfg == 'group':
        spec['g_nl'] = {'solve_subsystems': rng.random() < 0.5}
        spec['g_ln'] = rng.choice(lins)
        spec['root_ln'] = rng.choice(['runonce', 'runonce', 'lnbgs', 'krylov', 'direct-noasm'] +
                                     ([] if has_mf else ['direct-asm']))
    else:
        spec['root_ln'] = rng.choice(['runonce', 'lnbgs', 'krylov', 'direct-noasm'] +
                                     ([] if has_mf else ['direct-asm', 'direct-asm']))
        if cfg == 'own-in-group':
            spec['g_ln'] = rng.choice(['runonce', 'lnbgs', 'lnbgs', 'krylov', 'direct-noasm'] +
                                      ([] if has_mf else ['direct-asm']))
    spec['asm_type'] = rng.choice(['dense', 'csc'])
    spec["rhs_checking"] = rng.random() < 0.4
    moves = [m for m in MOVES_STOCK if m != 'statics' or any(k in JAX_KINDS for k in kinds)]
    if not any(b.get('disc') for b in blocks):
        moves.remove('discrete')
    if not any(k in MULTI_ROOT for k in kinds):
        moves.remove('other-root')
    rng.shuffle(moves)
    # the two moves that leave the inputs bit-identical come early in every second case: the first reverse
    # product after them meets whatever the operators cached at the first point
    if rng.random() < 0.5:
        first = [m for m in moves if m in ('states-set', 'other-root')]
        moves = first + [m for m in moves if m not in first]
    spec['moves'] = moves
    return spec


def stock_classes(spec):
    return sorted(set(CLASS_OF[b['kind']] for b in spec['blocks']))


# ------------------------------------------------------------------------------------------------------------------
# component classes / functions (created once per process: jax traces per function object)
# ------------------------------------------------------------------------------------------------------------------
_CACHE = {}


def _jax_classes():
    if 'jax' in _CACHE:
        return _CACHE['jax']
    import openmdao.api as om
    import jax.numpy as jnp

    def make(implicit, two, disc):
        base = om.JaxImplicitComponent if implicit else om.JaxExplicitComponent

        class C(base):
            def initialize(self):
                self.options.declare('n', types=int, default=1)
                self.options.declare('c', types=float, default=0.3)

            def get_self_statics(self):
                return (self.options['c'],)

            def setup(self):
                n = self.options['n']
                self.add_input('u', shape=(n,))
                self.add_input('p', shape=(n,))
                if disc:
                    self.add_discrete_input('k', val=2)
                if implicit:
                    self.add_output('y', val=np.full(n, 2.0))
                    if two:
                        self.add_output('z', val=np.full(n, 0.5))
                else:
                    self.add_output('y', shape=(n,))
                    if two:
                        self.add_output('z', shape=(n,))

        # compute_primal must have an explicit signature (continuous inputs, [states,] discrete inputs)
        if implicit:
            def r_y(self, u, p, y, k):
                return y ** 2 - p * y - (1.0 + 0.5 * k * self.options['c'] * jnp.sin(u) ** 2)
            if two and disc:
                def compute_primal(self, u, p, y, z, k):
                    return r_y(self, u, p, y, k), 3.0 * z - y * p
            elif two:
                def compute_primal(self, u, p, y, z):
                    return r_y(self, u, p, y, 2), 3.0 * z - y * p
            elif disc:
                def compute_primal(self, u, p, y, k):
                    return r_y(self, u, p, y, k)
            else:
                def compute_primal(self, u, p, y):
                    return r_y(self, u, p, y, 2)
        else:
            def f_y(self, u, p, k):
                return jnp.sin(u) * p + 0.5 * k * self.options['c'] * jnp.cos(u)
            if two and disc:
                def compute_primal(self, u, p, k):
                    return f_y(self, u, p, k), 0.5 * u * p + p
            elif two:
                def compute_primal(self, u, p):
                    return f_y(self, u, p, 2), 0.5 * u * p + p
            elif disc:
                def compute_primal(self, u, p, k):
                    return f_y(self, u, p, k)
            else:
                def compute_primal(self, u, p):
                    return f_y(self, u, p, 2)
        C.compute_primal = compute_primal
        C.__name__ = C.__qualname__ = 'Jax%s%s%s' % ('Imp' if implicit else 'Exp', '2' if two else '',
                                                     'D' if disc else '')
        return C

    _CACHE['jax'] = {(i, t, d): make(i, t, d) for i in (False, True) for t in (False, True) for d in (False, True)}
    return _CACHE['jax']


def _f_exp(u, p):
    y = u * p + 0.5 * np.cos(u)
    return y


def _f_exp_jax(u, p):
    import jax.numpy as jnp
    y = u * p + 0.5 * jnp.cos(u)
    return y


def _r_imp(u, p, y):
    R_y = y ** 2 + np.sin(u) * y - (2.0 + p ** 2)
    return R_y


def _r_imp_jax(u, p, y):
    import jax.numpy as jnp
    R_y = y ** 2 + jnp.sin(u) * y - (2.0 + p ** 2)
    return R_y


def _sl_solve_nl(u, p, y):
    # closed form; the side of the vertex the current guess is on picks the root
    s = np.sin(u)
    d = np.sqrt(s ** 2 + 4.0 * (2.0 + p ** 2))
    side = np.where(np.asarray(y) + 0.5 * s >= 0.0, 1.0, -1.0)
    y = 0.5 * (-s + side * d)
    return y


def _sl_linearize(u, p, y, partials):
    partials['y', 'u'] = np.cos(u) * y
    partials['y', 'p'] = -2.0 * p
    partials['y', 'y'] = 2.0 * y + np.sin(u)
    return 1.0 / (2.0 * y + np.sin(u))


def _sl_solve_linear(d_y, mode, inv_diag):
    return inv_diag * d_y


def _f_mkA(u, p):
    n = np.size(u)
    M0 = 2.0 * np.eye(n) + 0.2 * (np.arange(n * n).reshape(n, n) % 3 - 1.0) * (1.0 - np.eye(n))
    A = M0 + 0.1 * np.outer(np.sin(u), p)
    b = 1.0 + p
    return A, b


def _f_true(u, p):
    return np.sin(u) * p + 0.3 * u


# ------------------------------------------------------------------------------------------------------------------
# building
# ------------------------------------------------------------------------------------------------------------------
def _lin(om, t, mf, rhs_checking=False):
    if t == 'runonce':
        return om.LinearRunOnce()
    if t == 'lnbgs':
        return om.LinearBlockGS(iprint=-1, err_on_non_converge=False, atol=1e-14, rtol=1e-14, maxiter=12)
    if t == 'krylov':
        return om.ScipyKrylov(iprint=-1, err_on_non_converge=False, atol=1e-14, rtol=1e-14, maxiter=200,
                              rhs_checking=rhs_checking)
    if t == 'direct-noasm':
        return om.DirectSolver(assemble_jac=False, rhs_checking=rhs_checking)
    if t == 'direct-asm':
        return om.DirectSolver(assemble_jac=not mf, rhs_checking=rhs_checking)
    raise ValueError(t)


def _newton(om, solve_subsystems=False):
    nl = om.NewtonSolver(solve_subsystems=solve_subsystems, iprint=-1, err_on_non_converge=False, atol=1e-13,
                         rtol=1e-14, maxiter=40)
    if solve_subsystems:
        nl.options['max_sub_solves'] = 10
    nl.linesearch = None
    return nl


def build_stock(spec):
    """-> (Problem (not set up), info) ; info: states [(abs name, block index, multi_root)], statics comps ..."""
    import openmdao.api as om
    import openmdao.func_api as omf
    n = spec['n']
    own = spec['cfg'] != 'group'
    wrap = spec['cfg'] != 'own'
    rc = bool(spec.get('rhs_checking'))     # reverse-mode solution caches (keyed on the right-hand side)
    prob = om.Problem()
    root = prob.model
    ivc = root.add_subsystem('ivc', om.IndepVarComp())
    ivc.add_output('a', np.array(spec['a'], dtype=float))
    ivc.add_output('p', np.array(spec['p'], dtype=float))
    parent = root
    pre = ''
    if wrap:
        parent = root.add_subsystem('g', om.Group())
        pre = 'g.'
    info = {'states': [], 'statics': [], 'discretes': [], 'guess': [], 'paths': {}, 'zs': []}
    for i, b in enumerate(spec['blocks']):
        k, nm = b['kind'], b['name']
        path = pre + nm
        info['paths'][nm] = path
        if k in ('jax-exp-mf', 'jax-exp'):
            cls = _jax_classes()[(False, bool(b['two']), bool(b.get('disc')))]
            if b.get('disc'):
                info['discretes'].append(path + '.k')
            comp = cls(matrix_free=k.endswith('-mf'), use_jit=b['use_jit'], n=n, c=float(b['c']))
            parent.add_subsystem(nm, comp)
            info['statics'].append(path)
            if b['two']:
                info['zs'].append(path + '.z')
        elif k in ('jax-imp-mf', 'jax-imp'):
            mf = k.endswith('-mf')
            cls = _jax_classes()[(True, bool(b['two']), bool(b.get('disc')))]
            if b.get('disc'):
                info['discretes'].append(path + '.k')
            comp = cls(matrix_free=mf, use_jit=b['use_jit'], n=n, c=float(b['c']))
            if own:
                comp.nonlinear_solver = _newton(om)
                comp.linear_solver = _lin(om, b['ln'], mf, rc)
                if b['ln'] == 'direct-asm':
                    comp.options['assembled_jac_type'] = spec['asm_type']
            parent.add_subsystem(nm, comp)
            info['statics'].append(path)
            info['states'].append((path + '.y', i, True))
            if b['two']:
                info['states'].append((path + '.z', i, False))
                info['zs'].append(path + '.z')
        elif k == 'expfunc':
            jx = b['method'] == 'jax'
            f = (omf.wrap(_f_exp_jax if jx else _f_exp).defaults(shape=(n,))
                 .declare_partials(of='*', wrt='*', method=b['method']))
            parent.add_subsystem(nm, om.ExplicitFuncComp(f, **({'use_jit': False} if jx else {})))
        elif k == 'impfunc':
            jx = b['method'] == 'jax'
            f = (omf.wrap(_r_imp_jax if jx else _r_imp).defaults(shape=(n,))
                 .add_output('y', resid='R_y', val=np.full(n, 1.5))
                 .declare_partials(of='*', wrt='*', method=b['method']))
            comp = om.ImplicitFuncComp(f, **({'use_jit': False} if jx else {}))
            if own:
                comp.nonlinear_solver = _newton(om)
                comp.linear_solver = _lin(om, b['ln'], False, rc)
                if b['ln'] == 'direct-asm':
                    comp.options['assembled_jac_type'] = spec['asm_type']
            parent.add_subsystem(nm, comp)
            info['states'].append((path + '.y', i, True))
        elif k == 'impfunc-sl':
            f = (omf.wrap(_r_imp).defaults(shape=(n,))
                 .add_output('y', resid='R_y', val=np.full(n, 1.5))
                 .declare_partials(of='y', wrt='u', rows=np.arange(n), cols=np.arange(n))
                 .declare_partials(of='y', wrt='p', rows=np.arange(n), cols=np.arange(n))
                 .declare_partials(of='y', wrt='y', rows=np.arange(n), cols=np.arange(n)))
            comp = om.ImplicitFuncComp(f, solve_nonlinear=_sl_solve_nl, linearize=_sl_linearize,
                                       solve_linear=_sl_solve_linear)
            parent.add_subsystem(nm, comp)
            info['states'].append((path + '.y', i, True))
        elif k == 'exec':
            kw = dict(u=np.ones(n), p=np.ones(n), y=np.ones(n))
            parent.add_subsystem(nm, om.ExecComp('y = sin(u)*p + 0.4*u', has_diag_partials=bool(b['diag']), **kw))
        elif k == 'balance':
            g = om.Group()
            g.add_subsystem('ex', om.ExecComp('lhs = x**2 + sin(u)*x', has_diag_partials=True, x=np.ones(n),
                                              u=np.ones(n), lhs=np.ones(n)), promotes_inputs=['u'])
            g.add_subsystem('rh', om.ExecComp('rhs = 2.0 + p**2', has_diag_partials=True, p=np.ones(n),
                                              rhs=np.ones(n)), promotes_inputs=['p'])
            bal = om.BalanceComp()
            bal.add_balance('y', val=np.full(n, 1.5), lhs_name='lhs', rhs_name='rhs')
            g.add_subsystem('bal', bal, promotes_outputs=['y'])
            g.connect('ex.lhs', 'bal.lhs')
            g.connect('rh.rhs', 'bal.rhs')
            g.connect('y', 'ex.x')
            g.nonlinear_solver = _newton(om)
            g.linear_solver = om.DirectSolver(assemble_jac=True)
            g.options['assembled_jac_type'] = spec['asm_type']
            parent.add_subsystem(nm, g)
            info['states'].append((path + '.y', i, True))
        elif k == 'linsys':
            g = om.Group()
            f = (omf.wrap(_f_mkA).add_input('u', shape=(n,)).add_input('p', shape=(n,))
                 .add_output('A', val=2.0 * np.eye(n)).add_output('b', val=np.ones(n))
                 .declare_partials(of='*', wrt='*', method='cs'))
            g.add_subsystem('mk', om.ExplicitFuncComp(f), promotes_inputs=['u', 'p'])
            g.add_subsystem('lin', om.LinearSystemComp(size=n), promotes_outputs=[('x', 'y')])
            g.connect('mk.A', 'lin.A')
            g.connect('mk.b', 'lin.b')
            parent.add_subsystem(nm, g)
            info['states'].append((path + '.y', i, False))
        elif k == 'mm-unstruct':
            mm = om.MetaModelUnStructuredComp(vec_size=n)
            ug, pg = np.meshgrid(np.linspace(-3.0, 3.0, 5), np.linspace(0.0, 1.2, 3), indexing='ij')
            mm.add_input('u', np.zeros(n), training_data=ug.ravel())
            mm.add_input('p', np.zeros(n), training_data=pg.ravel())
            sur = om.ResponseSurface() if b['surrogate'] == 'rs' else om.KrigingSurrogate(eval_rmse=False)
            mm.add_output('y', np.zeros(n), training_data=_f_true(ug.ravel(), pg.ravel()), surrogate=sur)
            parent.add_subsystem(nm, mm)
        elif k == 'mm-struct':
            mm = om.MetaModelStructuredComp(method=b['method'], extrapolate=True, vec_size=n)
            us, ps = np.linspace(-3.0, 3.0, 6), np.linspace(0.0, 1.2, 4)
            ug, pg = np.meshgrid(us, ps, indexing='ij')
            mm.add_input('u', np.zeros(n), training_data=us)
            mm.add_input('p', np.zeros(n), training_data=ps)
            mm.add_output('y', np.zeros(n), training_data=_f_true(ug, pg))
            parent.add_subsystem(nm, mm)
        else:
            raise ValueError(k)
        root.connect('ivc.a' if i == 0 else info['paths'][spec['blocks'][i - 1]['name']] + '.y', path + '.u')
        root.connect('ivc.p', path + '.p')
        if k in MULTI_ROOT:
            info['guess'].append((path + '.y', float(b['side'])))
    kw = dict(y=np.ones(n), z=np.ones(n), f=np.ones(n))
    root.add_subsystem('post', om.ExecComp('f = y**2 + 3.0*y + 0.5*z', has_diag_partials=True, **kw))
    root.connect(info['paths'][spec['blocks'][-1]['name']] + '.y', 'post.y')
    if info['zs']:
        root.connect(info['zs'][-1], 'post.z')
    has_mf = any(b['kind'].endswith('-mf') for b in spec['blocks'])
    if wrap:
        if not own:
            parent.nonlinear_solver = _newton(om, spec['g_nl']['solve_subsystems'])
        parent.linear_solver = _lin(om, spec['g_ln'], has_mf, rc)
        if spec['g_ln'] == 'direct-asm':
            parent.options['assembled_jac_type'] = spec['asm_type']
    root.linear_solver = _lin(om, spec['root_ln'], has_mf, rc)
    if spec['root_ln'] == 'direct-asm':
        root.options['assembled_jac_type'] = spec['asm_type']
    info['of'] = ['post.f']
    info['wrt'] = ['ivc.a', 'ivc.p']
    return prob, info


def init_stock(prob, spec, info):
    """initial guesses: the side of the vertex decides which root the first run finds."""
    for st, side in info['guess']:
        prob.set_val(st, np.full(spec['n'], 2.0 * side))


def vertex(prob, spec, info, st):
    """vertex of the quadratic residual of multi-root state `st` (its two roots are symmetric about it)."""
    comp = st.rsplit('.', 1)[0]
    b = [b for b in spec['blocks'] if info['paths'][b['name']] == comp][0]
    if b['kind'] in ('jax-imp-mf', 'jax-imp'):
        return 0.5 * np.asarray(prob.get_val(comp + '.p'))
    if b['kind'] == 'balance':
        return -0.5 * np.sin(np.asarray(prob.get_val(comp + '.ex.u')))
    return -0.5 * np.sin(np.asarray(prob.get_val(comp + '.u')))


# ------------------------------------------------------------------------------------------------------------------
# moves
# ------------------------------------------------------------------------------------------------------------------
def _nl_solvers(model):
    out = []
    for s in model.system_iter(include_self=True, recurse=True):
        nl = s.nonlinear_solver
        if nl is not None and 'maxiter' in nl.options and type(nl).__name__ != 'NonlinearRunOnce':
            out.append(nl)
    return out


def run_one_iteration(prob):
    saved = []
    for nl in _nl_solvers(prob.model):
        saved.append((nl, nl.options['maxiter']))
        nl.options['maxiter'] = 1
    try:
        prob.run_model()
    finally:
        for nl, m in saved:
            nl.options['maxiter'] = m


def draw_move(nr, move, state_shapes, indep_shapes, indep_range=None):
    """random numbers of one move (drawn once, applied to both twins)."""
    d = {'move': move}
    if move in ('states-set', 'new-guess', 'one-iter', 'other-root'):
        d['delta'] = {k: nr.uniform(-DELTA, DELTA, shp) for k, shp in state_shapes.items()}
    if move in ('inputs-only', 'both'):
        if indep_range is None:
            d['indep'] = {k: nr.uniform(-0.4, 0.4, shp) for k, shp in indep_shapes.items()}     # increments
        else:
            d['indep'] = {k: nr.uniform(indep_range[0], indep_range[1], shp) for k, shp in indep_shapes.items()}
    if move == 'statics':
        d['dc'] = float(nr.uniform(0.05, 0.2))
    if move == 'discrete':
        d['dk'] = int(nr.integers(1, 3))
    return d


def apply_move_stock(prob, spec, info, d):
    move = d['move']
    if move in ('states-set', 'new-guess', 'one-iter'):
        for st, _, _ in info['states']:
            prob.set_val(st, np.asarray(prob.get_val(st)) + d['delta'][st])
    elif move == 'other-root':
        for st, _, multi in info['states']:
            if multi:
                v = vertex(prob, spec, info, st)
                prob.set_val(st, 2.0 * v - np.asarray(prob.get_val(st)) + d['delta'][st])
    elif move in ('inputs-only', 'both'):
        for k, val in d['indep'].items():
            prob.set_val(k, val)
    elif move == 'statics':
        for path in info['statics']:
            comp = prob.model._get_subsystem(path)
            comp.options['c'] = float(comp.options['c']) + d['dc']
    elif move == 'discrete':
        for name in info['discretes']:
            prob.set_val(name, int(prob.get_val(name)) % 3 + d['dk'])      # 1..4, never the same as before
    if move in ('new-guess', 'other-root', 'both'):
        prob.run_model()
    elif move == 'one-iter':
        run_one_iteration(prob)
    elif move == 'inputs-only':
        prob.model.run_apply_nonlinear()


def apply_move_g(prob, d, abs_states, top_indeps):
    """G-models: abs_states {abs output name: key in d['delta']}, top_indeps {promoted name: key in d['indep']}."""
    move = d['move']
    if move in ('states-set', 'new-guess', 'one-iter'):
        for st, k in abs_states.items():
            prob.set_val(st, np.asarray(prob.get_val(st)) + d['delta'][k])
    elif move in ('inputs-only', 'both'):
        for nm, k in top_indeps.items():
            prob.set_val(nm, np.asarray(prob.get_val(nm)) + d['indep'][k])
    if move in ('new-guess', 'both'):
        prob.run_model()
    elif move == 'one-iter':
        run_one_iteration(prob)
    elif move == 'inputs-only':
        prob.model.run_apply_nonlinear()


def external_inputs(model, system):
    """boolean mask (over system._dinputs.asarray()) of the inputs of `system` whose source lies outside it: they
    are part of the domain of its apply_linear operator (inputs fed from inside are overwritten by its transfers)."""
    conns = model._conn_global_abs_in2out
    pre = system.pathname + '.' if system.pathname else ''
    vec = system._dinputs
    mask = np.zeros(vec.asarray().size, dtype=bool)
    if not pre or mask.size == 0:
        return mask
    start0 = min(v.range[0] for v in vec._views.values())
    for name, v in vec._views.items():
        src = conns.get(name)
        if src is None or not src.startswith(pre):
            mask[v.range[0] - start0:v.range[1] - start0] = True
    return mask
