"""Random smooth function bodies over a primitive set that exists in both numpy and jax.numpy.

Pure Python (no openmdao / jax import).  The generator produces expression strings that use the array
namespace `XP`; `render()` turns a function description into module source for a concrete namespace
('np' -> numpy, 'jnp' -> jax.numpy).  All primitives are smooth on the whole real line, so no domain
tracking is needed: sin, cos, tanh, exp(0.1*u), u**2, products, sums, dot/matmul, outer, transposes,
indexing/slicing/reversal, concatenation, axis sums.
"""

SHAPES = [(), (), (2,), (3,), (4,), (2, 2), (2, 3), (3, 4)]
# quick tier: few, small shapes (jax compiles every primitive once per operand shape and process, so a small
# shape set lets the cases of one shard share most of their compiled primitives), depth <= 2, <= 2 outputs
LITE = {'shapes': [(), (2,), (3,), (2, 2), (2, 3)], 'nouts': [1, 2, 2], 'depths': [1, 2, 2], 'nstates': [1, 1, 2],
        'state_shapes': [(), (2,), (3,), (2, 2)], 'state_depths': [1, 1, 2]}


def size(shape):
    n = 1
    for s in shape:
        n *= s
    return n


class FuncGen(object):
    def __init__(self, rng, max_inputs=3):
        self.rng = rng
        self.inputs = {}     # name -> shape
        self.max_inputs = max_inputs
        self.static = None   # name of a static (option) scalar argument, if any
        self.prims = set()
        self.fresh_only = False
        self.pmethod = 0.5    # probability of the method form (a).sum() / (a).dot(b) / (a).T of a structural primitive
        self.pscaled = 0.25   # probability that a leaf is a scaled input (c * x) rather than a bare name
        self.cuts = (0.3, 0.6, 0.85)   # cumulative probabilities of unary / binary / structural (rest: leaf)
        # hi: functions with higher-order stationary points (cubes, nested squares, products, differences): at
        # degenerate points (zeros, equal entries) structurally nonzero derivatives vanish to second or higher order
        self.hi = False

    def pick(self, seq):
        return seq[int(self.rng.integers(len(seq)))]

    def lit(self):
        return repr(round(float(self.rng.uniform(0.3, 2.0)), 2))

    def var(self, shape):
        shape = tuple(shape)
        same = [n for n, s in self.inputs.items() if s == shape]
        if same and (len(self.inputs) >= self.max_inputs or self.rng.random() < 0.6):
            return self.pick(same)
        if len(self.inputs) >= self.max_inputs:
            # derive a value of the requested shape from an existing input
            return self.reshape_from_existing(shape)
        name = 'x%d' % len(self.inputs)
        self.inputs[name] = shape
        return name

    def reshape_from_existing(self, shape):
        """An expression of the requested shape computed from some existing input (keeps #inputs bounded)."""
        name, s = self.pick(list(self.inputs.items()))
        self.prims.add('sum')
        base = 'XP.sum(%s)' % name if s != () else name
        if shape == ():
            return base
        self.prims.add('arange')
        n = size(shape)
        return '(%s * XP.reshape(0.1 * XP.arange(1.0, %d.0), %r))' % (base, n + 1, tuple(shape))

    def leaf(self, shape):
        v = self.var(shape)
        r = self.rng.random()
        if r < self.pscaled:
            return '%s * %s' % (self.lit(), v)
        if r < self.pscaled + 0.1 and self.static:
            return '%s * %s' % (self.static, v)
        return v

    def unary(self, shape, d):
        f = self.pick(['sin', 'tanh', 'cos', 'exp', 'sq', 'sq', 'cube', 'cube', 'cube', 'dcube', 'dcube'] if self.hi else
                      ['sin', 'cos', 'tanh', 'exp', 'sq', 'sq'])
        if f == 'dcube':
            # cube of a difference of two inputs (or of an input and the default value 1.0): stationary where the
            # entries are equal / at the default values
            self.prims.add(f)
            a = self.var(shape)
            b = '1.0' if self.rng.random() < 0.3 else self.var(shape)
            if b == a:
                others = [n for n, s_ in self.inputs.items() if s_ == tuple(shape) and n != a]
                b = self.pick(others) if others else '1.0'
            return '(%s - %s) ** 3' % (a, b)
        a = self.expr(shape, d - 1)
        self.prims.add(f)
        if f == 'exp':
            return 'XP.exp(0.1 * (%s))' % a
        if f == 'cube':
            return '(%s) ** 3' % a
        if f == 'sq':
            return '(%s) ** 2' % a
        return 'XP.%s(%s)' % (f, a)

    def binary(self, shape, d):
        a = self.expr(shape, d - 1)
        r = self.rng.random()
        if shape != () and r < 0.35:
            b = self.expr((), d - 1)     # scalar broadcast
            self.prims.add('broadcast')
        else:
            b = self.expr(shape, d - 1)
        op = self.pick(['*', '*', '*', '-', '-', '+'] if self.hi else ['*', '*', '+', '-'])
        self.prims.add('mul' if op == '*' else 'add')
        return '(%s %s %s)' % (a, op, b)

    def dotform(self):
        """Function or method form of dot (the first operand is always an array)."""
        return 'XP.dot(%s, %s)' if self.rng.random() >= self.pmethod else '(%s).dot(%s)'

    def structural(self, shape, d):
        rng = self.rng
        d = d - 1
        if shape == ():
            k = self.pick(['sum', 'dot', 'index'])
            self.prims.add(k)
            if k == 'sum':
                a = self.expr(self.pick([(2,), (3,), (2, 3)]), d)
                # function or method form (the operand is always an array)
                return ('XP.sum(%s)' if rng.random() >= self.pmethod else '(%s).sum()') % a
            if k == 'dot':
                n = self.pick([2, 3, 4])
                return self.dotform() % (self.expr((n,), d), self.expr((n,), d))
            shp = self.pick([(3,), (4,), (2, 3)])
            idx = ', '.join(str(int(rng.integers(s))) for s in shp)
            return '(%s)[%s]' % (self.expr(shp, d), idx)
        if len(shape) == 1:
            n = shape[0]
            k = self.pick(['matvec', 'reverse', 'concat', 'row', 'axissum', 'slice', 'matmul-op'])
            self.prims.add(k)
            if k == 'matvec':
                c = self.pick([2, 3])
                return self.dotform() % (self.expr((n, c), d), self.expr((c,), d))
            if k == 'matmul-op':
                c = self.pick([2, 3])
                # operands parenthesised: '@' and '*' have the same precedence ('a @ 0.5 * b' is '(a @ 0.5) * b')
                return '((%s) @ (%s))' % (self.expr((n, c), d), self.expr((c,), d))
            if k == 'reverse':
                return '(%s)[::-1]' % self.expr((n,), d)
            if k == 'concat' and n >= 2:
                a = int(rng.integers(1, n))
                return 'XP.concatenate([%s, %s])' % (self.expr((a,), d), self.expr((n - a,), d))
            if k == 'row':
                r = self.pick([2, 3])
                return '(%s)[%d]' % (self.expr((r, n), d), int(rng.integers(r)))
            if k == 'axissum':
                c = self.pick([2, 3])
                return ('XP.sum(%s, axis=1)' if rng.random() >= self.pmethod else '(%s).sum(axis=1)') % self.expr((n, c), d)
            m = n + 1
            return '(%s)[1:]' % self.expr((m,), d)
        r_, c_ = shape
        k = self.pick(['outer', 'transpose', 'matmat', 'rowscale'])
        self.prims.add(k)
        if k == 'outer':
            return 'XP.outer(%s, %s)' % (self.expr((r_,), d), self.expr((c_,), d))
        if k == 'transpose':
            return ('(%s).T' if rng.random() < max(0.7, self.pmethod) else 'XP.transpose(%s)') % self.expr((c_, r_), d)
        if k == 'matmat':
            m = self.pick([2, 3])
            return self.dotform() % (self.expr((r_, m), d), self.expr((m, c_), d))
        return '(%s * XP.reshape(%s, (%d, 1)))' % (self.expr((r_, c_), d), self.expr((r_,), d), r_)

    def stationary(self, shape):
        """(expression, input names used): elementwise form whose derivative with respect to its inputs vanishes to
        second or higher order where the inputs are zero / equal to each other / at the default value 1.0, and which
        is the ONLY dependence of the result on these inputs (the jacobian entries themselves vanish there)."""
        shape = tuple(shape)
        a = self.var(shape)

        def other(*used):
            others = [n for n, s_ in self.inputs.items() if s_ == shape and n not in used]
            if others and (len(self.inputs) >= self.max_inputs or self.rng.random() < 0.5):
                return self.pick(others)
            if len(self.inputs) < self.max_inputs:
                name = 'x%d' % len(self.inputs)
                self.inputs[name] = shape
                return name
            return None
        k = self.pick(['cube', 'dcube', 'dcube', 'quart', 'prod3', 'sin3', 'tanhd3', 'cubecos', 'dquart'])
        self.prims.add('stationary-' + k)
        used = [a]
        if k == 'cube':
            e = '(%s) ** 3' % a
        elif k == 'quart':
            e = '((%s) ** 2) ** 2' % a
        elif k == 'sin3':
            e = 'XP.sin(%s) ** 3' % a
        else:
            b = other(a)
            if b is None or (k == 'dcube' and self.rng.random() < 0.3):
                b = None
            if k in ('dcube', 'tanhd3', 'dquart'):
                d = '%s - %s' % (a, b or '1.0')
                e = {'dcube': '(%s) ** 3', 'tanhd3': 'XP.tanh(%s) ** 3', 'dquart': '((%s) ** 2) ** 2'}[k] % d
            elif k == 'cubecos':
                e = '(%s) ** 3 * XP.cos(%s)' % (a, b or a)
            else:
                c = other(a, b) if b else None
                e = '(%s * %s) * %s' % (a, b or a, c or a)
                if c:
                    used.append(c)
            if b:
                used.append(b)
        if self.rng.random() < 0.4:
            e = '%s * %s' % (self.lit(), e)
        return e, used

    def expr(self, shape, d):
        shape = tuple(shape)
        if d <= 0:
            return self.leaf(shape)
        r = self.rng.random()
        if r < self.cuts[0]:
            return self.unary(shape, d)
        if r < self.cuts[1]:
            return self.binary(shape, d)
        if r < self.cuts[2]:
            return self.structural(shape, d)
        return self.leaf(shape)


AGNOSTIC_SHAPE = (3,)   # shape-agnostic functions are generated for this shape; any (n,) can be substituted


def gen_explicit(rng, nout=None, depth=None, with_static=False, max_inputs=3, elementwise_bias=0.4, lite=False,
                 methods=False, hiorder=False, agnostic=False):
    """Description of an explicit function: inputs (name->shape), outputs (name->shape), body lines.
    methods: structural primitives in method form on compound receivers ((0.5 * a).dot(b), (2.0 * a).T, ...): the
    style that a source-level dependency analysis has to see through."""
    g = FuncGen(rng, max_inputs=max_inputs)
    if methods:
        g.pmethod, g.pscaled, g.cuts = 1.0, 1.0, (0.15, 0.3, 0.9)
    if hiorder:
        g.hi, g.cuts = True, (0.4, 0.75, 0.88)
    if agnostic:
        # elementwise primitives, scalar broadcasts and full sums only: the body is valid for every (n,)
        g.cuts = (0.45, 0.9, 0.9)
    if with_static:
        g.static = 'kopt'
    nout = nout or int(g.pick(LITE['nouts'] if lite else [1, 1, 2, 2, 3]))
    outs, lines = {}, []
    for k in range(nout):
        d = depth or int(g.pick([2, 2, 3] if hiorder else LITE['depths'] if lite else [1, 2, 2, 3]))
        if rng.random() < elementwise_bias and g.inputs:
            # same shape as an existing input: gives (block-)diagonal sub-jacobians worth coloring
            shape = g.pick(list(g.inputs.values()))
        else:
            shape = g.pick(LITE['shapes'] if lite else SHAPES)
        if agnostic:
            shape = AGNOSTIC_SHAPE
        if hiorder and rng.random() < 0.55:
            e, used = g.stationary(shape)
            free = [n for n, s_ in g.inputs.items() if s_ == tuple(shape) and n not in used]
            if not free and len(g.inputs) < max_inputs:
                free = ['x%d' % len(g.inputs)]
                g.inputs[free[0]] = tuple(shape)
            if free and rng.random() < 0.8:
                # a term of order one in another input next to the vanishing derivatives
                e = '%s + %s * %s' % (e, g.lit(), g.pick(free))
        else:
            e = g.expr(shape, d)
        outs['y%d' % k] = tuple(shape)
        lines.append('y%d = %s' % (k, e))
    if with_static and not any('kopt' in ln for ln in lines):
        lines[0] = lines[0] + ' * kopt'
    return {'inputs': {n: list(s) for n, s in g.inputs.items()}, 'outputs': {n: list(s) for n, s in outs.items()},
            'lines': lines, 'static': g.static, 'prims': sorted(g.prims)}


def gen_implicit(rng, nstate=None, depth=None, with_static=False, max_inputs=3, lite=False, methods=False,
                 hiorder=False, agnostic=False):
    """Residuals r_i = c_i*s_i + 0.3*sin(s_i) [+ 0.2*coupling] - g_i(inputs): diagonally dominant in the
    states, so a Newton solve converges and the implicit-function-theorem totals are well conditioned."""
    g = FuncGen(rng, max_inputs=max_inputs)
    if methods:
        g.pmethod, g.pscaled, g.cuts = 1.0, 1.0, (0.15, 0.3, 0.9)
    if hiorder:
        g.hi, g.cuts = True, (0.4, 0.75, 0.88)
    if agnostic:
        g.cuts = (0.45, 0.9, 0.9)
    if with_static:
        g.static = 'kopt'
    nstate = nstate or int(g.pick(LITE['nstates'] if lite else [1, 1, 2]))
    states, lines = {}, []
    for k in range(nstate):
        shape = g.pick(LITE['state_shapes'] if lite else [(), (2,), (3,), (2, 2)])
        if agnostic:
            shape = AGNOSTIC_SHAPE
        states['s%d' % k] = tuple(shape)
    for k, (s, shape) in enumerate(states.items()):
        d = depth or int(g.pick([2, 2, 3] if hiorder else LITE['state_depths'] if lite else [1, 2, 2]))
        gi = g.stationary(shape)[0] if hiorder and rng.random() < 0.55 else g.expr(shape, d)
        c = round(float(rng.uniform(2.0, 3.5)), 2)
        line = 'r%d = %r * %s + 0.3 * XP.sin(%s)' % (k, c, s, s)
        others = [o for o in states if o != s]
        if others and rng.random() < 0.7:
            o = g.pick(others)
            if hiorder and rng.random() < 0.5:
                # vanishes to second order at o = 0; |d/do| <= 0.15 * max t^2 (1 - t^2) < 0.04 per entry
                line += ' + 0.05 * XP.tanh(XP.sum(%s)) ** 3' % o
            else:
                line += ' + 0.2 * XP.tanh(XP.sum(%s))' % o
            g.prims.add('state-coupling')
        line += ' - (%s)' % gi
        lines.append(line)
    if with_static and not any('kopt' in ln for ln in lines):
        lines[0] = lines[0] + ' * kopt'
    return {'inputs': {n: list(s) for n, s in g.inputs.items()}, 'states': {n: list(s) for n, s in states.items()},
            'lines': lines, 'static': g.static, 'prims': sorted(g.prims)}


def render_function(name, args, lines, returns, xp):
    """Source of a plain function."""
    body = '\n'.join('    ' + ln.replace('XP.', xp + '.') for ln in lines)
    return 'def %s(%s):\n%s\n    return %s\n' % (name, ', '.join(args), body, ', '.join(returns))


def module_header(xp):
    if xp == 'np':
        return 'import numpy as np\n\n'
    return 'import numpy as np\nimport jax\nimport jax.numpy as jnp\nimport openmdao.api as om\n\n'
