"""Random smooth function bodies over a primitive set that exists in both numpy and jax.numpy.

Pure Python (no openmdao / jax import).  The generator produces expression strings that use the array
namespace `XP`; `render()` turns a function description into module source for a concrete namespace
('np' -> numpy, 'jnp' -> jax.numpy).  All primitives are smooth on the whole real line, so no domain
tracking is needed: sin, cos, tanh, exp(0.1*u), u**2, products, sums, dot/matmul, outer, transposes,
indexing/slicing/reversal, concatenation, axis sums.
"""

SHAPES = [(), (), (2,), (3,), (4,), (2, 2), (2, 3), (3, 4)]
# quick tier: few, small shapes (jax compiles every primitive once per operand shape and process, so a small
# shape set lets the cases of one shard share most of their compiled primitives), depth <= 2, <= 2 outputs
LITE = {'shapes': [(), (2,), (3,), (2, 2), (2, 3)], 'nouts': [1, 2, 2], 'depths': [1, 2, 2], 'nstates': [1, 1, 2],
        'state_shapes': [(), (2,), (3,), (2, 2)], 'state_depths': [1, 1, 2]}


def size(shape):
    n = 1
    for s in shape:
        n *= s
    return n


class FuncGen(object):
    def __init__(self, rng, max_inputs=3):
        self.rng = rng
        self.inputs = {}     # name -> shape
        self.max_inputs = max_inputs
        self.static = None   # name of a static (option) scalar argument, if any
        self.prims = set()
        self.fresh_only = False
        self.pmethod = 0.5    # probability of the method form (a).sum() / (a).dot(b) / (a).T of a structural primitive
        self.pscaled = 0.25   # probability that a leaf is a scaled input (c * x) rather than a bare name
        self.cuts = (0.3, 0.6, 0.85)   # cumulative probabilities of unary / binary / structural (rest: leaf)

    def pick(self, seq):
        return seq[int(self.rng.integers(len(seq)))]

    def lit(self):
        return repr(round(float(self.rng.uniform(0.3, 2.0)), 2))

    def var(self, shape):
        shape = tuple(shape)
        same = [n for n, s in self.inputs.items() if s == shape]
        if same and (len(self.inputs) >= self.max_inputs or self.rng.random() < 0.6):
            return self.pick(same)
        if len(self.inputs) >= self.max_inputs:
            # derive a value of the requested shape from an existing input
            return self.reshape_from_existing(shape)
        name = 'x%d' % len(self.inputs)
        self.inputs[name] = shape
        return name

    def reshape_from_existing(self, shape):
        """An expression of the requested shape computed from some existing input (keeps #inputs bounded)."""
        name, s = self.pick(list(self.inputs.items()))
        self.prims.add('sum')
        base = 'XP.sum(%s)' % name if s != () else name
        if shape == ():
            return base
        self.prims.add('arange')
        n = size(shape)
        return '(%s * XP.reshape(0.1 * XP.arange(1.0, %d.0), %r))' % (base, n + 1, tuple(shape))

    def leaf(self, shape):
        v = self.var(shape)
        r = self.rng.random()
        if r < self.pscaled:
            return '%s * %s' % (self.lit(), v)
        if r < self.pscaled + 0.1 and self.static:
            return '%s * %s' % (self.static, v)
        return v

    def unary(self, shape, d):
        f = self.pick(['sin', 'cos', 'tanh', 'exp', 'sq', 'sq'])
        a = self.expr(shape, d - 1)
        self.prims.add(f)
        if f == 'exp':
            return 'XP.exp(0.1 * (%s))' % a
        if f == 'sq':
            return '(%s) ** 2' % a
        return 'XP.%s(%s)' % (f, a)

    def binary(self, shape, d):
        a = self.expr(shape, d - 1)
        r = self.rng.random()
        if shape != () and r < 0.35:
            b = self.expr((), d - 1)     # scalar broadcast
            self.prims.add('broadcast')
        else:
            b = self.expr(shape, d - 1)
        op = self.pick(['*', '*', '+', '-'])
        self.prims.add('mul' if op == '*' else 'add')
        return '(%s %s %s)' % (a, op, b)

    def dotform(self):
        """Function or method form of dot (the first operand is always an array)."""
        return 'XP.dot(%s, %s)' if self.rng.random() >= self.pmethod else '(%s).dot(%s)'

    def structural(self, shape, d):
        rng = self.rng
        d = d - 1
        if shape == ():
            k = self.pick(['sum', 'dot', 'index'])
            self.prims.add(k)
            if k == 'sum':
                a = self.expr(self.pick([(2,), (3,), (2, 3)]), d)
                # function or method form (the operand is always an array)
                return ('XP.sum(%s)' if rng.random() >= self.pmethod else '(%s).sum()') % a
            if k == 'dot':
                n = self.pick([2, 3, 4])
                return self.dotform() % (self.expr((n,), d), self.expr((n,), d))
            shp = self.pick([(3,), (4,), (2, 3)])
            idx = ', '.join(str(int(rng.integers(s))) for s in shp)
            return '(%s)[%s]' % (self.expr(shp, d), idx)
        if len(shape) == 1:
            n = shape[0]
            k = self.pick(['matvec', 'reverse', 'concat', 'row', 'axissum', 'slice', 'matmul-op'])
            self.prims.add(k)
            if k == 'matvec':
                c = self.pick([2, 3])
                return self.dotform() % (self.expr((n, c), d), self.expr((c,), d))
            if k == 'matmul-op':
                c = self.pick([2, 3])
                # operands parenthesised: '@' and '*' have the same precedence ('a @ 0.5 * b' is '(a @ 0.5) * b')
                return '((%s) @ (%s))' % (self.expr((n, c), d), self.expr((c,), d))
            if k == 'reverse':
                return '(%s)[::-1]' % self.expr((n,), d)
            if k == 'concat' and n >= 2:
                a = int(rng.integers(1, n))
                return 'XP.concatenate([%s, %s])' % (self.expr((a,), d), self.expr((n - a,), d))
            if k == 'row':
                r = self.pick([2, 3])
                return '(%s)[%d]' % (self.expr((r, n), d), int(rng.integers(r)))
            if k == 'axissum':
                c = self.pick([2, 3])
                return ('XP.sum(%s, axis=1)' if rng.random() >= self.pmethod else '(%s).sum(axis=1)') % self.expr((n, c), d)
            m = n + 1
            return '(%s)[1:]' % self.expr((m,), d)
        r_, c_ = shape
        k = self.pick(['outer', 'transpose', 'matmat', 'rowscale'])
        self.prims.add(k)
        if k == 'outer':
            return 'XP.outer(%s, %s)' % (self.expr((r_,), d), self.expr((c_,), d))
        if k == 'transpose':
            return ('(%s).T' if rng.random() < max(0.7, self.pmethod) else 'XP.transpose(%s)') % self.expr((c_, r_), d)
        if k == 'matmat':
            m = self.pick([2, 3])
            return self.dotform() % (self.expr((r_, m), d), self.expr((m, c_), d))
        return '(%s * XP.reshape(%s, (%d, 1)))' % (self.expr((r_, c_), d), self.expr((r_,), d), r_)

    def expr(self, shape, d):
        shape = tuple(shape)
        if d <= 0:
            return self.leaf(shape)
        r = self.rng.random()
        if r < self.cuts[0]:
            return self.unary(shape, d)
        if r < self.cuts[1]:
            return self.binary(shape, d)
        if r < self.cuts[2]:
            return self.structural(shape, d)
        return self.leaf(shape)


def gen_explicit(rng, nout=None, depth=None, with_static=False, max_inputs=3, elementwise_bias=0.4, lite=False,
                 methods=False):
    """Description of an explicit function: inputs (name->shape), outputs (name->shape), body lines.
    methods: structural primitives in method form on compound receivers ((0.5 * a).dot(b), (2.0 * a).T, ...): the
    style that a source-level dependency analysis has to see through."""
    g = FuncGen(rng, max_inputs=max_inputs)
    if methods:
        g.pmethod, g.pscaled, g.cuts = 1.0, 1.0, (0.15, 0.3, 0.9)
    if with_static:
        g.static = 'kopt'
    nout = nout or int(g.pick(LITE['nouts'] if lite else [1, 1, 2, 2, 3]))
    outs, lines = {}, []
    for k in range(nout):
        d = depth or int(g.pick(LITE['depths'] if lite else [1, 2, 2, 3]))
        if rng.random() < elementwise_bias and g.inputs:
            # same shape as an existing input: gives (block-)diagonal sub-jacobians worth coloring
            shape = g.pick(list(g.inputs.values()))
        else:
            shape = g.pick(LITE['shapes'] if lite else SHAPES)
        e = g.expr(shape, d)
        outs['y%d' % k] = tuple(shape)
        lines.append('y%d = %s' % (k, e))
    if with_static and not any('kopt' in ln for ln in lines):
        lines[0] = lines[0] + ' * kopt'
    return {'inputs': {n: list(s) for n, s in g.inputs.items()}, 'outputs': {n: list(s) for n, s in outs.items()},
            'lines': lines, 'static': g.static, 'prims': sorted(g.prims)}


def gen_implicit(rng, nstate=None, depth=None, with_static=False, max_inputs=3, lite=False, methods=False):
    """Residuals r_i = c_i*s_i + 0.3*sin(s_i) [+ 0.2*coupling] - g_i(inputs): diagonally dominant in the
    states, so a Newton solve converges and the implicit-function-theorem totals are well conditioned."""
    g = FuncGen(rng, max_inputs=max_inputs)
    if methods:
        g.pmethod, g.pscaled, g.cuts = 1.0, 1.0, (0.15, 0.3, 0.9)
    if with_static:
        g.static = 'kopt'
    nstate = nstate or int(g.pick(LITE['nstates'] if lite else [1, 1, 2]))
    states, lines = {}, []
    for k in range(nstate):
        shape = g.pick(LITE['state_shapes'] if lite else [(), (2,), (3,), (2, 2)])
        states['s%d' % k] = tuple(shape)
    for k, (s, shape) in enumerate(states.items()):
        d = depth or int(g.pick(LITE['state_depths'] if lite else [1, 2, 2]))
        gi = g.expr(shape, d)
        c = round(float(rng.uniform(2.0, 3.5)), 2)
        line = 'r%d = %r * %s + 0.3 * XP.sin(%s)' % (k, c, s, s)
        others = [o for o in states if o != s]
        if others and rng.random() < 0.7:
            o = g.pick(others)
            line += ' + 0.2 * XP.tanh(XP.sum(%s))' % o
            g.prims.add('state-coupling')
        line += ' - (%s)' % gi
        lines.append(line)
    if with_static and not any('kopt' in ln for ln in lines):
        lines[0] = lines[0] + ' * kopt'
    return {'inputs': {n: list(s) for n, s in g.inputs.items()}, 'states': {n: list(s) for n, s in states.items()},
            'lines': lines, 'static': g.static, 'prims': sorted(g.prims)}


def render_function(name, args, lines, returns, xp):
    """Source of a plain function."""
    body = '\n'.join('    ' + ln.replace('XP.', xp + '.') for ln in lines)
    return 'def %s(%s):\n%s\n    return %s\n' % (name, ', '.join(args), body, ', '.join(returns))


def module_header(xp):
    if xp == 'np':
        return 'import numpy as np\n\n'
    return 'import numpy as np\nimport jax\nimport jax.numpy as jnp\nimport openmdao.api as om\n\n'
