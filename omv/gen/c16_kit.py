"""C16 kit: derivative state that is cached, shared or reused between calls / objects / outputs.

The parts of omv/checks/c16_interp_derivs.py judge one table (or one spline) per object.  Every derivative the
interpolation code hands out is, however, *cached state*: InterpND keeps `_xi`, `_d_dx`, `_d_dvalues`, `values` and
its table object between calls, and the components (SplineComp, MetaModelStructuredComp,
MetaModelSemiStructuredComp) run compute() for ALL their outputs first and read the caches back, output by output,
in compute_partials().  The parts in this file add the dimensions in which such state can leak:

  splinemulti  one SplineComp carrying 2-4 splines (add_spline called repeatedly) with different random control
               values, vec_size 1-3, with / without units (IndepVarComp in another unit of the same dimension);
               totals of EVERY spline w.r.t. EVERY control-point array (own block: same oracles as part
               'splinecomp'; foreign blocks must be exactly zero); linear methods additionally: the Jacobian is
               the same for all splines, and one spline is given v_a + alpha v_b (superposition inside one run);
               call sequences: totals of one non-last spline alone, other values -> back to the first values.
  tablemulti   one MetaModelStructuredComp / MetaModelSemiStructuredComp (full mesh) with 2-3 tables (add_output
               called repeatedly), vec_size > 1, training_data_gradients on / off; partials of EVERY output w.r.t.
               every input and every training array (foreign training arrays: exactly zero); complex step through
               the component (non-scipy methods), 7-point differences (scipy methods); revisit sequence
               (other point set -> back).
  interleave   2-4 InterpND objects alive at once (same or different methods, same or different grids), called in
               interleaved order: interpolate(compute_derivative=True) on all, then gradient() / training_gradients()
               of each in another order; spline objects: evaluate_spline on all, then spline_gradient() of each.
               Arrays that were returned earlier must not change afterwards.
  cachestate   one object, call sequences around its cache: x1, x2, then gradient(x1) again; value-only call then
               gradient; batched call then single point; the query array changed IN PLACE between interpolate()
               and gradient() (InterpND and InterpNDSemi); the control values changed in place between two
               evaluate_spline calls; training_gradients between the calls.

References are numerical derivatives of the value path on FRESH objects (complex step / exact 7-point stencil, see
the check module), unit-vector evaluation for the Jacobians of the methods that are linear in the values, and the
linearity identities.  Tolerances are the derived ones of the check module.
"""
import numpy as np

from omv.ref import interp_ref as R

CS = 1e-30
W7 = np.array([-1.0, 9.0, -45.0, 0.0, 45.0, -9.0, 1.0]) / 60.0

# conversion factors  value[comp units] = FACTOR * value[ivc units]   (own table: exact SI prefixes)
UNIT_PAIRS = [('m', 'cm', 0.01), ('m', 'km', 1000.0), ('cm', 'm', 100.0), ('N', 'kN', 1000.0),
              ('kg', 'g', 0.001), ('s', 'ms', 0.001)]


def _C():
    from omv.checks import c16_interp_derivs as C
    return C


# ------------------------------------------------------------------------------------------------
# numerical references on fresh objects
# ------------------------------------------------------------------------------------------------
def _mk(method, grids, values, extrapolate=True, opts=None):
    from openmdao.components.interp_util.interp import InterpND
    return InterpND(method=method, points=tuple(np.array(g) for g in grids), values=np.array(values),
                    extrapolate=extrapolate, **(opts or {}))


def num_gradient(method, grids, values, x, dist, opts=None, rng=None, count=None):
    """d f / d x at one point by differentiating the VALUE path of a fresh object; returns (f, ref, tol)."""
    C = _C()
    nd = len(grids)
    vmax = float(np.abs(values).max())
    delta = C._delta(method, grids, x, vmax)
    it = _mk(method, grids, values, True, opts)
    f = float(np.asarray(it.interpolate(np.array(x))).ravel()[0])
    cond = 0.0
    if 'akima' in method:
        pert = values + 1e-12 * vmax * (rng or np.random.default_rng(0)).uniform(-1, 1, size=np.shape(values))
        _, d0 = _mk(method, grids, values, True, opts).interpolate(np.array(x), compute_derivative=True)
        _, d1 = _mk(method, grids, pert, True, opts).interpolate(np.array(x), compute_derivative=True)
        cond = float(np.abs(np.asarray(d1).ravel() - np.asarray(d0).ravel()).max()) / 1e-12
    ref = np.empty(nd)
    tol = np.empty(nd)
    xform = R.deriv_expanded_roundoff(method, grids, x, vmax)
    for ax in range(nd):
        base = 5.0 * delta / dist[ax] + 64 * R.EPS * cond + xform[ax]
        if method not in R.SCIPY_ORDER:
            xc = np.array(x, dtype=complex)
            xc[ax] += 1j * CS
            fc = np.asarray(_mk(method, grids, values, True, opts).interpolate(xc)).ravel()[0]
            ref[ax] = fc.imag / CS
            tol[ax] = 2 * base
            if count:
                count('obs:ref:complex-step')
        else:
            h = dist[ax] / 4.0
            vals = []
            for s in (-3, -2, -1, 0, 1, 2, 3):
                xs = np.array(x, dtype=float)
                xs[ax] += s * h
                vals.append(float(np.asarray(it.interpolate(xs)).ravel()[0]))
            ref[ax] = float(np.dot(W7, vals)) / h
            tol[ax] = base + (11.0 / 6.0) * 2 * delta / h
            if count:
                count('obs:ref:fd7')
    return f, ref, tol, delta


class _Spy(object):
    """Counts the interpolate() calls of one object (instance attribute), so that a gradient() answer can be
    attributed to the cache or to a recomputation."""

    def __init__(self, it, acc):
        self.it = it
        self.acc = acc
        self.n = 0
        inner = it.interpolate

        def interpolate(*a, **kw):
            self.n += 1
            return inner(*a, **kw)
        it.interpolate = interpolate

    def gradient(self, x):
        n0 = self.n
        g = self.it.gradient(x)
        self.acc.count('obs:gradient:from-cache' if self.n == n0 else 'obs:gradient:recomputed')
        return g


def _close(a, ref, tol):
    a = np.asarray(a, dtype=float).ravel()
    return a.shape == np.shape(ref) and bool(np.all(np.abs(a - ref) <= tol))


# ------------------------------------------------------------------------------------------------
# part splinemulti
# ------------------------------------------------------------------------------------------------
def judge_splinemulti(case, acc):
    import openmdao.api as om
    C = _C()
    method = case['method']
    rng, grid, xi, v1, _v2, opts = C._spline_setup(case)
    rep = C._Report(acc, case)
    vec, n_cp = v1.shape
    n_i = len(xi)
    S = case['n_splines']
    linear = method != 'akima'
    alpha = float(rng.uniform(-2, 2))
    V = [v1]
    for k in range(1, S):
        V.append(rng.uniform(-1, 1, (vec, n_cp)) * 10.0 ** rng.uniform(-1, 1))
    sup = None
    if linear and S >= 3:
        sup = (S - 1, 0, 1)                   # spline S-1 carries v_0 + alpha v_1
        V[S - 1] = V[0] + alpha * V[1]
    order = [int(i) for i in rng.permutation(S)]          # order of add_spline calls
    vmax = [float(np.abs(v).max()) for v in V]
    delta = [C._spline_delta(method, grid, xi, vm) for vm in vmax]
    if max(d.max() / vm for d, vm in zip(delta, vmax)) > C.ILL:
        acc.skip('ill-conditioned-grid')
        return
    units = [None] * S
    fac = [1.0] * S
    if case.get('units'):
        for k in range(S):
            if rng.random() < 0.7:
                cu, iu, f = UNIT_PAIRS[int(rng.integers(0, len(UNIT_PAIRS)))]
                units[k] = (cu, iu)
                fac[k] = f
    ycp = ['ycp%d' % k for k in range(S)]
    ys = ['y%d' % k for k in range(S)]
    prob = om.Problem()
    try:
        ivc = prob.model.add_subsystem('ivc', om.IndepVarComp())
        for k in range(S):
            ivc.add_output(ycp[k], V[k] / fac[k], units=units[k][1] if units[k] else None)
        kw = dict(method=method, x_interp_val=xi.copy(), vec_size=vec, interp_options=opts)
        if method == 'bsplines':
            kw['num_cp'] = n_cp
        else:
            kw['x_cp_val'] = grid.copy()
        c = om.SplineComp(**kw)
        for k in order:
            # the initial values given to add_spline are those of ANOTHER spline: only the connected values count
            c.add_spline(y_cp_name=ycp[k], y_interp_name=ys[k], y_cp_val=V[(k + 1) % S].copy(),
                         y_units=units[k][0] if units[k] else None)
        prob.model.add_subsystem('c', c)
        for k in range(S):
            prob.model.connect('ivc.' + ycp[k], 'c.' + ycp[k])
        if case.get('decoy'):
            # a second SplineComp with the SAME spline names and sizes, other control values, computed after 'c':
            # whatever it leaves behind (class-level / module-level state) must not show in the totals of 'c'
            kw2 = dict(kw, x_interp_val=xi.copy())
            if 'x_cp_val' in kw2:
                kw2['x_cp_val'] = grid.copy()
            d = om.SplineComp(**kw2)
            for k in order[::-1]:
                d.add_spline(y_cp_name=ycp[k], y_interp_name=ys[k], y_cp_val=(V[k][::-1, ::-1] * 0.7 + 0.05).copy(),
                             y_units=units[k][0] if units[k] else None)
            prob.model.add_subsystem('d', d)
            acc.count('obs:splinemulti:decoy-component')
        prob.setup(force_alloc_complex=not linear)
    except Exception as e:
        rep.viol('raises:%s@%s:splinemulti-setup:%s' % (type(e).__name__, C._where(e), method), str(e)[:200])
        return
    of = ['c.' + y for y in ys]
    wrt = ['ivc.' + n for n in ycp]

    def setv(vals):
        for k in range(S):
            prob.set_val('ivc.' + ycp[k], vals[k] / fac[k])

    def run(vals):
        setv(vals)
        prob.run_model()
        return [np.array(prob.get_val(o)).reshape(vec, n_i).copy() for o in of]

    def totals(ofs=None, wrts=None):
        J = prob.compute_totals(of=ofs or of, wrt=wrts or wrt, return_format='dict')
        return {(o, w): np.array(J[o][w], dtype=float).reshape(vec, n_i, vec, n_cp)
                for o in (ofs or of) for w in (wrts or wrt)}

    try:
        if case.get('revisit'):
            # another set of values first: whatever it leaves behind must not show at the judged values
            W = [v[::-1, ::-1].copy() * 0.5 for v in V]
            run(W)
            totals()
        Y = run(V)
        J = totals()
    except Exception as e:
        rep.viol('raises:%s@%s:splinemulti:%s' % (type(C._root(e)).__name__, C._where(e), method), str(e)[:200])
        return
    acc.count('cell:splinemulti:' + method)
    acc.count('obs:splinemulti:splines', S)

    try:
        # ---- foreign blocks and cross-vec coupling: exactly zero
        for k in range(S):
            for j in range(S):
                B = J[of[k], wrt[j]]
                if j != k:
                    acc.count('obs:splinemulti:foreign-block')
                    if np.any(B != 0.0):
                        rep.viol('splinemulti:foreign-block-nonzero:%s' % method,
                                 'd %s / d %s has non-zero entries (max %.3g)' % (ys[k], ycp[j], np.abs(B).max()))
                else:
                    for a in range(vec):
                        for b in range(vec):
                            if a != b and np.any(B[a, :, b, :] != 0.0):
                                rep.viol('splinemulti:cross-vec-coupling:%s' % method,
                                         'non-zero partial between vec rows of spline %d' % k)
        # own blocks, in component units
        Jd = [np.array([J[of[k], wrt[k]][a, :, a, :] for a in range(vec)]) / fac[k] for k in range(S)]
        # round-off allowance (dimensionless Jacobian entries) when the same totals are computed a second time
        jt = [16 * float(delta[k].max()) / vmax[k] for k in range(S)]
        pos = {k: order.index(k) for k in range(S)}         # position of the spline in the add_spline order

        def where(k):
            return 'last' if pos[k] == S - 1 else ('first' if pos[k] == 0 else 'middle')

        if not linear:
            # conditioning of the akima derivative formulas: same totals with values perturbed by 1e-12
            P = [v + 1e-12 * vm * rng.uniform(-1, 1, size=v.shape) for v, vm in zip(V, vmax)]
            run(P)
            Jp = totals()
            cond = [np.abs(np.array([Jp[of[k], wrt[k]][a, :, a, :] for a in range(vec)]) / fac[k] - Jd[k]).max(axis=2)
                    / 1e-12 for k in range(S)]
            run(V)
            ref = [np.empty_like(Jd[k]) for k in range(S)]
            prob.set_complex_step_mode(True)
            try:
                for q in range(n_cp):
                    # all splines are stepped in the same run: their outputs must not depend on each other
                    for k in range(S):
                        t = V[k].astype(complex)
                        t[:, q] += 1j * CS
                        prob.set_val('ivc.' + ycp[k], t / fac[k])
                    prob.run_model()
                    for k in range(S):
                        yc = np.array(prob.get_val(of[k])).reshape(vec, n_i)
                        ref[k][:, :, q] = yc.imag / CS
                        if not np.all(np.abs(yc.real - Y[k]) <= 2 * delta[k][None, :]):
                            rep.viol('splinemulti:complex-step-changes-value:akima',
                                     'spline %d: y=%s but Re y(ycp + ih)=%s'
                                     % (k, Y[k][0].tolist()[:4], yc.real[0].tolist()[:4]))
            finally:
                for k in range(S):
                    prob.set_val('ivc.' + ycp[k], (V[k] / fac[k]).astype(complex))
                prob.set_complex_step_mode(False)
            rep.judged = True
            for k in range(S):
                acc.count('obs:splinemulti:complex-step')
                acc.count('obs:splinemulti:judged-' + where(k))
                tol = 2 * (8 * delta[k][None, :] / vmax[k] + 64 * R.EPS * cond[k])
                jt[k] = float(tol.max())
                err = np.abs(Jd[k] - ref[k]).max(axis=2)
                if not np.all(err <= tol):
                    i = np.unravel_index(np.argmax(err - tol), err.shape)
                    q = int(np.argmax(np.abs(Jd[k][i] - ref[k][i])))
                    rep.viol('splinemulti:d_dcp' + C._optkey(opts) + ':akima',
                             'spline %d of %d (added %s; %s): x_interp=%r control point %d: total %r, complex step '
                             'through the component %r (tol %.3g)'
                             % (k, S, where(k), 'units %s<-%s' % units[k] if units[k] else 'no units',
                                float(xi[i[1]]), q, float(Jd[k][i][q]), float(ref[k][i][q]), tol[i]))
                if not opts.get('delta_x'):
                    acc.count('obs:splinemulti:euler')
                    got = np.einsum('vij,vj->vi', Jd[k], V[k])
                    tolE = 8 * delta[k][None, :] + 64 * R.EPS * cond[k] * np.abs(V[k]).sum(axis=1)[:, None]
                    if not np.all(np.abs(got - Y[k]) <= tolE):
                        rep.viol('splinemulti:euler-identity:akima',
                                 'spline %d of %d (added %s): J.ycp=%s but y=%s'
                                 % (k, S, where(k), got[0].tolist()[:4], Y[k][0].tolist()[:4]))
            run(V)
        else:
            rep.judged = True
            for k in range(S):
                acc.count('obs:splinemulti:identity')
                acc.count('obs:splinemulti:judged-' + where(k))
                got = np.einsum('vij,vj->vi', Jd[k], V[k])
                tol = 4 * delta[k][None, :] + 8 * R.EPS * np.einsum('vij,vj->vi', np.abs(Jd[k]), np.abs(V[k]))
                if not np.all(np.abs(got - Y[k]) <= tol):
                    rep.viol('splinemulti:identity:%s' % method,
                             'spline %d of %d (added %s): J.ycp=%s but y=%s'
                             % (k, S, where(k), got[0].tolist()[:4], Y[k][0].tolist()[:4]))
            relJ = max(float(d.max()) / vm for d, vm in zip(delta, vmax))
            for k in range(1, S):
                acc.count('obs:splinemulti:jacobian-same-for-all-splines')
                if not np.all(np.abs(Jd[k] - Jd[0]) <= 16 * relJ):
                    rep.viol('splinemulti:jacobian-differs-across-splines:%s' % method,
                             'max difference %.3g between splines 0 and %d' % (float(np.abs(Jd[k] - Jd[0]).max()), k))
            if sup:
                c3, a, b = sup
                acc.count('obs:superposition')
                tols = 4 * (delta[a] + abs(alpha) * delta[b] + delta[c3])[None, :]
                if not np.all(np.abs(Y[c3] - (Y[a] + alpha * Y[b])) <= tols):
                    rep.viol('splinemulti:superposition:%s' % method,
                             'the spline given v_a + alpha v_b is not y_a + alpha y_b')
        # ---- totals of one non-last spline alone
        cand = [k for k in range(S) if pos[k] != S - 1]
        k = cand[int(rng.integers(0, len(cand)))]
        J1 = totals([of[k]], [wrt[k]])[of[k], wrt[k]]
        acc.count('obs:splinemulti:single-of')
        if not np.all(np.abs(J1 - J[of[k], wrt[k]]) <= jt[k] * fac[k]):
            rep.viol('splinemulti:single-of-differs:%s' % method,
                     'totals of spline %d asked alone differ from the block of the full Jacobian by %.3g'
                     % (k, float(np.abs(J1 - J[of[k], wrt[k]]).max())))
        # ---- other values for ONE spline, then back: same Jacobian as before
        if case.get('revisit'):
            j = int(rng.integers(0, S))
            W = [v.copy() for v in V]
            W[j] = V[j][:, ::-1] * 1.5 + 0.1 * vmax[j]
            run(W)
            Jw = totals()
            acc.count('obs:splinemulti:revisit')
            for k in range(S):
                if k != j and not np.all(np.abs(Jw[of[k], wrt[k]] - J[of[k], wrt[k]]) <= jt[k] * fac[k]):
                    rep.viol('splinemulti:foreign-values-change-jacobian:%s' % method,
                             'new control values of spline %d changed the totals of spline %d by %.3g'
                             % (j, k, float(np.abs(Jw[of[k], wrt[k]] - J[of[k], wrt[k]]).max())))
            run(V)
            Jb = totals()
            for k in range(S):
                if not np.all(np.abs(Jb[of[k], wrt[k]] - J[of[k], wrt[k]]) <= jt[k] * fac[k]):
                    rep.viol('splinemulti:revisit-differs:%s' % method,
                             'same control values again: totals of spline %d differ by %.3g'
                             % (k, float(np.abs(Jb[of[k], wrt[k]] - J[of[k], wrt[k]]).max())))
    except Exception as e:
        rep.viol('raises:%s@%s:splinemulti:%s' % (type(C._root(e)).__name__, C._where(e), method), str(e)[:200])
    try:
        prob.cleanup()
    except Exception:
        pass
    rep.done()


# ------------------------------------------------------------------------------------------------
# part tablemulti
# ------------------------------------------------------------------------------------------------
def judge_tablemulti(case, acc):
    import openmdao.api as om
    C = _C()
    method = case['method']
    comp = case['comp']
    rng, grids, t0, t1 = C._table(case)
    rep = C._Report(acc, case)
    nd = len(grids)
    K = case['vec']
    S = case['n_out']
    tdg = bool(case.get('tdg')) and method not in R.FIXED_DIM
    akima = 'akima' in method
    scipy = method in R.SCIPY_ORDER
    linear = not akima
    alpha = float(rng.uniform(-2, 2))
    T = [t0, t1 * 10.0 ** rng.uniform(-1, 1)]
    for k in range(2, S):
        T.append(rng.uniform(-1, 1, size=t0.shape) * 10.0 ** rng.uniform(-1, 1))
    sup = None
    if linear and S >= 3:
        sup = (S - 1, 0, 1)
        T[S - 1] = T[0] + alpha * T[1]
    order = [int(i) for i in rng.permutation(S)]
    vmax = [float(np.abs(t).max()) for t in T]
    P = [C._interior(rng, method, grids) for _ in range(K)]
    X = np.array([p[0] for p in P])
    dist = np.array([p[1] for p in P])
    X2 = np.array([C._interior(rng, method, grids)[0] for _ in range(K)])
    delta = [np.array([C._delta(method, grids, x, vm) for x in X]) for vm in vmax]
    if max(d.max() / vm for d, vm in zip(delta, vmax)) > C.ILL:
        acc.skip('ill-conditioned-grid')
        return
    # round-off of the derivative formulas written in expanded coordinates (general lagrange tables), (K, nd) each
    xform = [np.array([R.deriv_expanded_roundoff(method, grids, x, vm, semi=(comp == 'semi')) for x in X])
             for vm in vmax]
    names = ['x%d' % d for d in range(nd)]
    fs = ['f%d' % k for k in range(S)]
    trains = [f + '_train' for f in fs]
    mesh = np.meshgrid(*grids, indexing='ij')

    def shape_t(t):
        return np.array(t).reshape(t0.shape) if comp == 'mmsc' else np.array(t).ravel()

    def build(tables):
        prob = om.Problem()
        ivc = prob.model.add_subsystem('ivc', om.IndepVarComp(), promotes=['*'])
        for d, n in enumerate(names):
            ivc.add_output(n, X[:, d].copy())
        if comp == 'mmsc':
            c = om.MetaModelStructuredComp(method=method, extrapolate=True, vec_size=K, training_data_gradients=tdg)
            for n, g in zip(names, grids):
                c.add_input(n, 0.0, training_data=g.copy())
            for k in order:
                c.add_output(fs[k], 0.0, training_data=shape_t(tables[k]))
        else:
            c = om.MetaModelSemiStructuredComp(method=method, extrapolate=True, vec_size=K,
                                               training_data_gradients=tdg)
            for n, m in zip(names, mesh):
                c.add_input(n, training_data=m.ravel().copy())
            for k in order:
                c.add_output(fs[k], training_data=shape_t(tables[k]))
        prob.model.add_subsystem('c', c, promotes=['*'])
        if case.get('decoy'):
            # a second component of the same class with the SAME variable names, other tables, computed after 'c'
            if comp == 'mmsc':
                d = om.MetaModelStructuredComp(method=method, extrapolate=True, vec_size=K,
                                               training_data_gradients=tdg)
                for n, g in zip(names, grids):
                    d.add_input(n, 0.5 * (g[0] + g[-1]), training_data=g.copy())
                for k in order[::-1]:
                    d.add_output(fs[k], 0.0, training_data=shape_t(tables[k][::-1] * 0.7 + 0.05))
            else:
                d = om.MetaModelSemiStructuredComp(method=method, extrapolate=True, vec_size=K,
                                                   training_data_gradients=tdg)
                for n, g, m in zip(names, grids, mesh):
                    d.add_input(n, training_data=m.ravel().copy(), val=0.5 * (g[0] + g[-1]))
                for k in order[::-1]:
                    d.add_output(fs[k], training_data=shape_t(tables[k][::-1] * 0.7 + 0.05))
            prob.model.add_subsystem('d', d)
            acc.count('obs:tablemulti:decoy-component')
        prob.setup(force_alloc_complex=not scipy)
        return prob

    def run(prob, Xs, tables=None):
        for d, n in enumerate(names):
            prob.set_val(n, Xs[:, d])
        if tables is not None and tdg:
            for k in range(S):
                prob.set_val(trains[k], shape_t(tables[k]))
        prob.run_model()
        return [np.array(prob.get_val(f)).ravel().copy() for f in fs]

    def totals(prob):
        wrt = list(names) + (trains if tdg else [])
        J = prob.compute_totals(of=fs, wrt=wrt, return_format='dict')
        return {(o, w): np.array(J[o][w], dtype=float) for o in fs for w in wrt}

    def run_cs(prob, Xc, tables):
        prob.set_complex_step_mode(True)
        try:
            for d, n in enumerate(names):
                prob.set_val(n, Xc[:, d])
            if tdg:
                for k in range(S):
                    prob.set_val(trains[k], shape_t(tables[k]))
            prob.run_model()
            return [np.array(prob.get_val(f)).ravel().copy() for f in fs]
        finally:
            for d, n in enumerate(names):
                prob.set_val(n, X[:, d].astype(complex))
            if tdg:
                for k in range(S):
                    prob.set_val(trains[k], shape_t(T[k]).astype(complex))
            prob.set_complex_step_mode(False)

    tag = '%s:%s' % (comp, method)
    try:
        prob = build(T)
        if case.get('revisit'):
            run(prob, X2)
            totals(prob)
        F = run(prob, X)
        J = totals(prob)
    except Exception as e:
        rep.viol('raises:%s@%s:tablemulti%s:%s:%dD' % (type(C._root(e)).__name__, C._where(e),
                                                       '-training_data_gradients' if tdg else '', tag, nd),
                 str(e)[:200])
        return
    acc.count('cell:tablemulti:' + tag)
    acc.count('obs:tablemulti:outputs', S)
    pos = {k: order.index(k) for k in range(S)}

    def where(k):
        return 'last' if pos[k] == S - 1 else ('first' if pos[k] == 0 else 'middle')

    try:
        cond_x = cond_t = None
        if akima:
            Pt = [t + 1e-12 * vm * rng.uniform(-1, 1, size=t.shape) for t, vm in zip(T, vmax)]
            p2 = build(Pt)
            run(p2, X)
            Jp = totals(p2)
            cond_x = [np.array([np.abs(np.diag(Jp[fs[k], n].reshape(K, K)) - np.diag(J[fs[k], n].reshape(K, K)))
                                for n in names]).T / 1e-12 for k in range(S)]            # (K, nd) each
            if tdg:
                cond_t = [np.abs(Jp[fs[k], trains[k]].reshape(K, -1) - J[fs[k], trains[k]].reshape(K, -1)).max(axis=1)
                          / 1e-12 for k in range(S)]
            p2.cleanup()
        # ---- d f_k / d x
        for ax, n in enumerate(names):
            if not scipy:
                Xc = X.astype(complex)
                Xc[:, ax] += 1j * CS
                Fc = run_cs(prob, Xc, [t.astype(complex) for t in T])
                acc.count('obs:tablemulti:d_dx-complex-step')
            else:
                h = dist[:, ax].min() / 4.0
                D1 = _fd7_multi(lambda Xs: run(prob, Xs), X, ax, h)
                D2 = _fd7_multi(lambda Xs: run(prob, Xs), X, ax, h / 2.0)
                run(prob, X)
                acc.count('obs:tablemulti:d_dx-fd7')
            for k in range(S):
                Jx = J[fs[k], n].reshape(K, K)
                d = np.diag(Jx)
                if np.any(Jx - np.diag(d) != 0.0):
                    rep.viol('tablemulti:d_dx-offdiagonal:' + tag, 'non-zero coupling between vec entries')
                acc.count('obs:tablemulti:judged-' + where(k))
                if not scipy:
                    ref = Fc[k].imag / CS
                    tol = 2 * (5.0 * delta[k] / dist[:, ax] + xform[k][:, ax]
                               + (64 * R.EPS * cond_x[k][:, ax] if akima else 0.0))
                    rep.judged = True
                    if not np.all(np.abs(Fc[k].real - F[k]) <= 2 * delta[k]):
                        rep.viol('tablemulti:complex-step-changes-value:' + tag,
                                 'output %d: %s but real part under complex step %s'
                                 % (k, F[k].tolist(), Fc[k].real.tolist()))
                    bad = ~(np.abs(d - ref) <= tol)
                else:
                    tol = 5.0 * delta[k] / dist[:, ax] + (11.0 / 6.0) * 2 * delta[k] / (h / 2.0)
                    incons = np.abs(D1[k] - D2[k]) > 2 * tol
                    if incons.any():
                        acc.count('skip:fd-inconsistent', int(incons.sum()))
                    if (~incons).any():
                        rep.judged = True
                    ref = D2[k]
                    bad = ~incons & ~(np.abs(d - ref) <= tol + np.abs(D1[k] - D2[k]))
                if bad.any():
                    j = int(np.argmax(bad))
                    rep.viol('tablemulti:d_dx:' + tag,
                             'output %d of %d (added %s): x=%s axis %d: partial %r, numerical derivative of the '
                             'output %r (tol %.3g)' % (k, S, where(k), X[j].tolist(), ax, float(d[j]),
                                                        float(ref[j]), float(tol[j])))
        # ---- d f_k / d f_j_train
        if tdg:
            nt = T[0].size
            Jt = [J[fs[k], trains[k]].reshape(K, nt) for k in range(S)]
            for k in range(S):
                for j in range(S):
                    if j != k:
                        acc.count('obs:tablemulti:foreign-block')
                        if np.any(J[fs[k], trains[j]] != 0.0):
                            rep.viol('tablemulti:foreign-block-nonzero:' + tag,
                                     'd %s / d %s has non-zero entries' % (fs[k], trains[j]))
            if not scipy:
                sel = rng.choice(nt, size=min(10 if nd < 3 else 6, nt), replace=False)
                for q in sel:
                    Tc = []
                    for k in range(S):
                        t = T[k].astype(complex).ravel()
                        t[q] += 1j * CS
                        Tc.append(t.reshape(T[k].shape))
                    Fc = run_cs(prob, X.astype(complex), Tc)
                    acc.count('obs:tablemulti:d_dtrain-complex-step')
                    rep.judged = True
                    for k in range(S):
                        ref = Fc[k].imag / CS
                        tol = 2 * (8 * delta[k] / vmax[k] + (64 * R.EPS * cond_t[k] if akima else 0.0))
                        bad = ~(np.abs(Jt[k][:, q] - ref) <= tol)
                        if bad.any():
                            j = int(np.argmax(bad))
                            rep.viol('tablemulti:d_dtrain:%s:%dD' % (tag, nd),
                                     'output %d of %d (added %s): x=%s table entry %d: partial %r, complex step '
                                     'through the component %r (tol %.3g)'
                                     % (k, S, where(k), X[j].tolist(), int(q), float(Jt[k][j, q]), float(ref[j]),
                                        float(tol[j])))
                            break
            for k in range(S):
                got = Jt[k] @ T[k].ravel()
                if akima:
                    acc.count('obs:tablemulti:d_dtrain-euler')
                    tolE = 8 * delta[k] + 64 * R.EPS * cond_t[k] * float(np.abs(T[k]).sum())
                else:
                    acc.count('obs:tablemulti:d_dtrain-identity')
                    tolE = 4 * delta[k] + 8 * R.EPS * (np.abs(Jt[k]) @ np.abs(T[k].ravel()))
                rep.judged = True
                if not np.all(np.abs(got - F[k]) <= tolE):
                    j = int(np.argmax(np.abs(got - F[k]) - tolE))
                    rep.viol('tablemulti:d_dtrain-%s:%s:%dD' % ('euler-identity' if akima else 'identity', tag, nd),
                             'output %d of %d (added %s): x=%s: <partial, training values>=%r but output=%r '
                             '(tol %.3g)' % (k, S, where(k), X[j].tolist(), float(got[j]), float(F[k][j]),
                                             float(tolE[j])))
            if linear:
                relJ = max(float(d.max()) / vm for d, vm in zip(delta, vmax))
                for k in range(1, S):
                    acc.count('obs:tablemulti:jacobian-same-for-all-outputs')
                    if not np.all(np.abs(Jt[k] - Jt[0]) <= 16 * relJ):
                        rep.viol('tablemulti:d_dtrain-differs-across-outputs:' + tag,
                                 'max difference %.3g between outputs 0 and %d'
                                 % (float(np.abs(Jt[k] - Jt[0]).max()), k))
        if sup:
            c3, a, b = sup
            acc.count('obs:superposition')
            if not np.all(np.abs(F[c3] - (F[a] + alpha * F[b])) <= 4 * (delta[a] + abs(alpha) * delta[b] + delta[c3])):
                rep.viol('tablemulti:superposition:' + tag, 'the table v_a + alpha v_b is not f_a + alpha f_b')
        # ---- other points, then the first points again: same partials as before
        run(prob, X2, T)
        totals(prob)
        run(prob, X, T)
        Jb = totals(prob)
        acc.count('obs:tablemulti:revisit')
        for key in J:
            k = fs.index(key[0])
            if key[1] in names:
                ax = names.index(key[1])
                tk = np.diag(2 * (5.0 * delta[k] / dist[:, ax] + xform[k][:, ax]
                                  + (64 * R.EPS * cond_x[k][:, ax] if akima else 0.0)))
                tk = tk + np.zeros((K, K))
            else:
                tk = (2 * (8 * delta[k] / vmax[k] + (64 * R.EPS * cond_t[k] if akima else 0.0)))[:, None]
            if not np.all(np.abs(Jb[key].reshape(K, -1) - J[key].reshape(K, -1)) <= tk):
                rep.viol('tablemulti:revisit-differs:' + tag,
                         'same inputs again: d %s / d %s differs by %.3g'
                         % (key[0], key[1], float(np.abs(Jb[key] - J[key]).max())))
                break
    except Exception as e:
        rep.viol('raises:%s@%s:tablemulti:%s' % (type(C._root(e)).__name__, C._where(e), tag), str(e)[:200])
    try:
        prob.cleanup()
    except Exception:
        pass
    rep.done()


def _fd7_multi(run, X, ax, h):
    vals = []
    for s in (-3, -2, -1, 0, 1, 2, 3):
        Xs = X.copy()
        Xs[:, ax] += s * h
        vals.append(np.array(run(Xs)))            # (S, K)
    return np.tensordot(W7, np.array(vals), axes=(0, 0)) / h


# ------------------------------------------------------------------------------------------------
# part interleave
# ------------------------------------------------------------------------------------------------
def _unit_jacobian(make, n_cp, vec, n_i):
    """Jacobian of a spline that is linear in its control values, from the VALUE path: column j = spline(e_j)."""
    Jr = np.empty((n_i, n_cp))
    for j in range(n_cp):
        e = np.zeros((1, n_cp))
        e[0, j] = 1.0
        Jr[:, j] = np.asarray(make().evaluate_spline(e), dtype=float).reshape(n_i)
    return Jr


def judge_interleave(case, acc):
    C = _C()
    rep = C._Report(acc, case)
    if case['kind'] == 'spline':
        _interleave_spline(case, acc, rep, C)
    else:
        _interleave_table(case, acc, rep, C)
    rep.done()


def _interleave_table(case, acc, rep, C):
    methods = case['methods']
    rng = np.random.default_rng(case['seed'])
    n = len(methods)
    nd = len(case['npts'])
    objs = []
    base_grids = None
    for k, m in enumerate(methods):
        if case['same_grid'] and base_grids is not None:
            grids = base_grids
        else:
            grids = [R.make_grid(rng, npt, kd, case['max_ratio']) for npt, kd in zip(case['npts'], case['kinds'])]
            base_grids = base_grids or grids
        vals = rng.uniform(-1, 1, size=tuple(len(g) for g in grids)) * 10.0 ** rng.uniform(-1, 1)
        opts = {}
        if m == 'akima' and rng.random() < 0.5:
            opts = {'delta_x': 0.05}
        pts = [C._interior(rng, m, grids) for _ in range(2)]
        objs.append({'m': m, 'grids': grids, 'vals': vals, 'opts': opts, 'pts': pts})
    tagm = '+'.join(sorted(set(methods)))
    # references on fresh objects
    try:
        for o in objs:
            o['ref'] = []
            for x, dist in o['pts']:
                f, ref, tol, delta = num_gradient(o['m'], o['grids'], o['vals'], x, dist, o['opts'], rng, acc.count)
                if delta / float(np.abs(o['vals']).max()) > C.ILL:
                    acc.skip('ill-conditioned-grid')
                    rep.judged = rep.bad = False
                    rep.done = lambda: None
                    return
                o['ref'].append((f, ref, tol, delta))
    except Exception as e:
        rep.viol('raises:%s@%s:interleave-reference:%s' % (type(e).__name__, C._where(e), tagm), str(e)[:200])
        return
    acc.count('cell:interleave:table')
    for m in set(methods):
        acc.count('cell:interleave:' + m)

    def cmp_grad(o, k, p, g, what):
        f, ref, tol, _ = o['ref'][p]
        acc.count('obs:interleave:' + what)
        rep.judged = True
        if not _close(g, ref, tol):
            rep.viol('interleave:%s:%s' % (what, o['m']),
                     'object %d of %d (%s), point %d: %s, numerical gradient of a fresh object %s'
                     % (k, n, '+'.join(methods), p, np.asarray(g).ravel().tolist(), ref.tolist()))

    try:
        for k, o in enumerate(objs):
            o['it'] = _mk(o['m'], o['grids'], o['vals'], bool(rng.random() < 0.5), o['opts'])
            o['spy'] = _Spy(o['it'], acc)
            # call form: (1, n) arrays (the form for which gradient() can answer from its cache) / 1-D arrays
            o['form'] = (lambda x: np.array(x, dtype=float).reshape(1, nd)) if (k % 2 == 0 or nd == 1) \
                else (lambda x: np.array(x, dtype=float))
        kept = []
        # round 1: derivative call on every object
        for k, o in enumerate(objs):
            f, d = o['it'].interpolate(o['form'](o['pts'][0][0]), compute_derivative=True)
            kept.append((k, d, np.array(d, copy=True)))
            cmp_grad(o, k, 0, d, 'first-call')
            if not abs(float(np.asarray(f).ravel()[0]) - o['ref'][0][0]) <= 2 * o['ref'][0][3]:
                rep.viol('interleave:value:%s' % o['m'], 'value differs from that of a fresh object')
        # round 2: cached gradients, other order
        for k in [int(i) for i in rng.permutation(n)]:
            o = objs[k]
            cmp_grad(o, k, 0, o['spy'].gradient(o['form'](o['pts'][0][0])), 'cached-gradient')
        # round 3: move one object to its second point, then ask the others for their (still cached) first point
        for k in range(n):
            o = objs[k]
            f, d = o['it'].interpolate(o['form'](o['pts'][1][0]), compute_derivative=True)
            kept.append((k, d, np.array(d, copy=True)))
            cmp_grad(o, k, 1, d, 'second-point')
            for j in range(n):
                if j != k:
                    p = 1 if j < k else 0
                    cmp_grad(objs[j], j, p, objs[j]['spy'].gradient(objs[j]['form'](objs[j]['pts'][p][0])),
                             'cached-gradient-after-other-object')
        # training gradients (methods linear in the values): identity with the value of a fresh object
        for k, o in enumerate(objs):
            if o['m'] in C.LINEAR:
                x = o['pts'][0][0]
                tg = np.asarray(o['it'].training_gradients(x.copy()), dtype=float).reshape(o['vals'].shape)
                f, _, _, delta = o['ref'][0]
                acc.count('obs:interleave:training-gradient-identity')
                got = float((tg * o['vals']).sum())
                if not abs(got - f) <= 4 * delta + 8 * R.EPS * float(np.abs(tg * o['vals']).sum()):
                    rep.viol('interleave:training-gradient-identity:%s' % o['m'],
                             '<training_gradients, values>=%r, value of a fresh object %r' % (got, f))
                # ... and the cached point gradient survives the training-gradient call
                cmp_grad(o, k, 1, o['spy'].gradient(o['form'](o['pts'][1][0])),
                         'cached-gradient-after-training-gradients')
        for k, d, dcopy in kept:
            acc.count('obs:returned-array-stable')
            if not np.array_equal(np.asarray(d), dcopy):
                rep.viol('interleave:returned-array-overwritten:%s' % objs[k]['m'],
                         'the derivative array returned earlier was changed by later calls')
    except Exception as e:
        rep.viol('raises:%s@%s:interleave:%s' % (type(e).__name__, C._where(e), tagm), str(e)[:200])


def _interleave_spline(case, acc, rep, C):
    from openmdao.components.interp_util.interp import InterpND
    method = case['method']
    rng, grid, xi, v1, _v2, opts = C._spline_setup(case)
    vec, n_cp = v1.shape
    n_i = len(xi)
    n = case['n_obj']
    V = [v1] + [rng.uniform(-1, 1, (vec, n_cp)) * 10.0 ** rng.uniform(-1, 1) for _ in range(n - 1)]
    vmax = [float(np.abs(v).max()) for v in V]
    delta = [C._spline_delta(method, grid, xi, vm) for vm in vmax]
    if max(d.max() / vm for d, vm in zip(delta, vmax)) > C.ILL:
        acc.skip('ill-conditioned-grid')
        rep.done = lambda: None
        return

    def make():
        if method == 'bsplines':
            return InterpND(method=method, num_cp=n_cp, x_interp=xi.copy(), **opts)
        return InterpND(method=method, points=grid.copy(), x_interp=xi.copy(), **opts)

    try:
        refs, tols = [], []
        if method == 'akima':
            for k in range(n):
                _, d0 = make().evaluate_spline(V[k].copy(), compute_derivative=True)
                pert = V[k] + 1e-12 * vmax[k] * rng.uniform(-1, 1, size=V[k].shape)
                _, dp = make().evaluate_spline(pert, compute_derivative=True)
                cond = np.abs(C._as3(dp, vec, n_i, n_cp) - C._as3(d0, vec, n_i, n_cp)).max(axis=2) / 1e-12
                ref = np.empty((vec, n_i, n_cp))
                for j in range(n_cp):
                    vc = V[k].astype(complex)
                    vc[:, j] += 1j * CS
                    ref[:, :, j] = np.asarray(make().evaluate_spline(vc)).reshape(vec, n_i).imag / CS
                refs.append(ref)
                tols.append((2 * (8 * delta[k][None, :] / vmax[k] + 64 * R.EPS * cond * vmax[k]))[:, :, None])
                acc.count('obs:ref:complex-step')
        else:
            Jr = _unit_jacobian(make, n_cp, vec, n_i)
            acc.count('obs:ref:unit-vectors')
            for k in range(n):
                refs.append(np.broadcast_to(Jr, (vec, n_i, n_cp)))
                tols.append((16 * delta[k] / vmax[k])[None, :, None])
    except Exception as e:
        rep.viol('raises:%s@%s:interleave-reference:%s' % (type(e).__name__, C._where(e), method), str(e)[:200])
        return
    acc.count('cell:interleave:spline')
    acc.count('cell:interleave:spline:' + method)

    def cmp(k, d, what):
        acc.count('obs:interleave:' + what)
        rep.judged = True
        d = C._as3(np.asarray(d, dtype=float), vec, n_i, n_cp)
        if not np.all(np.abs(d - refs[k]) <= tols[k]):
            rep.viol('interleave:%s%s:%s' % (what, C._optkey(opts), method),
                     'object %d of %d: max deviation %.3g from the reference Jacobian'
                     % (k, n, float(np.abs(d - refs[k]).max())))

    try:
        its = [make() for _ in range(n)]
        kept = []
        for k in range(n):
            r, d = its[k].evaluate_spline(V[k].copy(), compute_derivative=True)
            kept.append((k, d, np.array(d, copy=True)))
            cmp(k, d, 'spline-first-call')
        # what SplineComp does: evaluate everything first, then read the gradients back
        for k in [int(i) for i in rng.permutation(n)]:
            cmp(k, its[k].spline_gradient(), 'spline-gradient-after-other-objects')
        for k, d, dcopy in kept:
            acc.count('obs:returned-array-stable')
            if not np.array_equal(np.asarray(d), dcopy):
                rep.viol('interleave:returned-array-overwritten:%s' % method,
                         'the derivative array returned earlier was changed by later calls')
    except Exception as e:
        rep.viol('raises:%s@%s:interleave:%s' % (type(e).__name__, C._where(e), method), str(e)[:200])


# ------------------------------------------------------------------------------------------------
# part cachestate
# ------------------------------------------------------------------------------------------------
def judge_cachestate(case, acc):
    C = _C()
    rep = C._Report(acc, case)
    {'table': _cache_table, 'semi': _cache_semi, 'spline': _cache_spline}[case['kind']](case, acc, rep, C)
    rep.done()


def _cache_table(case, acc, rep, C):
    method = case['method']
    rng, grids, v1, _ = C._table(case)
    nd = len(grids)
    vmax = float(np.abs(v1).max())
    opts = C._opts(case)
    pts = [C._interior(rng, method, grids) for _ in range(3)]
    try:
        refs = [num_gradient(method, grids, v1, x, dist, opts, rng, acc.count) for x, dist in pts]
    except Exception as e:
        rep.viol('raises:%s@%s:cachestate-reference:%s' % (type(e).__name__, C._where(e), method), str(e)[:200])
        return
    if max(r[3] for r in refs) / vmax > C.ILL:
        acc.skip('ill-conditioned-grid')
        rep.done = lambda: None
        return
    acc.count('cell:cachestate:table:' + method)
    (x1, _), (x2, _), (x3, _) = pts

    def shaped(x):
        """The call forms the API documents for one point: 1-D array on an N-D table, (1, N) array."""
        if nd == 1 or case.get('two_d'):
            return np.array(x, dtype=float).reshape(1, nd)
        return np.array(x, dtype=float)

    def cmp(p, g, what):
        acc.count('obs:cachestate:' + what)
        rep.judged = True
        if not _close(g, refs[p][1], refs[p][2]):
            rep.viol('cachestate:%s:%s' % (what, 'InterpND'),
                     '%s %d-D: asked for point %d=%s: got %s, numerical gradient of a fresh object %s '
                     '(gradients of the other points: %s)'
                     % (method, nd, p, pts[p][0].tolist(), np.asarray(g).ravel().tolist(), refs[p][1].tolist(),
                        [r[1].tolist() for i, r in enumerate(refs) if i != p]))

    try:
        it = _mk(method, grids, v1, bool(rng.random() < 0.5), opts)
        spy = _Spy(it, acc)
        # (a) x1, x2, then x1 again
        _, d1 = it.interpolate(shaped(x1), compute_derivative=True)
        d1c = np.array(d1, copy=True)
        cmp(0, d1, 'first-call')
        _, d2 = it.interpolate(shaped(x2), compute_derivative=True)
        cmp(1, d2, 'second-point')
        acc.count('obs:returned-array-stable')
        if not np.array_equal(np.asarray(d1), d1c):
            rep.viol('cachestate:returned-array-overwritten:InterpND',
                     '%s: the derivative array returned for x1 was changed by the call for x2' % method)
        cmp(0, spy.gradient(shaped(x1)), 'gradient-of-earlier-point')
        cmp(0, spy.gradient(shaped(x1)), 'gradient-repeated')
        # (b) value-only call, then gradient of the same point and of another one
        it.interpolate(shaped(x3))
        cmp(2, spy.gradient(shaped(x3)), 'gradient-after-value-only-call')
        it.interpolate(shaped(x2))
        cmp(0, spy.gradient(shaped(x1)), 'gradient-of-other-point-after-value-only-call')
        # (c) batched call, then one of its points alone, then the batch in another order
        X = np.array([x1, x2, x3])
        _, D = it.interpolate(X.copy(), compute_derivative=True)
        D = np.asarray(D, dtype=float).reshape(3, nd)
        for p in range(3):
            cmp(p, D[p], 'batched')
        cmp(1, spy.gradient(shaped(x2)), 'gradient-single-after-batched')
        G = np.asarray(spy.gradient(X[::-1].copy()), dtype=float).reshape(3, nd)
        for p in range(3):
            cmp(2 - p, G[p], 'gradient-batched-reordered')
        # (d) training gradients between the calls (methods that offer them) must leave the point cache intact
        if method in C.LINEAR:
            it.interpolate(shaped(x1), compute_derivative=True)
            tg = np.asarray(it.training_gradients(np.array(x2, dtype=float)), dtype=float).reshape(v1.shape)
            acc.count('obs:cachestate:training-gradient-identity')
            got = float((tg * v1).sum())
            if not abs(got - refs[1][0]) <= 4 * refs[1][3] + 8 * R.EPS * float(np.abs(tg * v1).sum()):
                rep.viol('cachestate:training-gradient-identity:InterpND',
                         '%s: <training_gradients(x2), values>=%r but f(x2)=%r' % (method, got, refs[1][0]))
            cmp(0, spy.gradient(shaped(x1)), 'gradient-after-training-gradients')
        # (e) the caller's array is changed in place between interpolate() and gradient()
        for form in ('1d', '2d'):
            if form == '1d' and nd == 1:
                continue
            xa = np.array(x1, dtype=float) if form == '1d' else np.array(x1, dtype=float).reshape(1, nd)
            it2 = _mk(method, grids, v1, True, opts)
            it2.interpolate(xa, compute_derivative=True)
            xa[...] = np.array(x2, dtype=float).reshape(xa.shape)
            g = it2.gradient(xa)
            acc.count('obs:cachestate:gradient-after-inplace-change')
            rep.judged = True
            if not _close(g, refs[1][1], refs[1][2]):
                stale = _close(g, refs[0][1], refs[0][2])
                rep.viol('cachestate:gradient-after-inplace-change:InterpND',
                         '%s %d-D, %s query array changed in place from %s to %s after interpolate(): gradient(x) '
                         'returned %s%s, numerical gradient at the new point %s'
                         % (method, nd, 'one-dimensional' if form == '1d' else '(1, n)', pts[0][0].tolist(),
                            pts[1][0].tolist(), np.asarray(g).ravel().tolist(),
                            ' (= the gradient at the OLD point)' if stale else '', refs[1][1].tolist()))
    except Exception as e:
        rep.viol('raises:%s@%s:cachestate:%s' % (type(e).__name__, C._where(e), method), str(e)[:200])


def _cache_semi(case, acc, rep, C):
    from openmdao.components.interp_util.interp_semi import InterpNDSemi
    method = case['method']
    rng, grids, v1, _ = C._table(case)
    nd = len(grids)
    vmax = float(np.abs(v1).max())
    mesh = np.meshgrid(*grids, indexing='ij')
    pts_tab = np.array([m.ravel() for m in mesh]).T
    pts = [C._interior(rng, method, grids) for _ in range(3)]

    def make(vals=None):
        return InterpNDSemi(pts_tab.copy(), (v1 if vals is None else vals).ravel().copy(), method=method,
                            extrapolate=True)

    try:
        refs = []
        for x, dist in pts:
            delta = C._delta(method, grids, x, vmax)
            cond = 0.0
            if method == 'akima':
                pert = v1 + 1e-12 * vmax * rng.uniform(-1, 1, size=v1.shape)
                _, d0 = make().interpolate(x.reshape(1, nd).copy(), compute_derivative=True)
                _, dp = make(pert).interpolate(x.reshape(1, nd).copy(), compute_derivative=True)
                cond = float(np.abs(np.asarray(dp) - np.asarray(d0)).max()) / 1e-12
            ref = np.empty(nd)
            for ax in range(nd):
                xc = x.reshape(1, nd).astype(complex)
                xc[0, ax] += 1j * CS
                ref[ax] = np.asarray(make().interpolate(xc)).ravel()[0].imag / CS
                acc.count('obs:ref:complex-step')
            refs.append((ref, 2 * (5.0 * delta / dist + 64 * R.EPS * cond
                                   + R.deriv_expanded_roundoff(method, grids, x, vmax, semi=True)), delta))
    except Exception as e:
        rep.viol('raises:%s@%s:cachestate-reference:semi:%s' % (type(e).__name__, C._where(e), method), str(e)[:200])
        return
    if max(r[2] for r in refs) / vmax > C.ILL:
        acc.skip('ill-conditioned-grid')
        rep.done = lambda: None
        return
    acc.count('cell:cachestate:semi:' + method)

    def cmp(p, g, what):
        acc.count('obs:cachestate:semi:' + what)
        rep.judged = True
        if not _close(g, refs[p][0], refs[p][1]):
            rep.viol('cachestate:%s:InterpNDSemi' % what,
                     '%s %d-D: asked for point %d: got %s, numerical gradient of a fresh object %s'
                     % (method, nd, p, np.asarray(g).ravel().tolist(), refs[p][0].tolist()))

    try:
        it = make()
        x1, x2, x3 = [p[0].reshape(1, nd) for p in pts]
        _, d1 = it.interpolate(x1.copy(), compute_derivative=True)
        cmp(0, d1, 'first-call')
        _, d2 = it.interpolate(x2.copy(), compute_derivative=True)
        cmp(1, d2, 'second-point')
        cmp(0, it.gradient(x1.copy()), 'gradient-of-earlier-point')
        X = np.vstack([x1, x2, x3])
        try:
            _, D = it.interpolate(X.copy(), compute_derivative=True)
            for p in range(3):
                cmp(p, np.asarray(D)[p], 'batched')
            cmp(2, it.gradient(x3.copy()), 'gradient-single-after-batched')
        except Exception as e:
            rep.viol('raises:%s@%s:cachestate:batched-call-after-one-point-call:InterpNDSemi'
                     % (type(e).__name__, C._where(e)), '%s %d-D: %s' % (method, nd, str(e)[:200]))
        xa = x1.copy()
        it2 = make()
        it2.interpolate(xa, compute_derivative=True)
        xa[...] = x2
        g = it2.gradient(xa)
        acc.count('obs:cachestate:gradient-after-inplace-change')
        if not _close(g, refs[1][0], refs[1][1]):
            stale = _close(g, refs[0][0], refs[0][1])
            rep.viol('cachestate:gradient-after-inplace-change:InterpNDSemi',
                     '%s %d-D: query array changed in place from %s to %s after interpolate(): gradient(x) returned '
                     '%s%s, numerical gradient at the new point %s'
                     % (method, nd, pts[0][0].tolist(), pts[1][0].tolist(), np.asarray(g).ravel().tolist(),
                        ' (= the gradient at the OLD point)' if stale else '', refs[1][0].tolist()))
    except Exception as e:
        rep.viol('raises:%s@%s:cachestate:semi:%s' % (type(e).__name__, C._where(e), method), str(e)[:200])


def _cache_spline(case, acc, rep, C):
    from openmdao.components.interp_util.interp import InterpND
    method = case['method']
    rng, grid, xi, v1, v2, opts = C._spline_setup(case)
    vec, n_cp = v1.shape
    n_i = len(xi)
    V = [v1, v2]
    vmax = [float(np.abs(v).max()) for v in V]
    delta = [C._spline_delta(method, grid, xi, vm) for vm in vmax]
    if max(d.max() / vm for d, vm in zip(delta, vmax)) > C.ILL:
        acc.skip('ill-conditioned-grid')
        rep.done = lambda: None
        return

    def make():
        if method == 'bsplines':
            return InterpND(method=method, num_cp=n_cp, x_interp=xi.copy(), **opts)
        return InterpND(method=method, points=grid.copy(), x_interp=xi.copy(), **opts)

    try:
        refs, tols = [], []
        if method == 'akima':
            for k in range(2):
                _, d0 = make().evaluate_spline(V[k].copy(), compute_derivative=True)
                pert = V[k] + 1e-12 * vmax[k] * rng.uniform(-1, 1, size=V[k].shape)
                _, dp = make().evaluate_spline(pert, compute_derivative=True)
                cond = np.abs(C._as3(dp, vec, n_i, n_cp) - C._as3(d0, vec, n_i, n_cp)).max(axis=2) / 1e-12
                ref = np.empty((vec, n_i, n_cp))
                for j in range(n_cp):
                    vc = V[k].astype(complex)
                    vc[:, j] += 1j * CS
                    ref[:, :, j] = np.asarray(make().evaluate_spline(vc)).reshape(vec, n_i).imag / CS
                refs.append(ref)
                tols.append((2 * (8 * delta[k][None, :] / vmax[k] + 64 * R.EPS * cond * vmax[k]))[:, :, None])
                acc.count('obs:ref:complex-step')
        else:
            Jr = _unit_jacobian(make, n_cp, vec, n_i)
            acc.count('obs:ref:unit-vectors')
            for k in range(2):
                refs.append(np.broadcast_to(Jr, (vec, n_i, n_cp)))
                tols.append((16 * delta[k] / vmax[k])[None, :, None])
    except Exception as e:
        rep.viol('raises:%s@%s:cachestate-reference:%s' % (type(e).__name__, C._where(e), method), str(e)[:200])
        return
    acc.count('cell:cachestate:spline:' + method)

    def cmp(k, d, what):
        acc.count('obs:cachestate:' + what)
        rep.judged = True
        d = C._as3(np.asarray(d, dtype=float), vec, n_i, n_cp)
        if not np.all(np.abs(d - refs[k]) <= tols[k]):
            rep.viol('cachestate:%s%s:%s' % (what, C._optkey(opts), method),
                     'values set %d: max deviation %.3g from the reference Jacobian (deviation from the Jacobian of '
                     'the other set: %.3g)' % (k, float(np.abs(d - refs[k]).max()),
                                               float(np.abs(d - refs[1 - k]).max())))

    try:
        it = make()
        _, d1 = it.evaluate_spline(V[0].copy(), compute_derivative=True)
        d1c = np.array(d1, copy=True)
        cmp(0, d1, 'spline-first-call')
        _, d2 = it.evaluate_spline(V[1].copy(), compute_derivative=True)
        cmp(1, d2, 'spline-second-values')
        acc.count('obs:returned-array-stable')
        if not np.array_equal(np.asarray(d1), d1c):
            rep.viol('cachestate:returned-array-overwritten:%s' % method,
                     'the Jacobian returned for the first values was changed by the call with the second values')
        it.evaluate_spline(V[0].copy())                       # value-only call with the first values again
        cmp(0, it.spline_gradient(), 'spline-gradient-after-value-only-call')
        _, d3 = it.evaluate_spline(V[0].copy(), compute_derivative=True)
        cmp(0, d3, 'spline-first-values-again')
        # values changed in place between two calls
        va = V[0].copy()
        it2 = make()
        it2.evaluate_spline(va, compute_derivative=True)
        va[...] = V[1]
        _, d4 = it2.evaluate_spline(va, compute_derivative=True)
        cmp(1, d4, 'spline-after-inplace-change')
    except Exception as e:
        rep.viol('raises:%s@%s:cachestate:%s' % (type(e).__name__, C._where(e), method), str(e)[:200])


JUDGES = {'splinemulti': judge_splinemulti, 'tablemulti': judge_tablemulti, 'interleave': judge_interleave,
          'cachestate': judge_cachestate}

SEMI = ['slinear', 'lagrange2', 'lagrange3', 'akima']


def required_counters(GENERAL, FIXED, SPLINE):
    return (['obs:splinemulti:splines', 'obs:splinemulti:foreign-block', 'obs:splinemulti:complex-step',
             'obs:splinemulti:euler', 'obs:splinemulti:identity', 'obs:splinemulti:jacobian-same-for-all-splines',
             'obs:splinemulti:judged-first', 'obs:splinemulti:judged-middle', 'obs:splinemulti:judged-last',
             'obs:splinemulti:single-of', 'obs:splinemulti:revisit', 'obs:splinemulti:decoy-component',
             'obs:tablemulti:decoy-component',
             'obs:tablemulti:outputs', 'obs:tablemulti:d_dx-complex-step', 'obs:tablemulti:d_dx-fd7',
             'obs:tablemulti:foreign-block', 'obs:tablemulti:d_dtrain-complex-step', 'obs:tablemulti:d_dtrain-euler',
             'obs:tablemulti:d_dtrain-identity', 'obs:tablemulti:jacobian-same-for-all-outputs',
             'obs:tablemulti:judged-first', 'obs:tablemulti:judged-last', 'obs:tablemulti:revisit',
             'obs:interleave:cached-gradient', 'obs:interleave:cached-gradient-after-other-object',
             'obs:interleave:spline-gradient-after-other-objects', 'obs:interleave:training-gradient-identity',
             'obs:returned-array-stable', 'obs:gradient:from-cache', 'obs:gradient:recomputed', 'obs:ref:complex-step', 'obs:ref:fd7', 'obs:ref:unit-vectors',
             'obs:cachestate:gradient-of-earlier-point', 'obs:cachestate:gradient-after-value-only-call',
             'obs:cachestate:gradient-single-after-batched', 'obs:cachestate:gradient-after-inplace-change',
             'obs:cachestate:gradient-after-training-gradients', 'obs:cachestate:semi:gradient-of-earlier-point',
             'obs:cachestate:spline-first-values-again', 'obs:cachestate:spline-after-inplace-change',
             'cell:interleave:table', 'cell:interleave:spline']
            + ['cell:splinemulti:' + m for m in SPLINE]
            + ['cell:tablemulti:mmsc:' + m for m in GENERAL + FIXED]
            + ['cell:tablemulti:semi:' + m for m in SEMI]
            + ['cell:cachestate:table:' + m for m in GENERAL + FIXED]
            + ['cell:cachestate:semi:' + m for m in SEMI]
            + ['cell:cachestate:spline:' + m for m in SPLINE])


def cases(tier, seed, rng, base, akima_opts, GENERAL, FIXED, SPLINE):
    """Case list of the parts of this kit (`base` / `akima_opts` are the check module's case helpers)."""
    out = []
    rng_d = np.random.default_rng(77 + 1000003 * seed + (0 if tier == 'quick' else 1))
    reps = {'quick': {'splinemulti': 2, 'tablemulti': 1, 'interleave': 6, 'cachestate': 1},
            'thorough': {'splinemulti': 40, 'tablemulti': 20, 'interleave': 120, 'cachestate': 20}}[tier]

    def spline_case(part, m, **kw):
        c = base(part, m, 1, hi=9)
        if m == 'bsplines':
            order = int(rng.choice([3, 4, 5]))
            c['npts'] = [int(rng.integers(order + 1, 11))]
            c['opts'] = {'order': order}
            c['cp_ends'] = bool(rng.random() < 0.5)
        if m == 'akima':
            c['opts'] = akima_opts()
        c['n_interp'] = int(rng.integers(2, 9))
        c['vec'] = int(rng.integers(1, 4))
        c['flat_values'] = False
        c.update(kw)
        return c

    # ---- splinemulti: akima (the default method; Jacobian depends on the values) in every configuration cell,
    #      the other methods once or twice each
    for S in (2, 3, 4):
        for units in (False, True):
            for revisit in (False, True):
                out.append(spline_case('splinemulti', 'akima', n_splines=S, units=units, revisit=revisit,
                                       vec=int(rng.integers(1, 4)) if S != 3 else int(rng.integers(2, 4))))
    out.append(spline_case('splinemulti', 'akima', n_splines=2, units=False, revisit=False, vec=1, opts={}))
    for _ in range(reps['splinemulti']):
        for m in SPLINE:
            out.append(spline_case('splinemulti', m, n_splines=int(rng.integers(2, 5)),
                                   units=bool(rng.random() < 0.5), revisit=bool(rng.random() < 0.5)))
    for m in SPLINE:       # superposition needs three splines
        if m != 'akima':
            out.append(spline_case('splinemulti', m, n_splines=3, units=bool(rng.random() < 0.5), revisit=False))
    # ---- tablemulti
    for _ in range(reps['tablemulti']):
        for comp, methods in (('mmsc', GENERAL + FIXED), ('semi', SEMI)):
            for m in methods:
                nd = R.FIXED_DIM.get(m) or int(rng.integers(1, 4))
                c = base('tablemulti', m, nd, hi=6 if nd < 3 else 4)
                c.update(comp=comp, vec=int(rng.integers(2, 5)), n_out=int(rng.integers(2, 4)),
                         tdg=bool(rng.random() < 0.75), revisit=bool(rng.random() < 0.5))
                out.append(c)
    for comp in ('mmsc', 'semi'):       # directed: akima, training gradients, 2 and 3 outputs, 1-D and 2-D
        for nd, S in ((1, 3), (2, 2), (2, 3)):
            c = base('tablemulti', 'akima', nd, hi=6)
            c.update(comp=comp, vec=int(rng.integers(2, 5)), n_out=S, tdg=True, revisit=bool(S == 2))
            out.append(c)
        for m in ('slinear', 'lagrange3'):
            c = base('tablemulti', m, 2, hi=6)
            c.update(comp=comp, vec=3, n_out=3, tdg=True, revisit=False)
            out.append(c)
    for c in out:
        c['decoy'] = bool(rng_d.random() < 0.4)
    # ---- interleave
    def inter_case(methods, nd, same_grid):
        lo = max(2 if m in R.SCIPY_ORDER else R.MIN_POINTS.get(m, 4) for m in methods)
        c = base('interleave', methods[0], nd)
        c['npts'] = [int(rng.integers(lo, max(lo, 5 if nd >= 3 else 7) + 1)) for _ in range(nd)]
        c.update(kind='table', methods=list(methods), same_grid=same_grid)
        return c

    for i in range(reps['interleave']):
        nd = int(rng.integers(1, 4))
        pool = [m for m in GENERAL + FIXED if R.FIXED_DIM.get(m, nd) == nd]
        n = int(rng.integers(2, 5))
        if i % 3 == 0:
            methods = [str(rng.choice(pool))] * n                 # same method, several tables
        else:
            methods = [str(m) for m in rng.choice(pool, size=n)]
        out.append(inter_case(methods, nd, bool(rng.random() < 0.5)))
    # directed: the same value-dependent method on one grid; general linear methods next to akima
    out.append(inter_case(['akima'] * 3, 2, True))
    out.append(inter_case(['cubic', 'akima', 'slinear', 'lagrange3'], 2, False))
    out.append(inter_case(['1D-akima', 'akima', 'scipy_cubic'], 1, True))
    for m in SPLINE:
        for _ in range(2 if m == 'akima' else 1):
            out.append(spline_case('interleave', m, kind='spline', n_obj=int(rng.integers(2, 5))))
    # ---- cachestate
    for _ in range(reps['cachestate']):
        for m in GENERAL + FIXED:
            c = base('cachestate', m, R.FIXED_DIM.get(m) or int(rng.integers(1, 4)))
            c.update(kind='table', two_d=bool(rng.random() < 0.5))
            if 'akima' in m:
                c['opts'] = akima_opts()
            out.append(c)
        for m in SEMI:
            c = base('cachestate', m, int(rng.integers(1, 4)), hi=6)
            c.update(kind='semi')
            out.append(c)
        for m in SPLINE:
            out.append(spline_case('cachestate', m, kind='spline'))
    return out
