"""Generator for the C19 'override' stratum: models in which subsystems override `System.load_case`.

`Problem.load_case` leaves the variables of every subsystem that overrides `System.load_case` (the documented hook:
"Override this method if the System requires special handling when loading a case") to that subsystem and restores
all the others itself.  Whether a variable belongs to such a subsystem is decided on *names*, so the models here
are built from system names that are string prefixes / extensions of each other (a, a2, a_b, ab, aa; ph, ph0,
ph01 ...), at the root and nested (a.a, a.a2, a2.a ...), with variable names that begin like system names
(a2_i3, st_o1) and random promotion, so that promoted names begin with the characters of other systems' pathnames.

A spec is a JSON-able dict:
  systems: [{path, kind: comp|group|ivc, promote: bool, override: None|'self'|'none'|'marker', ins: [...], outs: [...]}]
           in execution (= depth-first insertion) order;  ins: {name, size, src: abs output name | None, src_indices, val}
  The harness knows what every override does:
    'self'   restores its own recorded inputs and outputs with self.set_val (name in its own namespace)
    'none'   does nothing
    'marker' sets its own recorded outputs to recorded + MARK ("special handling"), leaves the inputs alone
  Every override logs (pathname, id(case)) into prob._omv_log.
`names(spec)` derives absolute / promoted names from the spec alone (no OpenMDAO).
"""
import copy

import numpy as np

MARK = 1000.0

NAME_FAMS = [['a', 'a2', 'a_b', 'ab', 'aa'],
             ['st', 'st2', 'st_x', 'sta', 's'],
             ['ph0', 'ph01', 'ph0_', 'ph', 'ph00'],
             ['g1', 'g', 'g12', 'g1x', 'gg'],
             ['traj', 'traj_post', 'traj2', 'tra', 'trajx']]
OTHER = ['b', 'q', 'z']


def _rv(rng, n, lo=-2.0, hi=2.0):
    return [round(rng.uniform(lo, hi), 6) for _ in range(n)]


def gen_model(rng):
    fam = rng.choice(NAME_FAMS)
    pool = fam * 3 + OTHER          # names of the family are three times as likely as unrelated ones
    systems = []
    counter = [0]
    outs_so_far = []                # (abs name, size)
    ncomp = [0]

    def pick_names(n, taken=()):
        got = []
        while len(got) < n:
            c = rng.choice(pool)
            if c not in got and c not in taken:
                got.append(c)
        return got

    def add_comp(path):
        k = counter[0]
        counter[0] += 1
        ncomp[0] += 1
        c = {'path': path, 'kind': 'comp', 'promote': rng.random() < 0.45, 'override': None,
             'seed': rng.randrange(1 << 30), 'ins': [], 'outs': []}
        for t in range(rng.randrange(1, 3)):
            nm = '%s_i%d%s' % (rng.choice(fam + ['x']), k, 'ab'[t])
            size = rng.choice([1, 2, 3])
            src, sidx = None, None
            if outs_so_far and rng.random() < 0.55:
                src, ssize = rng.choice(outs_so_far)
                if rng.random() < 0.6:
                    size = ssize
                if size != ssize or rng.random() < 0.2:
                    sidx = [rng.randrange(ssize) for _ in range(size)]
            c['ins'].append({'name': nm, 'size': size, 'src': src, 'src_indices': sidx, 'val': _rv(rng, size)})
        new = []
        for t in range(rng.randrange(1, 3)):
            nm = '%s_o%d%s' % (rng.choice(fam + ['y']), k, 'ab'[t])
            size = rng.choice([1, 2, 3])
            c['outs'].append({'name': nm, 'size': size})
            new.append((path + '.' + nm, size))
        systems.append(c)
        outs_so_far.extend(new)

    def add_ivc(path):
        k = counter[0]
        counter[0] += 1
        c = {'path': path, 'kind': 'ivc', 'promote': rng.random() < 0.5, 'override': None, 'ins': [], 'outs': []}
        for t in range(rng.randrange(1, 3)):
            size = rng.choice([1, 2, 3])
            nm = '%s_o%d%s' % (rng.choice(fam + ['v']), k, 'ab'[t])
            c['outs'].append({'name': nm, 'size': size, 'val': _rv(rng, size)})
            outs_so_far.append((path + '.' + nm, size))
        systems.append(c)

    def fill(parent, depth):
        n = rng.randrange(2, 5) if depth == 0 else rng.randrange(1, 4)
        names = pick_names(n)
        for i, nm in enumerate(names):
            path = (parent + '.' if parent else '') + nm
            if ncomp[0] >= 6:
                break
            if depth == 0 and i == 0 and rng.random() < 0.3:
                add_ivc(path)
            elif depth < 2 and rng.random() < (0.45 if depth == 0 else 0.3):
                systems.append({'path': path, 'kind': 'group', 'promote': rng.random() < 0.35, 'override': None,
                                'ins': [], 'outs': []})
                fill(path, depth + 1)
            else:
                add_comp(path)

    fill('', 0)
    # drop groups that ended up empty
    systems = [s for s in systems if s['kind'] != 'group' or any(t['path'].startswith(s['path'] + '.') for t in systems)]
    # ---- who overrides load_case: prefer systems whose pathname is a proper string prefix of another system's
    # pathname without being its ancestor, or the other way round
    paths = [s['path'] for s in systems]

    def rel(p):
        # other systems that are not inside p (and p not inside them) but share a string-prefix relation with p
        return [q for q in paths if q != p and not q.startswith(p + '.') and not p.startswith(q + '.') and
                (q.startswith(p) or p.startswith(q))]
    cand = [s for s in systems if s['kind'] != 'ivc' or rng.random() < 0.3]
    pref = [s for s in cand if rel(s['path'])]
    novr = rng.choice([1, 1, 2, 2, 3])
    chosen = []
    for _ in range(novr):
        src_pool = pref if (pref and rng.random() < 0.75) else cand
        s = rng.choice(src_pool)
        if s not in chosen:
            chosen.append(s)
    for s in chosen:
        s['override'] = rng.choice(['self', 'self', 'none', 'marker'])
        if s['kind'] == 'ivc' and s['override'] == 'marker':
            s['override'] = 'self'
    return {'systems': systems, 'fam': NAME_FAMS.index(fam)}


def variant(rng, model):
    """A slightly different model: -> (model', kind).  Variables keep their absolute names unless their system is
    renamed/dropped, so the expectation stays crisp: what is in both must be restored, the rest must be reported."""
    m = copy.deepcopy(model)
    systems = m['systems']
    leaves = [s for s in systems if s['kind'] == 'comp']
    kind = rng.choice(['rename', 'rename', 'drop', 'extra', 'rename-group'])
    groups = [s for s in systems if s['kind'] == 'group']
    if kind == 'rename-group' and not groups:
        kind = 'rename'
    if kind == 'drop' and len(leaves) < 2:
        kind = 'rename'

    def repath(old, new):
        for s in systems:
            if s['path'] == old or s['path'].startswith(old + '.'):
                s['path'] = new + s['path'][len(old):]
            for i in s['ins']:
                if i['src'] and i['src'].startswith(old + '.'):
                    i['src'] = new + i['src'][len(old):]
    paths = set(s['path'] for s in systems)
    if kind in ('rename', 'rename-group'):
        s = rng.choice(leaves if kind == 'rename' else groups)
        old = s['path']
        new = old + '_zz'
        for suf in rng.sample(['2', 'x', '_', '0', '_b'], 5):
            cand = old + suf if rng.random() < 0.7 or len(old.split('.')[-1]) < 2 else old[:-1]
            if cand not in paths:
                new = cand
                break
        repath(old, new)
    elif kind == 'drop':
        s = rng.choice(leaves)
        gone = s['path']
        systems.remove(s)
        for t in systems:
            for i in t['ins']:
                if i['src'] and i['src'].startswith(gone + '.'):
                    i['src'], i['src_indices'] = None, None
        m['systems'] = [t for t in systems if t['kind'] != 'group' or
                        any(u['path'].startswith(t['path'] + '.') for u in systems)]
    else:
        # an extra component next to an existing system, its name an extension of that system's name
        s = rng.choice(systems)
        new = s['path'] + '_zz'
        for suf in rng.sample(['2', 'x', '_', '0', '_b'], 5):
            if s['path'] + suf not in paths:
                new = s['path'] + suf
                break
        m['systems'].append({'path': new, 'kind': 'comp', 'promote': False, 'override': None,
                             'seed': rng.randrange(1 << 30),
                             'ins': [{'name': 'x_i99a', 'size': 2, 'src': None, 'src_indices': None, 'val': [0.25, -0.5]}],
                             'outs': [{'name': 'y_o99a', 'size': 2}]})
        # keep depth-first order: children of a group must stay contiguous for the builder (it builds by path)
    return m, kind


# --------------------------------------------------------------------------------------------
# names (independent of OpenMDAO)
# --------------------------------------------------------------------------------------------
def names(model):
    """{abs: {io, sys, size, src, src_indices, prom: {ancestor path: name there}}} from the spec alone."""
    promote = {s['path']: s['promote'] for s in model['systems']}
    V = {}
    for s in model['systems']:
        for io, lst in (('input', s['ins']), ('output', s['outs'])):
            for v in lst:
                absn = s['path'] + '.' + v['name']
                prom = {s['path']: v['name']}
                cur, node = v['name'], s['path']
                while node:
                    parent = '.'.join(node.split('.')[:-1])
                    if not promote[node]:
                        cur = node.split('.')[-1] + '.' + cur
                    prom[parent] = cur
                    node = parent
                V[absn] = {'io': io, 'sys': s['path'], 'size': v['size'], 'src': v.get('src'),
                           'src_indices': v.get('src_indices'), 'prom': prom, 'kind': s['kind']}
    return V


def overriders(model):
    return {s['path']: s['override'] for s in model['systems'] if s['override']}


def owners(model, absn):
    """overriding systems that contain variable `absn`, outermost first (the order their load_case is called in)."""
    ov = overriders(model)
    return [(p, ov[p]) for p in sorted(ov) if absn.startswith(p + '.')]


def indeps(model):
    """[(promoted name at root, abs name of one input or of the ivc output, size, is_ivc)]"""
    V = names(model)
    out, seen = [], set()
    for a, m in V.items():
        if m['io'] == 'output' and m['kind'] == 'ivc':
            out.append((m['prom'][''], a, m['size'], True))
    for a, m in V.items():
        if m['io'] == 'input' and m['src'] is None and m['prom'][''] not in seen:
            seen.add(m['prom'][''])
            out.append((m['prom'][''], a, m['size'], False))
    return out


# --------------------------------------------------------------------------------------------
# building
# --------------------------------------------------------------------------------------------
_CLS = None


def case_vars(case):
    """({abs input: val}, {abs output: val}) of a Case or of the documented dict form."""
    if isinstance(case, dict):
        ins = {a: m['val'] for a, m in (case.get('inputs') or {}).items()}
        outs = {a: m['val'] for a, m in (case.get('outputs') or {}).items()}
        return ins, outs
    ins = {a: case.inputs[a] for a in case.inputs.absolute_names()} if case.inputs is not None else {}
    outs = {a: case.outputs[a] for a in case.outputs.absolute_names()} if case.outputs is not None else {}
    return ins, outs


def _override(system, case):
    system._omv_log.append((system.pathname, id(case)))
    mode = system._omv_mode
    if mode == 'none':
        return
    ins, outs = case_vars(case)
    # abs name -> name in this system's namespace (from the spec).  System.set_val takes a name that begins with
    # '<own pathname>.' for an absolute one, so a relative name of that form (system b holding b.b...) is given as the
    # absolute name it cannot be confused with
    pre = system.pathname + '.'
    local = {a: (a if n.startswith(pre) else n) for a, n in system._omv_local.items()}
    if mode == 'self':
        for a, v in ins.items():
            if a in local:
                system.set_val(local[a], v)
    for a, v in outs.items():
        if a in local:
            system.set_val(local[a], np.asarray(v, dtype=float) + (MARK if mode == 'marker' else 0.0))


def _classes():
    global _CLS
    if _CLS is not None:
        return _CLS
    import openmdao.api as om

    class OvComp(om.ExplicitComponent):
        """y_o = c_o + s_o + 0.05 sin(s_o), s_o = sum_i A_oi x_i."""

        def initialize(self):
            self.options.declare('cspec', types=dict, recordable=False)

        def setup(self):
            c = self.options['cspec']
            rs = np.random.RandomState(c['seed'] % (2 ** 31))
            self._A, self._c = {}, {}
            for i in c['ins']:
                self.add_input(i['name'], val=np.array(i['val'], dtype=float))
            for o in c['outs']:
                self.add_output(o['name'], val=np.ones(o['size']))
                self._c[o['name']] = np.round(rs.uniform(-1, 1, o['size']), 6)
                for i in c['ins']:
                    g = 0.6 / max(1, i['size']) / max(1, len(c['ins']))
                    self._A[o['name'], i['name']] = np.round(rs.uniform(-g, g, (o['size'], i['size'])), 6)
            self.declare_partials('*', '*', method='fd')

        def compute(self, inputs, outputs):
            c = self.options['cspec']
            for o in c['outs']:
                s = sum(self._A[o['name'], i['name']] @ np.asarray(inputs[i['name']]).ravel() for i in c['ins'])
                outputs[o['name']] = self._c[o['name']] + s + 0.05 * np.sin(s)

    class OvCompLoads(OvComp):
        def load_case(self, case):
            _override(self, case)

    class OvGroupLoads(om.Group):
        def load_case(self, case):
            _override(self, case)

    class OvIvcLoads(om.IndepVarComp):
        def load_case(self, case):
            _override(self, case)

    _CLS = {'comp': OvComp, 'comp_ov': OvCompLoads, 'group': om.Group, 'group_ov': OvGroupLoads,
            'ivc': om.IndepVarComp, 'ivc_ov': OvIvcLoads}
    return _CLS


def build(model):
    """-> dict(prob, sys={path: instance}, V=names(model)).  Not set up."""
    import openmdao.api as om
    C = _classes()
    V = names(model)
    prob = om.Problem()
    prob._omv_log = []
    objs = {'': prob.model}
    spec_of = {s['path']: s for s in model['systems']}

    def parent_of(path):
        pp = '.'.join(path.split('.')[:-1])
        if pp not in objs:
            make(spec_of[pp])
        return objs[pp]

    def make(s):
        if s['path'] in objs:
            return
        par = parent_of(s['path'])
        ov = '_ov' if s['override'] else ''
        if s['kind'] == 'group':
            inst = C['group' + ov]()
        elif s['kind'] == 'ivc':
            inst = C['ivc' + ov]()
            for o in s['outs']:
                inst.add_output(o['name'], val=np.array(o['val'], dtype=float))
        else:
            inst = C['comp' + ov](cspec=copy.deepcopy(s))
        if s['override']:
            inst._omv_mode = s['override']
            inst._omv_log = prob._omv_log
            inst._omv_local = {a: m['prom'][s['path']] for a, m in V.items() if a.startswith(s['path'] + '.')}
        par.add_subsystem(s['path'].split('.')[-1], inst, promotes=['*'] if s['promote'] else None)
        objs[s['path']] = inst

    for s in model['systems']:
        make(s)
    for a, m in V.items():
        if m['io'] == 'input' and m['src'] is not None:
            prob.model.connect(V[m['src']]['prom'][''], m['prom'][''], src_indices=m['src_indices'])
    return {'prob': prob, 'sys': objs, 'V': V, 'model': model}


def set_indeps(built, vals):
    """vals: {promoted root name: list}"""
    prob = built['prob']
    for nm, v in vals.items():
        prob.set_val(nm, np.array(v, dtype=float))


def gen_indep_vals(rng, model):
    return {nm: _rv(rng, size) for nm, _, size, _ in indeps(model)}


def summary(model):
    return [[s['path'], s['kind'][0], '+' if s['promote'] else '-', s['override'] or '',
             [[bool(i['src']), bool(i['src_indices'])] for i in s['ins']], len(s['outs'])] for s in model['systems']]
