"""C03 helpers: generators, builders and closed forms of two framework-layer strata.

(1) HISTORY: one component that colours its OWN partials (ExecComp automatic colouring; ExecComp / explicit / implicit
    component with declare_partials(method) + declare_coloring(method)) below an ivc (optionally behind a scaling
    component), set up with force_alloc_complex, driven through a history of public-API operations that leave imaginary
    parts / perturbations behind or need the vectors clean: compute_totals, hand-made complex step
    (Problem.set_complex_step_mode), check_partials, check_totals, run_linearize, run_model, a new point.

(2) APPROXIMATED TOTALS: several independent chains ivc.x_k -> c_k (y_k = A_k g(x_k)) (+ optionally a component that
    joins chains, an objective, a component nothing depends on), model.approx_totals(cs | fd) and a colouring declared
    on the driver and / or the model; design variables / constraints with indices.

Everything here is description + construction; judging is done in omv/checks/c03_coloring.py.  Closed forms are NumPy.
"""
import numpy as np

# ExecComp expression families over two array inputs a, b and two array outputs y, z (all of size n).
# closed form of the jacobian d(y,z)/d(a,b), of the outputs, and a bound of |d2 f_i / d x_j^2|
EXEC_FAMS = [['y = 3*a + b**2', 'z = a*b'],
             ['y = sin(a)', 'z = 2*b'],
             ['y = a*sum(b)', 'z = b'],
             ['y = 3.*a**2 + b', 'z = a[::-1]*b + a']]


def exec_closed(fam, a, b):
    """(outputs (y, z) concatenated, jacobian d(y,z)/d(a,b), bound of the second derivatives)."""
    n = a.size
    eye, Z = np.eye(n), np.zeros((n, n))
    if fam == 0:
        return np.concatenate([3 * a + b ** 2, a * b]), np.block([[3 * eye, np.diag(2 * b)], [np.diag(b), np.diag(a)]]), 2.0
    if fam == 1:
        return np.concatenate([np.sin(a), 2 * b]), np.block([[np.diag(np.cos(a)), Z], [Z, 2 * eye]]), 1.0
    if fam == 2:
        return np.concatenate([a * b.sum(), b]), np.block([[b.sum() * eye, np.outer(a, np.ones(n))], [Z, eye]]), 0.0
    anti = eye[::-1]
    return (np.concatenate([3 * a ** 2 + b, a[::-1] * b + a]),
            np.block([[np.diag(6 * a), eye], [np.diag(b).dot(anti) + eye, np.diag(a[::-1])]]), 6.0)


def _pattern(rng, m, n, kind):
    P = np.zeros((m, n), dtype=bool)
    if kind == 'diag':
        for i in range(max(m, n)):
            P[i % m, i % n] = True
    elif kind == 'banded':
        for i in range(m):
            for j in range(n):
                P[i, j] = abs(i - j) <= 1
    elif kind == 'arrow':
        for i in range(min(m, n)):
            P[i, i] = True
        P[0, :] = True
    elif kind == 'dense':
        P[:] = True
    else:
        P = np.array([[rng.random() < 0.4 for _ in range(n)] for _ in range(m)], dtype=bool)
    for i in range(m):
        if not P[i].any():
            P[i, rng.randrange(n)] = True
    for j in range(n):
        if not P[:, j].any():
            P[rng.randrange(m), j] = True
    return P


def _rmat(rng, P):
    return [[round(rng.uniform(1, 2), 4) if P[i, j] else 0.0 for j in range(P.shape[1])] for i in range(P.shape[0])]


# ----------------------------------------------------------------------------------------------
# (1) histories
# ----------------------------------------------------------------------------------------------
DIRTY = ('manual-cs', 'check-partials', 'check-totals')


def gen_hist_case(rng, idx):
    # two strata are visited at fixed positions of every shard so that they never depend on luck:
    #  idx % 6 == 0 : ExecComp with its automatic colouring, complex vectors, the colouring exists, then a hand-made
    #                 complex step directly followed by a linearization (+ a random tail)
    #  idx % 12 == 5: implicit component solved by Newton, check_totals(cs) -> Newton linearizes it under complex step
    stratum = 'exec-residue' if idx % 6 == 0 else ('newton-cs' if idx % 12 == 5 else None)
    comp = rng.choice(['exec-auto', 'exec-auto', 'exec-auto', 'exec-declared', 'pat-explicit', 'pat-explicit',
                       'pat-implicit', 'pat-implicit'])
    if stratum:
        comp = 'exec-auto' if stratum == 'exec-residue' else 'pat-implicit'
    case = {'kind': 'history', 'idx': idx, 'comp': comp, 'pre': rng.random() < 0.5,
            'mode': rng.choice(['fwd', 'rev', 'auto']), 'cplx': rng.random() < 0.9 or bool(stratum)}
    if comp.startswith('exec'):
        n = rng.choice([2, 3, 4, 5])
        case.update({'n': n, 'fam': rng.randrange(len(EXEC_FAMS)), 'sizes': [n, n, n, n]})
        case['method'] = 'cs' if comp == 'exec-auto' else rng.choice(['cs', 'cs', 'fd'])
    else:
        n1, n2 = rng.choice([1, 2, 3]), rng.choice([1, 2, 3])
        m1, m2 = rng.choice([1, 2, 3]), rng.choice([1, 2, 3])
        P = _pattern(rng, m1 + m2, n1 + n2, rng.choice(['diag', 'banded', 'arrow', 'random', 'random']))
        case.update({'sizes': [n1, n2, m1, m2], 'A': _rmat(rng, P), 'g': rng.choice(['lin', 'sq', 'sq']),
                     'method': rng.choice(['cs', 'cs', 'fd'])})
        case['newton'] = comp == 'pat-implicit' and (rng.random() < 0.6 or stratum == 'newton-cs')
        case['assemble_jac'] = rng.random() < 0.5
    case['form'] = rng.choice(['forward', 'central', 'backward']) if case['method'] == 'fd' and rng.random() < 0.5 \
        else None
    nin = case['sizes'][0] + case['sizes'][1]
    case['x0'] = [round(rng.uniform(0.5, 1.5), 4) for _ in range(nin)]
    cplx = case['cplx']

    def op(kind):
        if kind == 'manual-cs':
            # under Newton the imaginary parts are only as good as one Newton step with an approximated jacobian makes
            # them: stale imaginary parts much larger than the step would swamp the result (coloured or not), so all
            # complex steps of such a case have the size check_totals(method='cs') uses
            return {'op': kind, 'h': 1e-40 if case.get('newton') else rng.choice([1e-30, 1e-30, 1e-20, 1e-12]),
                    'd': [round(rng.uniform(0.5, 2.0), 3) * rng.choice([1, 1, -1]) for _ in range(nin)]}
        if kind == 'new-point':
            return {'op': kind, 'x': [round(rng.uniform(0.5, 1.5), 4) for _ in range(nin)]}
        if kind == 'check-partials':
            # never the method + step the component itself approximates with (OpenMDAO refuses that comparison)
            if cplx and case['method'] == 'fd':
                return {'op': kind, 'method': 'cs', 'step': None}
            if case['method'] == 'cs':
                return {'op': kind, 'method': rng.choice(['fd', 'cs']) if cplx else 'fd', 'step': None}
            return {'op': kind, 'method': 'fd', 'step': 2e-6}
        if kind == 'check-totals':
            return {'op': kind, 'method': rng.choice(['cs', 'cs', 'cs', 'fd'] if case.get('newton') else
                                                     ['cs', 'cs', 'fd']) if cplx else 'fd'}
        return {'op': kind}
    dirty = ['manual-cs', 'manual-cs', 'manual-cs', 'check-partials', 'check-totals'] if cplx else \
        ['check-partials', 'check-totals']
    if comp.startswith('exec'):          # check_partials leaves ExecComps out (_no_check_partials)
        dirty = [k for k in dirty if k != 'check-partials']
    if case.get('newton') and cplx:      # the model's complex-step runs make Newton linearize the component under cs
        dirty = dirty + ['check-totals', 'check-totals']
    ops = []
    if rng.random() < 0.75:             # the colouring exists before the first dirtying operation
        ops.append(op('totals'))
    for _ in range(rng.choice([1, 1, 2, 3])):
        ops.append(op(rng.choice(dirty)))
        r = rng.random()
        if r < 0.15:
            ops.append(op('run-model'))
        elif r < 0.3:
            ops.append(op('new-point'))
        elif r < 0.4:
            ops.append(op('linearize'))
        if rng.random() < 0.7:
            ops.append(op('totals'))
    if stratum == 'exec-residue':
        ops = [op('totals'), op('manual-cs'), op('totals')] + (ops if rng.random() < 0.5 else [])
    elif stratum == 'newton-cs':
        first = op('check-totals')
        first['method'] = 'cs'
        ops = ([op('totals')] if rng.random() < 0.5 else []) + [first] + ops
    if ops[-1]['op'] != 'totals':
        ops.append(op('totals'))
    # the check_partials of a cs-approximated component with cs needs another step than the component's own
    for o in ops:
        if o['op'] == 'check-partials' and o['method'] == 'cs' and case['method'] == 'cs':
            o['step'] = 1e-30
    case['ops'] = ops
    return case


def hist_closed(case, x):
    """At the ivc point x: (component inputs u, outputs, partial jacobian d out / d u, chain d u / d x (diagonal),
    bound of the second derivatives of the component)."""
    x = np.asarray(x, dtype=float)
    n1 = case['sizes'][0]
    chain = np.ones(x.size)
    if case['pre']:
        chain[:n1] = 2.0
    u = x * chain
    if case['comp'].startswith('exec'):
        out, J, m2 = exec_closed(case['fam'], u[:n1], u[n1:])
    else:
        A = np.array(case['A'], dtype=float)
        if case['g'] == 'lin':
            out, J, m2 = A.dot(u), A.copy(), 0.0
        else:
            out, J, m2 = A.dot(u * u), A * (2 * u)[None, :], 2.0 * np.abs(A).max()
    return u, out, J, chain, m2


def build_hist(case, colored):
    import openmdao.api as om
    n1, n2, m1, m2 = case['sizes']
    comp, method, form = case['comp'], case['method'], case.get('form')
    akw = {'method': method}
    if form:
        akw['form'] = form
    ckw = dict(wrt='*', method=method, min_improve_pct=0., num_full_jacs=2, show_summary=False, show_sparsity=False)
    if form:
        ckw['form'] = form
    if comp.startswith('exec'):
        n = case['n']
        kw = {nm: {'shape': (n,)} for nm in ('a', 'b', 'y', 'z')}
        if comp == 'exec-auto':
            c = om.ExecComp(list(EXEC_FAMS[case['fam']]), do_coloring=colored, **kw)
        else:
            c = om.ExecComp(list(EXEC_FAMS[case['fam']]), **kw)
            c.declare_partials('*', '*', **akw)
            if colored:
                c.declare_coloring(**ckw)
        ins, outs = ('a', 'b'), ('y', 'z')
    else:
        A = np.array(case['A'], dtype=float)
        lin = case['g'] == 'lin'
        implicit = comp == 'pat-implicit'
        newton = bool(case.get('newton'))

        def f(inputs):
            u = np.concatenate([inputs['a'], inputs['b']])
            return A.dot(u if lin else u * u)

        class Pat(om.ImplicitComponent if implicit else om.ExplicitComponent):
            def setup(self):
                self.add_input('a', np.ones(n1))
                self.add_input('b', np.ones(n2))
                self.add_output('y', np.ones(m1))
                self.add_output('z', np.ones(m2))
                self.declare_partials('*', '*', **akw)
                if colored:
                    self.declare_coloring(**ckw)

            def compute(self, inputs, outputs):
                v = f(inputs)
                outputs['y'] = v[:m1]
                outputs['z'] = v[m1:]

            def apply_nonlinear(self, inputs, outputs, residuals):
                v = f(inputs)
                residuals['y'] = outputs['y'] - v[:m1]
                residuals['z'] = outputs['z'] - v[m1:]
        if implicit and not newton:
            Pat.solve_nonlinear = lambda self, inputs, outputs: self.compute(inputs, outputs)
        c = Pat()
        ins, outs = ('a', 'b'), ('y', 'z')
    p = om.Problem()
    mdl = p.model
    x0 = np.array(case['x0'], dtype=float)
    ivc = mdl.add_subsystem('ivc', om.IndepVarComp())
    ivc.add_output('a', x0[:n1])
    ivc.add_output('b', x0[n1:])
    if case['pre']:
        class Twice(om.ExplicitComponent):
            def setup(self):
                self.add_input('x', np.ones(n1))
                self.add_output('y', np.ones(n1))
                self.declare_partials('y', 'x', rows=np.arange(n1), cols=np.arange(n1), val=2.0)

            def compute(self, inputs, outputs):
                outputs['y'] = 2.0 * inputs['x']
        mdl.add_subsystem('pre', Twice())
        mdl.connect('ivc.a', 'pre.x')
        mdl.connect('pre.y', 'c.a')
    else:
        mdl.connect('ivc.a', 'c.a')
    mdl.connect('ivc.b', 'c.b')
    mdl.add_subsystem('c', c)
    if comp == 'pat-implicit':
        mdl.linear_solver = om.DirectSolver(assemble_jac=bool(case.get('assemble_jac')))
        if case.get('newton'):
            mdl.nonlinear_solver = om.NewtonSolver(solve_subsystems=False, atol=1e-14, rtol=1e-14, maxiter=8, iprint=-1)
    p.setup(mode=case['mode'], force_alloc_complex=bool(case['cplx']))
    p.run_model()
    return p


# ----------------------------------------------------------------------------------------------
# (2) approximated totals with a colouring
# ----------------------------------------------------------------------------------------------
def _indices(rng, sz, p):
    """None or a strict, possibly unordered, sub-list of range(sz)."""
    if sz < 2 or rng.random() >= p:
        return None
    idx = rng.sample(range(sz), rng.randrange(1, sz))
    return idx if rng.random() < 0.4 else sorted(idx)


def gen_atot_case(rng, idx):
    k = rng.choice([2, 2, 2, 3, 3, 3, 1])
    chains = []
    for _ in range(k):
        n, m = rng.choice([2, 3, 4, 5]), rng.choice([1, 2, 3, 4])
        P = _pattern(rng, m, n, rng.choice(['diag', 'diag', 'banded', 'random', 'dense'] if k > 1 else
                                           ['diag', 'banded']))
        chains.append({'n': n, 'm': m, 'A': _rmat(rng, P)})
    case = {'kind': 'atot', 'idx': idx, 'chains': chains, 'g': rng.choice(['lin', 'sq', 'sq']),
            'method': rng.choice(['cs', 'cs', 'fd']), 'decl': rng.choice(['driver', 'driver', 'both', 'model']),
            'driver': rng.choice(['base', 'scipy']), 'mode': rng.choice(['fwd', 'auto', 'rev']),
            'cplx': rng.random() < 0.5}
    case['form'] = rng.choice(['forward', 'central', 'backward']) if case['method'] == 'fd' and rng.random() < 0.5 \
        else None
    pidx = rng.choice([0.0, 0.5, 0.5, 0.8])
    case['didx'] = [_indices(rng, c['n'], pidx) for c in chains]
    case['cidx'] = [_indices(rng, c['m'], rng.choice([0.0, 0.3])) for c in chains]
    # objective = sum of the outputs of one chain or of the first two chains (a row that depends on several chains;
    # over ALL chains it would be a dense row, which leaves nothing to colour)
    case['obj'] = rng.choice([None, None, 'one', 'two' if k > 2 else 'one'])
    case['obj_chain'] = rng.randrange(k)
    # a component that joins the first two chains: w = y_1[0] * y_2  (constraint)
    case['join'] = k >= 2 and rng.random() < 0.3
    case['idle'] = rng.random() < 0.3           # a component no response depends on
    if case['decl'] == 'driver':
        # a colouring declared on the driver only is computed by an optimizer run: needs an objective and a driver
        # that supports simultaneous derivatives
        case['driver'] = 'scipy'
        case['obj'] = case['obj'] or rng.choice(['one', 'two' if k > 2 else 'one'])
    case['scaling'] = rng.random() < 0.3
    if case['scaling']:
        case['dvs'] = [round(rng.uniform(0.2, 5), 3) for _ in range(k)]
        case['cons'] = [round(rng.uniform(0.2, 5), 3) for _ in range(k)]
    case['x0'] = [[round(rng.uniform(0.5, 1.5), 4) for _ in range(c['n'])] for c in chains]
    case['x1'] = [[round(rng.uniform(0.5, 1.5), 4) for _ in range(c['n'])] for c in chains]
    calls = ['totals', 'totals']
    calls.append(rng.choice(['driver', 'totals-scaled', 'new-point', 'new-point']))
    if calls[-1] == 'new-point':
        calls.append(rng.choice(['totals', 'driver']))
    case['calls'] = calls
    return case


def atot_closed(case, xs, scaled):
    """Total jacobian in driver order (objective first, then the constraints in declaration order) and the largest
    response magnitude / second-derivative bound, at the point xs (list of arrays)."""
    chains = case['chains']
    lin = case['g'] == 'lin'
    offs = np.cumsum([0] + [c['n'] for c in chains])
    ntot = int(offs[-1])
    ys, Js = [], []
    for k, c in enumerate(chains):
        A = np.array(c['A'], dtype=float)
        x = np.asarray(xs[k], dtype=float)
        ys.append(A.dot(x if lin else x * x))
        Jk = np.zeros((c['m'], ntot))
        Jk[:, offs[k]:offs[k + 1]] = A if lin else A * (2 * x)[None, :]
        Js.append(Jk)
    rows, vals, rsc = [], [], []
    if case['obj']:
        sel = [case['obj_chain']] if case['obj'] == 'one' else [0, 1]
        rows.append(sum(Js[k].sum(axis=0) for k in sel)[None, :])
        vals.append(np.array([sum(ys[k].sum() for k in sel)]))
        rsc.append(np.ones(1))
    for k, c in enumerate(chains):
        ci = case['cidx'][k]
        rows.append(Js[k] if ci is None else Js[k][ci, :])
        vals.append(ys[k] if ci is None else ys[k][ci])
        rsc.append(np.full(rows[-1].shape[0], case['cons'][k] if case.get('scaling') else 1.0))
    if case['join']:
        rows.append(ys[0][0] * Js[1] + np.outer(ys[1], Js[0][0]))
        vals.append(ys[0][0] * ys[1])
        rsc.append(np.ones(chains[1]['m']))
    J = np.vstack(rows)
    cols, csc = [], []
    for k, c in enumerate(chains):
        di = case['didx'][k]
        sel = list(range(c['n'])) if di is None else list(di)
        cols.extend(int(offs[k]) + j for j in sel)
        csc.extend([case['dvs'][k] if case.get('scaling') else 1.0] * len(sel))
    J = J[:, cols]
    if scaled and case.get('scaling'):
        J = J * np.concatenate(rsc)[:, None] / np.array(csc)[None, :]
    return J, float(np.abs(np.concatenate(vals)).max())


def atot_curvature(case, xs):
    """Bound of |d2 r / d x_j^2| over all responses r and design variable entries x_j (for the fd truncation term)."""
    if case['g'] == 'lin' and not case['join']:
        return 0.0
    b = 0.0
    for c in case['chains']:
        b = max(b, 2.0 * np.abs(np.array(c['A'])).sum(axis=0).max())
    if case['join']:
        # w_i = y1_0 * y2_i: second derivatives wrt an x of chain 1 or of chain 2 are y2_i * y1_0'' resp. y1_0 * y2_i''
        ymax = max(np.abs(np.array(c['A'])).sum(axis=1).max() for c in case['chains'][:2]) * 2.25
        b = max(b, b * ymax)
    return b


def build_atot(case, colored):
    import openmdao.api as om
    chains = case['chains']
    lin = case['g'] == 'lin'
    method, form = case['method'], case.get('form')

    def make(A):
        m, n = A.shape
        rows, cols = np.nonzero(A)

        class Chain(om.ExplicitComponent):
            def setup(self):
                self.add_input('x', np.ones(n))
                self.add_output('y', np.ones(m))
                self.declare_partials('y', 'x', rows=rows, cols=cols)

            def compute(self, inputs, outputs):
                x = inputs['x']
                outputs['y'] = A.dot(x if lin else x * x)

            def compute_partials(self, inputs, partials):
                x = inputs['x'].real
                partials['y', 'x'] = (A if lin else A * (2 * x)[None, :])[rows, cols]
        return Chain()
    p = om.Problem()
    mdl = p.model
    ivc = mdl.add_subsystem('ivc', om.IndepVarComp())
    for k, c in enumerate(chains):
        ivc.add_output('x%d' % k, np.array(case['x0'][k], dtype=float))
        mdl.add_subsystem('c%d' % k, make(np.array(c['A'], dtype=float)))
        mdl.connect('ivc.x%d' % k, 'c%d.x' % k)
    if case['obj']:
        sel = [case['obj_chain']] if case['obj'] == 'one' else [0, 1]
        expr = 'o = ' + ' + '.join('sum(v%d)' % k for k in sel)
        mdl.add_subsystem('o', om.ExecComp(expr, **{'v%d' % k: np.ones(chains[k]['m']) for k in sel}))
        for k in sel:
            mdl.connect('c%d.y' % k, 'o.v%d' % k)
        mdl.add_objective('o.o')
    if case['join']:
        m1 = chains[1]['m']
        mdl.add_subsystem('j', om.ExecComp('w = s * v', s=1.0, v=np.ones(m1), w=np.ones(m1)))
        mdl.connect('c0.y', 'j.s', src_indices=[0])
        mdl.connect('c1.y', 'j.v')
    if case['idle']:
        mdl.add_subsystem('idle', om.ExecComp('q = 3.*t**2', t=np.ones(chains[0]['n']), q=np.ones(chains[0]['n'])))
        mdl.connect('ivc.x0', 'idle.t')
    sc = bool(case.get('scaling'))
    for k, c in enumerate(chains):
        mdl.add_design_var('ivc.x%d' % k, indices=case['didx'][k], scaler=case['dvs'][k] if sc else None)
    for k, c in enumerate(chains):
        mdl.add_constraint('c%d.y' % k, upper=1e3, indices=case['cidx'][k], scaler=case['cons'][k] if sc else None)
    if case['join']:
        mdl.add_constraint('j.w', upper=1e3)
    akw = {'method': method}
    if form:
        akw['form'] = form
    mdl.approx_totals(**akw)
    if case['driver'] == 'scipy':
        p.driver = om.ScipyOptimizeDriver(optimizer='SLSQP', maxiter=1, disp=False)
    if colored:
        if case['decl'] in ('driver', 'both'):
            p.driver.declare_coloring(min_improve_pct=0., num_full_jacs=2, show_summary=False, show_sparsity=False)
        if case['decl'] in ('model', 'both'):
            mdl.declare_coloring('*', min_improve_pct=0., num_full_jacs=2, show_summary=False, show_sparsity=False,
                                 **akw)
    p.setup(mode=case['mode'], force_alloc_complex=bool(case['cplx']))
    p.run_model()
    return p
