"""C24 kit - workloads for "relevance pruning is unobservable in results".

Part 1: spec surgery on G specs (omv/gen/models.py) so that the relevance graph has something to prune:
  * merge_specs(A, B)    - B (renamed) becomes the sub-group `gB` of A: two models with DISJOINT dependency cones
                           (optionally a one-directional link A -> B)
  * extend_spec(rng, s)  - dead-end branch (feeds no response), a design variable that influences nothing (or only
                           the dead end), a non-design source feeding a response (a response without design variable)
  * cones(spec)          - structural dependency (own reachability over the spec wiring and the term patterns)
The result is still a plain G spec: G.build builds it and R (omv/ref/flatmodel.py) evaluates it.

Part 2: a small strictly convex optimisation family (QP through a chain of linear components with pre- and
post-optimisation components), see gen_opt_spec / build_opt / opt_reference.
"""
import copy

import numpy as np


# =====================================================================================================
# Part 1: spec surgery
# =====================================================================================================
def _names(spec):
    s = set()
    for c in spec['comps']:
        s.add(c['name'])
        for v in c['inputs'] + c['outputs']:
            s.add(v['name'])
    for p in spec['params']:
        s.add(p['name'])
    return s


def rename_spec(spec, prefix):
    """Copy of `spec` with every component / variable / parameter name prefixed."""
    names = _names(spec)

    def ren(s):
        if s in names:
            return prefix + s
        if '|' in s:
            a, _, b = s.partition('|')
            if a in names and b in names:
                return prefix + a + '|' + prefix + b
        if '.' in s:
            head, _, last = s.rpartition('.')
            if last in names:
                return head + '.' + prefix + last
        return s

    def walk(o):
        if isinstance(o, dict):
            return {ren(k) if isinstance(k, str) else k: walk(v) for k, v in o.items()}
        if isinstance(o, list):
            return [walk(v) for v in o]
        if isinstance(o, str):
            return ren(o)
        return o
    out = walk(copy.deepcopy(spec))
    return out


def merge_specs(A, B, gname='gB', prefix='b_'):
    """A with B as the sub-group `gname` (B's names prefixed).  No data flows between them."""
    B = rename_spec(B, prefix)
    M = copy.deepcopy(A)
    M['comps'] = M['comps'] + B['comps']
    for cn in B['conns']:
        cn = dict(cn)
        if 'level' in cn:
            cn['level'] += 1
        if 'promote_link_at' in cn:
            cn['promote_link_at'] += 1
        M['conns'].append(cn)
    M['params'] = M['params'] + B['params']
    for k, v in B['path'].items():
        M['path'][k] = gname + '.' + v
    M['up'].update(B['up'])
    node = dict(B['tree'])
    node['group'] = gname
    M['tree']['children'] = list(M['tree']['children']) + [node]
    M['of'] = list(A['of']) + list(B['of'])
    M['wrt'] = list(A['wrt']) + list(B['wrt'])
    M['merged'] = True
    return M


def fix_assembled(spec):
    """After surgery: a group whose members include a matrix-free component cannot use an assembled jacobian."""
    from omv.gen.models import _members
    mf = set(c['name'] for c in spec['comps'] if c.get('matfree'))

    def walk(n):
        if 'comp' in n:
            return
        ln = n.get('ln')
        if ln and ln.get('type') == 'direct' and ln.get('assemble_jac') and mf & set(_members(n)):
            ln['assemble_jac'] = False
        for ch in n['children']:
            walk(ch)
    walk(spec['tree'])
    return spec


def _outputs(spec, kinds=('ivc', 'exp', 'imp')):
    out = []
    for c in spec['comps']:
        if c['kind'] in kinds:
            for o in c['outputs']:
                out.append((o, c))
    return out


def _size(shape):
    return int(np.prod(shape)) if len(shape) else 1


def _lin_terms(rng, m, ins, scale=0.5, p_b=0.5):
    """terms of one output of size m over inputs [(name, n)]: dense A (and sometimes B) blocks."""
    t = {'c': [round(rng.uniform(-1, 1), 3) for _ in range(m)], 'A': {}, 'B': {}}
    for name, n in ins:
        sc = scale / max(1.0, np.sqrt(n))
        A = [[round(rng.uniform(0.1, 1.0) * rng.choice([-1, 1]) * sc, 4) for _ in range(n)] for _ in range(m)]
        t['A'][name] = A
        if rng.random() < p_b:
            t['B'][name] = [[round(rng.uniform(0.1, 1.0) * rng.choice([-1, 1]) * sc, 4) for _ in range(n)]
                            for _ in range(m)]
    return t


def _new_comp(rng, name, srcs, nout=1, kind='exp', style=None):
    """explicit/implicit harness comp-spec `name` consuming the full value of each source output in `srcs`
    (list of output dicts); returns (cspec, conns)."""
    ins, conns = [], []
    for k, so in enumerate(srcs):
        iname = '%s_x%d' % (name, k)
        ins.append({'name': iname, 'shape': list(so['shape']), 'units': so.get('units')})
        conns.append({'src': so['name'], 'tgt': iname, 'tgt_units': so.get('units'), 'chain': [],
                      'src_is_param': False, 'how': 'connect', 'level': 0})
    outs = []
    c = {'name': name, 'kind': kind, 'inputs': ins, 'outputs': outs, 'terms': {}, 'styles': {}}
    if kind == 'imp':
        c['beta'] = round(rng.uniform(-0.3, 0.3), 3)
    for j in range(nout):
        shp = rng.choice([(1,), (2,), (3,)])
        oname = '%s_y%d' % (name, j)
        o = {'name': oname, 'shape': list(shp), 'units': None}
        if kind == 'imp':
            o['val'] = [0.1] * _size(shp)
        outs.append(o)
        use = list(ins) if j == 0 else [i for i in ins if rng.random() < 0.6] or [ins[0]]
        c['terms'][oname] = _lin_terms(rng, _size(shp), [(i['name'], _size(i['shape'])) for i in use])
        for i in use:
            c['styles']['%s|%s' % (oname, i['name'])] = style or rng.choice(['dense', 'dense', 'rowcol', 'coo'])
    return c, conns


def _add_root_comp(spec, c, conns, front=False, group=None):
    """Insert comp-spec `c` as a child of the root (front/back) or of the new/existing root child `group`."""
    spec['comps'].append(c)
    for v in c['inputs'] + c['outputs']:
        spec['up'][v['name']] = 0
    spec['conns'] += conns
    kids = spec['tree']['children']
    if group is None:
        spec['path'][c['name']] = c['name']
        node = {'comp': c['name']}
        if front:
            kids.insert(0, node)
        else:
            kids.append(node)
        return
    g = [k for k in kids if k.get('group') == group['name']]
    if not g:
        gn = {'group': group['name'], 'children': [], 'nl': {'type': 'runonce'}, 'ln': dict(group['ln']),
              'cyclic': False}
        if front:
            kids.insert(0, gn)
        else:
            kids.append(gn)
    else:
        gn = g[0]
    gn['children'].append({'comp': c['name']})
    spec['path'][c['name']] = group['name'] + '.' + c['name']


def _ivc(name, oname, shape, val, units=None):
    return {'name': name, 'kind': 'ivc', 'inputs': [],
            'outputs': [{'name': oname, 'shape': list(shape), 'units': units, 'val': val}]}


def _add_input_to(rng, spec, comp, so, scale=0.3):
    """Give existing component `comp` one more input, fed by the full value of output `so` (connect at root)."""
    k = len(comp['inputs'])
    iname = '%s_xe%d' % (comp['name'], k)
    comp['inputs'].append({'name': iname, 'shape': list(so['shape']), 'units': so.get('units')})
    spec['up'][iname] = 0
    spec['conns'].append({'src': so['name'], 'tgt': iname, 'tgt_units': so.get('units'), 'chain': [],
                          'src_is_param': False, 'how': 'connect', 'level': 0})
    o = rng.choice(comp['outputs'])
    n = _size(so['shape'])
    m = _size(o['shape'])
    t = _lin_terms(rng, m, [(iname, n)], scale=scale)
    comp['terms'][o['name']]['A'][iname] = t['A'][iname]
    if iname in t['B']:
        comp['terms'][o['name']]['B'][iname] = t['B'][iname]
    comp['styles']['%s|%s' % (o['name'], iname)] = 'matfree' if comp.get('matfree') else 'dense'
    return iname


def link_specs(rng, M, prefix='b_'):
    """One-directional data flow A -> B in a merged spec: an output of A feeds a new input of a B component."""
    a_outs = [o for o, c in _outputs(M, ('exp', 'imp')) if not c['name'].startswith(prefix)]
    b_comps = [c for c in M['comps'] if c['name'].startswith(prefix) and c['kind'] != 'ivc']
    if not a_outs or not b_comps:
        return False
    _add_input_to(rng, M, rng.choice(b_comps), rng.choice(a_outs))
    M['linked'] = True
    return True


def extend_spec(rng, spec, what=('dead', 'unused_dv', 'nodv_resp')):
    """Add deliberately irrelevant parts.  Records what was added in spec['c24']."""
    info = spec.setdefault('c24', {})
    states = [o for o, c in _outputs(spec, ('exp', 'imp'))]
    allouts = [o for o, c in _outputs(spec)]
    zvar = None
    if 'unused_dv' in what:
        n = rng.choice([1, 2, 3])
        zc = _ivc('ivz', 'ivz_o0', (n,), [round(rng.uniform(-1, 1), 3) for _ in range(n)])
        _add_root_comp(spec, zc, [], front=True)
        zvar = zc['outputs'][0]
        spec['wrt'] = list(spec['wrt']) + ['ivz_o0']
        info['unused_dv'] = 'ivz_o0'
    if 'dead' in what:
        # dead-end branch: consumes existing values (and the otherwise unused design variable), feeds no response
        srcs = rng.sample(allouts, min(len(allouts), rng.randint(1, 2)))
        if zvar is not None and rng.random() < 0.6:
            srcs.append(zvar)
            info['unused_dv_feeds_dead_end'] = True
        grp = None
        if rng.random() < 0.6:
            grp = {'name': 'gdd', 'ln': {'type': rng.choice(['runonce', 'lnbgs', 'lnbj', 'direct', 'krylov']),
                                         'assemble_jac': False}}
        c0, cn0 = _new_comp(rng, 'dd0', srcs, nout=rng.randint(1, 2), kind=rng.choice(['exp', 'exp', 'imp']))
        _add_root_comp(spec, c0, cn0, group=grp)
        c1, cn1 = _new_comp(rng, 'dd1', [c0['outputs'][0]] + ([rng.choice(states)] if states and rng.random() < 0.5
                                                               else []), nout=1, kind='exp')
        _add_root_comp(spec, c1, cn1, group=grp)
        info['dead'] = ['dd0', 'dd1']
    if 'nodv_resp' in what:
        # a source that is NOT a design variable feeding (a) a response of its own, (b) an existing component
        n = rng.choice([1, 2])
        qc = _ivc('ivq', 'ivq_o0', (n,), [round(rng.uniform(-1, 1), 3) for _ in range(n)])
        sq, cnq = _new_comp(rng, 'sq0', [qc['outputs'][0]], nout=1, kind=rng.choice(['exp', 'exp', 'imp']))
        # inserted at the front in reverse order so that ivq precedes sq0
        _add_root_comp(spec, sq, cnq, front=True)
        _add_root_comp(spec, qc, [], front=True)
        spec['of'] = list(spec['of']) + [sq['outputs'][0]['name']]
        info['nodv_resp'] = sq['outputs'][0]['name']
        targets = [c for c in spec['comps'] if c['kind'] != 'ivc' and c['name'] not in ('sq0', 'dd0', 'dd1')]
        if targets and rng.random() < 0.7:
            _add_input_to(rng, spec, rng.choice(targets), sq['outputs'][0], scale=0.2)
            info['nodv_feeds_model'] = True
    return spec


def cones(spec):
    """Structural dependency: dict output/param name -> set of parameter (ivc output / auto-ivc) names it depends on,
    and dict name -> set of component names on some path.  Term-level: output o of a component depends on input k
    only if k has an A or B block in o's terms (for implicit components every output additionally depends on
    itself only - the harness residuals are not coupled across outputs)."""
    src_of = {cn['tgt']: cn['src'] for cn in spec['conns']}
    dep = {}
    for c in spec['comps']:
        if c['kind'] == 'ivc':
            for o in c['outputs']:
                dep[o['name']] = {o['name']}
    for p in spec['params']:
        dep[p['name']] = {p['name']}
    direct = {}
    for c in spec['comps']:
        if c['kind'] == 'ivc':
            continue
        for o in c['outputs']:
            t = c['terms'][o['name']]
            ks = set(t['A']) | set(t['B'])
            direct[o['name']] = set(src_of[k] for k in ks if k in src_of)
    changed = True
    for n in direct:
        dep.setdefault(n, set())
    while changed:
        changed = False
        for n, ds in direct.items():
            new = set()
            for d in ds:
                new |= dep.get(d, set())
            if not new <= dep[n]:
                dep[n] |= new
                changed = True
    return dep


# =====================================================================================================
# Part 2: convex optimisation family
# =====================================================================================================
def _mat(rng, m, n, lo=0.2, hi=1.0):
    return np.round(rng.uniform(lo, hi, size=(m, n)) * rng.choice([-1.0, 1.0], size=(m, n)), 3)


def gen_opt_spec(rng):
    """rng: np.random.Generator.  A strictly convex QP in x = [xa, xb] evaluated through a chain of components:

        pre  : pq = P q + p0                       (q is NOT a design variable: pre-optimisation component)
        la   : ua = Aa xa + Ka wb + ca             (optionally coupled with lw: wb = Kw ua + cw  -> linear cycle)
        lb   : ub = Ab xb + cb
        obj  : f  = 1/2 rho |x - x0|^2 + 1/2 z'Qz + c'z + w.pq ,  z = [ua, ub]
        ga   : g1 = C1 ua + d1                     (cone: xa only)      gb : g2 = C2 ub + d2   (cone: xb only)
        gm   : g3 = C3 z + E pq + d3               (both)
        post : h  = sin(f) + S z   ;   post2: h2 = T h          (post-optimisation components)
        dead : dz = D1 xz + D2 ua                  (feeds nothing; xz is a design variable that influences nothing else)
        rq   : r0 = R q                            (a response that depends on no design variable)
    """
    na = int(rng.integers(1, 4))
    nb = int(rng.integers(1, 3))
    nq = int(rng.integers(1, 3))
    ma, mb = na, nb       # ua, ub sizes (square maps)
    s = {'na': na, 'nb': nb, 'nq': nq}
    s['x0a'] = np.round(rng.uniform(-1, 1, na), 3)
    s['x0b'] = np.round(rng.uniform(-1, 1, nb), 3)
    s['q'] = np.round(rng.uniform(-1, 1, nq), 3)
    s['xz0'] = np.round(rng.uniform(-1, 1, 2), 3)
    s['P'] = _mat(rng, 2, nq)
    s['p0'] = np.round(rng.uniform(-1, 1, 2), 3)
    s['Aa'] = _mat(rng, ma, na)
    s['ca'] = np.round(rng.uniform(-1, 1, ma), 3)
    s['Ab'] = _mat(rng, mb, nb)
    s['cb'] = np.round(rng.uniform(-1, 1, mb), 3)
    s['cycle'] = bool(rng.random() < 0.5)
    if s['cycle']:
        nw = int(rng.integers(1, 3))
        s['Ka'] = np.round(_mat(rng, ma, nw) * 0.3 / np.sqrt(nw), 3)
        s['Kw'] = np.round(_mat(rng, nw, ma) * 0.3 / np.sqrt(ma), 3)
        s['cw'] = np.round(rng.uniform(-1, 1, nw), 3)
    nz = ma + mb
    M = rng.normal(size=(nz, nz))
    qq, _ = np.linalg.qr(M)
    ev = rng.uniform(0.0, 2.0, nz)
    s['Q'] = np.round((qq * ev) @ qq.T, 3)
    s['Q'] = 0.5 * (s['Q'] + s['Q'].T)
    # rounding may push the smallest eigenvalue slightly below 0: shift to keep Q positive semidefinite
    lam = np.linalg.eigvalsh(s['Q']).min()
    if lam < 0:
        s['Q'] = s['Q'] + (np.ceil(-lam * 1000) / 1000 + 0.001) * np.eye(nz)
    s['c'] = np.round(rng.uniform(-1, 1, nz), 3)
    s['rho'] = float(np.round(rng.uniform(1.0, 2.0), 2))
    s['xt_a'] = np.round(rng.uniform(-1, 1, na), 3)
    s['xt_b'] = np.round(rng.uniform(-1, 1, nb), 3)
    s['w'] = np.round(rng.uniform(-1, 1, 2), 3)
    s['C1'] = _mat(rng, int(rng.integers(1, 3)), ma)
    s['C2'] = _mat(rng, 1, mb)
    s['C3'] = _mat(rng, 1, nz)
    s['E'] = _mat(rng, 1, 2)
    s['S'] = _mat(rng, 1, nz)
    s['T'] = _mat(rng, 2, 1)
    s['D1'] = _mat(rng, 2, 2)
    s['D2'] = _mat(rng, 2, ma)
    s['R'] = _mat(rng, 1, nq)
    # configuration
    s['mode'] = str(rng.choice(['fwd', 'rev', 'auto']))
    s['pre_opt_post'] = bool(rng.random() < 0.6)
    s['sub_ln'] = str(rng.choice(['runonce', 'lnbgs', 'lnbj', 'direct', 'krylov']))
    s['root_ln'] = str(rng.choice(['runonce', 'runonce', 'lnbgs', 'lnbj', 'direct', 'krylov']))
    s['cyc_nl'] = str(rng.choice(['nlbgs', 'nlbgs', 'newton', 'nlbj']))
    s['cyc_ln'] = str(rng.choice(['lnbgs', 'lnbgs', 'direct', 'krylov', 'lnbj']))
    s['lin_g1'] = bool(rng.random() < 0.6)
    s['lin_g3'] = bool(rng.random() < 0.3)
    s['g1_indices'] = None
    if s['C1'].shape[0] > 1 and rng.random() < 0.5:
        s['g1_indices'] = [int(rng.integers(0, s['C1'].shape[0]))]
    s['alias_g2'] = bool(rng.random() < 0.4)
    s['pdc'] = bool(rng.random() < 0.4)
    s['with_xz'] = bool(rng.random() < 0.7)
    s['with_r0'] = bool(rng.random() < 0.6)
    s['with_dead'] = bool(rng.random() < 0.8)
    s['bounds'] = bool(rng.random() < 0.5)
    s['sparse_decl'] = bool(rng.random() < 0.5)
    return s


def opt_linear_map(s):
    """z = [ua, ub] = Tz x + tz  with x = [xa, xb] (own NumPy algebra incl. the linear cycle)."""
    na, nb = s['na'], s['nb']
    Aa, Ab = np.asarray(s['Aa'], float), np.asarray(s['Ab'], float)
    ca, cb = np.asarray(s['ca'], float), np.asarray(s['cb'], float)
    ma, mb = Aa.shape[0], Ab.shape[0]
    if s['cycle']:
        Ka, Kw, cw = np.asarray(s['Ka'], float), np.asarray(s['Kw'], float), np.asarray(s['cw'], float)
        # ua = Aa xa + Ka (Kw ua + cw) + ca
        G = np.linalg.inv(np.eye(ma) - Ka @ Kw)
        Ta = G @ Aa
        ta = G @ (Ka @ cw + ca)
    else:
        Ta, ta = Aa, ca
    Tz = np.zeros((ma + mb, na + nb))
    Tz[:ma, :na] = Ta
    Tz[ma:, na:] = Ab
    tz = np.concatenate([ta, cb])
    return Tz, tz


def opt_reference(s):
    """Exact optimum of the QP by KKT enumeration (omv/ref/qp.py).  Returns dict or None."""
    from omv.ref.qp import solve_qp
    na, nb = s['na'], s['nb']
    n = na + nb
    Tz, tz = opt_linear_map(s)
    Q = np.asarray(s['Q'], float)
    c = np.asarray(s['c'], float)
    rho = s['rho']
    xt = np.concatenate([np.asarray(s['xt_a'], float), np.asarray(s['xt_b'], float)])
    H = rho * np.eye(n) + Tz.T @ Q @ Tz
    g = -rho * xt + Tz.T @ (Q @ tz + c)
    pq = np.asarray(s['P'], float) @ np.asarray(s['q'], float) + np.asarray(s['p0'], float)
    const = 0.5 * rho * xt @ xt + 0.5 * tz @ Q @ tz + c @ tz + np.asarray(s['w'], float) @ pq
    ma = np.asarray(s['Aa']).shape[0]
    rows, lo, hi = [], [], []
    C1 = np.asarray(s['C1'], float)
    idx = s['g1_indices'] if s['g1_indices'] is not None else list(range(C1.shape[0]))
    for i in idx:
        rows.append(C1[i] @ Tz[:ma])
        lo.append(-np.inf)
        hi.append(s['g1_up'][i] - (C1[i] @ tz[:ma] + s['d1'][i]))
    C2 = np.asarray(s['C2'], float)
    rows.append(C2[0] @ Tz[ma:])
    lo.append(s['g2_lo'] - (C2[0] @ tz[ma:] + s['d2'][0]))
    hi.append(np.inf)
    C3 = np.asarray(s['C3'], float)
    off3 = C3[0] @ tz + np.asarray(s['E'], float)[0] @ pq + s['d3'][0]
    rows.append(C3[0] @ Tz)
    lo.append(-np.inf)
    hi.append(s['g3_up'] - off3)
    A = np.array(rows)
    lo, hi = np.array(lo), np.array(hi)
    if s['bounds']:
        A = np.vstack([A, np.eye(n)])
        lo = np.concatenate([lo, np.full(n, -s['xbnd'])])
        hi = np.concatenate([hi, np.full(n, s['xbnd'])])
    sol = solve_qp(H, g, A, lo, hi)
    if sol is None:
        return None
    sol['f'] = sol['f'] + const
    sol['H'] = H
    sol['Tz'], sol['tz'], sol['pq'] = Tz, tz, pq
    return sol


def finish_opt_spec(rng, s):
    """Choose constraint offsets/bounds so that the start point is feasible and some constraints are active."""
    na, nb = s['na'], s['nb']
    Tz, tz = opt_linear_map(s)
    ma = np.asarray(s['Aa']).shape[0]
    x0 = np.concatenate([s['x0a'], s['x0b']])
    z0 = Tz @ x0 + tz
    pq = np.asarray(s['P'], float) @ np.asarray(s['q'], float) + np.asarray(s['p0'], float)
    C1 = np.asarray(s['C1'], float)
    s['d1'] = np.round(rng.uniform(-0.5, 0.5, C1.shape[0]), 3)
    g1 = C1 @ z0[:ma] + s['d1']
    s['g1_up'] = np.round(g1 + rng.uniform(0.05, 1.0, C1.shape[0]), 3)
    s['d2'] = np.round(rng.uniform(-0.5, 0.5, 1), 3)
    g2 = np.asarray(s['C2'], float) @ z0[ma:] + s['d2']
    s['g2_lo'] = float(np.round(g2[0] - rng.uniform(0.05, 1.0), 3))
    s['d3'] = np.round(rng.uniform(-0.5, 0.5, 1), 3)
    g3 = np.asarray(s['C3'], float) @ z0 + np.asarray(s['E'], float) @ pq + s['d3']
    s['g3_up'] = float(np.round(g3[0] + rng.uniform(0.05, 1.0), 3))
    s['xbnd'] = 3.0
    return s


def opt_spec_to_json(s):
    return {k: (v.tolist() if isinstance(v, np.ndarray) else v) for k, v in s.items()}


def opt_spec_from_json(j):
    arr = ('x0a', 'x0b', 'q', 'xz0', 'P', 'p0', 'Aa', 'ca', 'Ab', 'cb', 'Ka', 'Kw', 'cw', 'Q', 'c', 'xt_a', 'xt_b',
           'w', 'C1', 'C2', 'C3', 'E', 'S', 'T', 'D1', 'D2', 'R', 'd1', 'd2', 'd3', 'g1_up')
    return {k: (np.asarray(v, float) if k in arr else v) for k, v in j.items()}


def _om_classes():
    import openmdao.api as om

    class Lin(om.ExplicitComponent):
        """y_o = c_o + sum_k M_ok x_k  (+ optional sin of one scalar input); partials declared per nonzero block."""

        def __init__(self, ins, outs, blocks, consts, hook=None, cname=None, sparse=False, sin_of=None):
            super().__init__()
            self._c24 = (ins, outs, blocks, consts, hook, cname, sparse, sin_of)

        def setup(self):
            ins, outs, blocks, consts, hook, cname, sparse, sin_of = self._c24
            for k, n in ins:
                self.add_input(k, np.zeros(n))
            for o, m in outs:
                self.add_output(o, np.zeros(m))

        def setup_partials(self):
            ins, outs, blocks, consts, hook, cname, sparse, sin_of = self._c24
            for (o, k), M in blocks.items():
                M = np.atleast_2d(M)
                if sparse:
                    r, c = np.nonzero(M)
                    self.declare_partials(o, k, rows=r, cols=c, val=M[r, c])
                else:
                    self.declare_partials(o, k, val=M)
            if sin_of:
                self.declare_partials(sin_of[0], sin_of[1])

        def compute(self, inputs, outputs):
            ins, outs, blocks, consts, hook, cname, sparse, sin_of = self._c24
            if hook:
                hook('compute', cname, None)
            for o, m in outs:
                y = np.array(consts[o], dtype=float).copy()
                for k, n in ins:
                    if (o, k) in blocks:
                        y = y + np.atleast_2d(blocks[o, k]) @ inputs[k]
                if sin_of and sin_of[0] == o:
                    y = y + np.sin(inputs[sin_of[1]])
                outputs[o] = y

        def compute_partials(self, inputs, partials):
            ins, outs, blocks, consts, hook, cname, sparse, sin_of = self._c24
            if hook:
                hook('linearize', cname, None)
            if sin_of:
                partials[sin_of[0], sin_of[1]] = np.cos(inputs[sin_of[1]]).reshape(1, -1) * \
                    np.ones((dict(outs)[sin_of[0]], 1))

    class Obj(om.ExplicitComponent):
        def __init__(self, s, hook=None):
            super().__init__()
            self._s = s
            self._hook = hook

        def setup(self):
            s = self._s
            self.add_input('xa', np.zeros(s['na']))
            self.add_input('xb', np.zeros(s['nb']))
            self.add_input('ua', np.zeros(np.asarray(s['Aa']).shape[0]))
            self.add_input('ub', np.zeros(np.asarray(s['Ab']).shape[0]))
            self.add_input('pq', np.zeros(2))
            self.add_output('f', 0.0)
            self.declare_partials('f', ['xa', 'xb', 'ua', 'ub'])
            self.declare_partials('f', 'pq', val=np.asarray(s['w'], float).reshape(1, 2))

        def compute(self, inputs, outputs):
            s = self._s
            if self._hook:
                self._hook('compute', 'obj', None)
            x = np.concatenate([inputs['xa'], inputs['xb']])
            xt = np.concatenate([s['xt_a'], s['xt_b']])
            z = np.concatenate([inputs['ua'], inputs['ub']])
            Q = np.asarray(s['Q'], float)
            outputs['f'] = 0.5 * s['rho'] * (x - xt) @ (x - xt) + 0.5 * z @ Q @ z + np.asarray(s['c']) @ z + \
                np.asarray(s['w']) @ inputs['pq']

        def compute_partials(self, inputs, partials):
            s = self._s
            if self._hook:
                self._hook('linearize', 'obj', None)
            na = s['na']
            ma = np.asarray(s['Aa']).shape[0]
            x = np.concatenate([inputs['xa'], inputs['xb']])
            xt = np.concatenate([s['xt_a'], s['xt_b']])
            z = np.concatenate([inputs['ua'], inputs['ub']])
            gx = s['rho'] * (x - xt)
            gz = np.asarray(s['Q'], float) @ z + np.asarray(s['c'], float)
            partials['f', 'xa'] = gx[:na].reshape(1, -1)
            partials['f', 'xb'] = gx[na:].reshape(1, -1)
            partials['f', 'ua'] = gz[:ma].reshape(1, -1)
            partials['f', 'ub'] = gz[ma:].reshape(1, -1)

    return Lin, Obj


def _ln_solver(om, t):
    kw = dict(iprint=-1, err_on_non_converge=False, atol=1e-14, rtol=1e-14, maxiter=60)
    if t == 'runonce':
        return om.LinearRunOnce()
    if t == 'direct':
        return om.DirectSolver(assemble_jac=False)
    if t == 'lnbgs':
        return om.LinearBlockGS(**kw)
    if t == 'lnbj':
        return om.LinearBlockJac(**kw)
    if t == 'krylov':
        return om.ScipyKrylov(iprint=-1, err_on_non_converge=False, atol=1e-15, rtol=1e-15, maxiter=500)
    raise ValueError(t)


def _nl_solver(om, t):
    kw = dict(iprint=-1, err_on_non_converge=False, atol=1e-14, rtol=1e-14, maxiter=200)
    if t == 'nlbgs':
        return om.NonlinearBlockGS(**kw)
    if t == 'nlbj':
        return om.NonlinearBlockJac(**kw)
    if t == 'newton':
        n = om.NewtonSolver(solve_subsystems=False, **kw)
        n.linesearch = None
        return n
    raise ValueError(t)


def build_opt(s, hook=None, driver=True):
    """The real OpenMDAO problem for an optimisation spec (not set up)."""
    import openmdao.api as om
    Lin, Obj = _om_classes()
    na, nb, nq = s['na'], s['nb'], s['nq']
    ma, mb = np.asarray(s['Aa']).shape[0], np.asarray(s['Ab']).shape[0]
    sp = s['sparse_decl']
    prob = om.Problem()
    prob.options['group_by_pre_opt_post'] = bool(s['pre_opt_post'])
    m = prob.model
    ivc = m.add_subsystem('iv', om.IndepVarComp(), promotes=['*'])
    ivc.add_output('xa', np.asarray(s['x0a'], float))
    ivc.add_output('xb', np.asarray(s['x0b'], float))
    ivq = m.add_subsystem('ivq', om.IndepVarComp(), promotes=['*'])
    ivq.add_output('q', np.asarray(s['q'], float))
    ivc.add_output('xz', np.asarray(s['xz0'], float))
    m.add_subsystem('pre', Lin([('q', nq)], [('pq', 2)], {('pq', 'q'): s['P']}, {'pq': s['p0']}, hook, 'pre', sp),
                    promotes=['*'])
    chain = m.add_subsystem('chain', om.Group(), promotes=['*'])
    if s['cycle']:
        nw = np.asarray(s['Kw']).shape[0]
        cyc = chain.add_subsystem('cyc', om.Group(), promotes=['*'])
        cyc.add_subsystem('la', Lin([('xa', na), ('wb', nw)], [('ua', ma)],
                                    {('ua', 'xa'): s['Aa'], ('ua', 'wb'): s['Ka']}, {'ua': s['ca']}, hook, 'la', sp),
                          promotes=['*'])
        cyc.add_subsystem('lw', Lin([('ua', ma)], [('wb', nw)], {('wb', 'ua'): s['Kw']}, {'wb': s['cw']}, hook,
                                    'lw', sp), promotes=['*'])
        cyc.nonlinear_solver = _nl_solver(om, s['cyc_nl'])
        cyc.linear_solver = _ln_solver(om, s['cyc_ln'])
    else:
        chain.add_subsystem('la', Lin([('xa', na)], [('ua', ma)], {('ua', 'xa'): s['Aa']}, {'ua': s['ca']}, hook,
                                      'la', sp), promotes=['*'])
    chain.add_subsystem('lb', Lin([('xb', nb)], [('ub', mb)], {('ub', 'xb'): s['Ab']}, {'ub': s['cb']}, hook, 'lb',
                                  sp), promotes=['*'])
    chain.linear_solver = _ln_solver(om, s['sub_ln'])
    m.add_subsystem('obj', Obj(s, hook), promotes=['*'])
    C3 = np.asarray(s['C3'], float)
    cons = m.add_subsystem('cons', om.Group(), promotes=['*'])
    cons.add_subsystem('ga', Lin([('ua', ma)], [('g1', np.asarray(s['C1']).shape[0])], {('g1', 'ua'): s['C1']},
                                 {'g1': s['d1']}, hook, 'ga', sp), promotes=['*'])
    cons.add_subsystem('gb', Lin([('ub', mb)], [('g2', 1)], {('g2', 'ub'): s['C2']}, {'g2': s['d2']}, hook, 'gb',
                                 sp), promotes=['*'])
    cons.add_subsystem('gm', Lin([('ua', ma), ('ub', mb), ('pq', 2)], [('g3', 1)],
                                 {('g3', 'ua'): C3[:, :ma], ('g3', 'ub'): C3[:, ma:], ('g3', 'pq'): s['E']},
                                 {'g3': s['d3']}, hook, 'gm', sp), promotes=['*'])
    S = np.asarray(s['S'], float)
    m.add_subsystem('post', Lin([('f', 1), ('ua', ma), ('ub', mb)], [('h', 1)],
                                {('h', 'ua'): S[:, :ma], ('h', 'ub'): S[:, ma:]}, {'h': np.zeros(1)}, hook, 'post',
                                False, sin_of=('h', 'f')), promotes=['*'])
    m.add_subsystem('post2', Lin([('h', 1)], [('h2', 2)], {('h2', 'h'): s['T']}, {'h2': np.zeros(2)}, hook, 'post2',
                                 sp), promotes=['*'])
    if s['with_dead']:
        m.add_subsystem('dead', Lin([('xz', 2), ('ua', ma)], [('dz', 2)], {('dz', 'xz'): s['D1'], ('dz', 'ua'): s['D2']},
                                    {'dz': np.zeros(2)}, hook, 'dead', sp), promotes=['*'])
    m.add_subsystem('rq', Lin([('q', nq)], [('r0', 1)], {('r0', 'q'): s['R']}, {'r0': np.zeros(1)}, hook, 'rq', sp),
                    promotes=['*'])
    m.linear_solver = _ln_solver(om, s['root_ln'])
    # optimisation problem
    bnd = dict(lower=-s['xbnd'], upper=s['xbnd']) if s['bounds'] else {}
    m.add_design_var('xa', **bnd)
    m.add_design_var('xb', **bnd)
    if s['with_xz']:
        m.add_design_var('xz', lower=-5.0, upper=5.0)
    m.add_objective('f')
    pdc = dict(parallel_deriv_color='pc') if s['pdc'] else {}
    kw1 = dict(pdc)
    if s['g1_indices'] is not None:
        kw1['indices'] = s['g1_indices']
        up1 = np.asarray(s['g1_up'], float)[s['g1_indices']]
    else:
        up1 = np.asarray(s['g1_up'], float)
    m.add_constraint('g1', upper=up1, linear=s['lin_g1'], **kw1)
    if s['alias_g2']:
        m.add_constraint('g2', lower=s['g2_lo'], alias='g2_alias', indices=[0], **pdc)
    else:
        m.add_constraint('g2', lower=s['g2_lo'], **pdc)
    m.add_constraint('g3', upper=s['g3_up'], linear=s['lin_g3'])
    if s['with_r0']:
        m.add_constraint('r0', upper=1e3)
    if driver:
        prob.driver = om.ScipyOptimizeDriver(optimizer='SLSQP', tol=1e-13, maxiter=300, disp=False)
        prob.driver.options['singular_jac_behavior'] = 'ignore'
    return prob


# =====================================================================================================
# Part 3: linear implicit component whose residuals couple its outputs
# =====================================================================================================
def gen_coupled_spec(rng):
    """rng: np.random.Generator.   R(y; x) = M y - N x - c = 0  with y = (y0, y1, y2), x = (x1, x2):
    M = blockdiag(d_i I) + sparse off-diagonal blocks (only those are declared as partials), N sparse by block.
    Followed by an explicit component z = C y_a + D y_b.   Exact: dy/dx = M^-1 N."""
    ny = [int(rng.integers(1, 3)) for _ in range(3)]
    nx = [int(rng.integers(1, 3)) for _ in range(2)]
    s = {'ny': ny, 'nx': nx, 'M': {}, 'N': {}, 'd': [float(np.round(rng.uniform(1.0, 2.0), 2)) for _ in range(3)]}
    shape = str(rng.choice(['chain', 'chain', 'lower', 'random', 'cycle', 'none', 'none']))
    s['shape'] = shape
    pairs = []
    if shape == 'chain':          # y0 <- y1 <- y2 <- x   (y0's residual does not see x)
        pairs = [(0, 1), (1, 2)]
    elif shape == 'lower':
        pairs = [(1, 0), (2, 1), (2, 0)]
    elif shape == 'cycle':
        pairs = [(0, 1), (1, 2), (2, 0)]
    elif shape == 'none':         # control: residuals do not couple the outputs
        pairs = []
    else:
        pairs = [(i, j) for i in range(3) for j in range(3) if i != j and rng.random() < 0.4]
    for (i, j) in pairs:
        s['M']['%d,%d' % (i, j)] = (np.round(rng.uniform(0.2, 0.6, (ny[i], ny[j])) *
                                             rng.choice([-1.0, 1.0], (ny[i], ny[j])), 3) / max(ny)).tolist()
    if shape == 'chain':
        nblocks = [(2, 0), (2, 1)] if rng.random() < 0.5 else [(2, 0), (1, 1)]
    else:
        nblocks = [(i, k) for i in range(3) for k in range(2) if rng.random() < 0.4]
        for k in range(2):
            if not any(b[1] == k for b in nblocks):
                nblocks.append((int(rng.integers(0, 3)), k))
    for (i, k) in nblocks:
        s['N']['%d,%d' % (i, k)] = np.round(rng.uniform(0.3, 1.5, (ny[i], nx[k])) *
                                            rng.choice([-1.0, 1.0], (ny[i], nx[k])), 3).tolist()
    s['c'] = [np.round(rng.uniform(-1, 1, n), 3).tolist() for n in ny]
    s['x'] = [np.round(rng.uniform(-1, 1, n), 3).tolist() for n in nx]
    a, b = (int(v) for v in rng.choice(3, 2, replace=False))
    s['z_from'] = [a, b] if rng.random() < 0.5 else [a]
    s['C'] = [np.round(rng.uniform(0.3, 1.0, (2, ny[k])), 3).tolist() for k in s['z_from']]
    s['of'] = sorted(set(['y%d' % int(i) for i in rng.choice(3, int(rng.integers(1, 4)), replace=False)] +
                         (['z'] if rng.random() < 0.7 else [])))
    s['wrt'] = ['x1', 'x2'] if rng.random() < 0.7 else [str(rng.choice(['x1', 'x2']))]
    s['root_ln'] = str(rng.choice(['runonce', 'lnbgs', 'lnbj', 'krylov', 'direct']))
    s['in_group'] = bool(rng.random() < 0.5)
    s['grp_ln'] = str(rng.choice(['runonce', 'lnbgs', 'krylov', 'direct']))
    s['mode'] = str(rng.choice(['fwd', 'rev']))
    s['declared'] = bool(rng.random() < 0.5)
    s['one_ivc'] = bool(rng.random() < 0.5)
    return s


def coupled_matrices(s):
    ny, nx = s['ny'], s['nx']
    oy = np.concatenate([[0], np.cumsum(ny)])
    ox = np.concatenate([[0], np.cumsum(nx)])
    M = np.zeros((oy[-1], oy[-1]))
    N = np.zeros((oy[-1], ox[-1]))
    for i in range(3):
        M[oy[i]:oy[i + 1], oy[i]:oy[i + 1]] = s['d'][i] * np.eye(ny[i])
    for k, B in s['M'].items():
        i, j = (int(v) for v in k.split(','))
        M[oy[i]:oy[i + 1], oy[j]:oy[j + 1]] = np.asarray(B, float)
    for k, B in s['N'].items():
        i, j = (int(v) for v in k.split(','))
        N[oy[i]:oy[i + 1], ox[j]:ox[j + 1]] = np.asarray(B, float)
    return M, N, oy, ox


def coupled_reference(s):
    """exact values and d(of)/d(wrt) blocks: {'y0': {...}, ...}"""
    M, N, oy, ox = coupled_matrices(s)
    x = np.concatenate([np.asarray(v, float) for v in s['x']])
    c = np.concatenate([np.asarray(v, float) for v in s['c']])
    y = np.linalg.solve(M, N @ x + c)
    S = np.linalg.solve(M, N)
    Cz = np.zeros((2, oy[-1]))
    for k, C in zip(s['z_from'], s['C']):
        Cz[:, oy[k]:oy[k + 1]] = np.asarray(C, float)
    rows = {'y%d' % i: S[oy[i]:oy[i + 1]] for i in range(3)}
    rows['z'] = Cz @ S
    vals = {'y%d' % i: y[oy[i]:oy[i + 1]] for i in range(3)}
    vals['z'] = Cz @ y
    cols = {'x1': slice(ox[0], ox[1]), 'x2': slice(ox[1], ox[2])}
    J = np.vstack([np.hstack([rows[o][:, cols[w]] for w in s['wrt']]) for o in s['of']])
    # structural dependency: closure over the block patterns
    return {'J': J, 'vals': vals, 'cond': float(np.linalg.cond(M))}


def build_coupled(s, hook=None):
    import openmdao.api as om
    M, N, oy, ox = coupled_matrices(s)
    ny, nx = s['ny'], s['nx']
    Minv = np.linalg.inv(M)
    cvec = np.concatenate([np.asarray(v, float) for v in s['c']])

    class Coupled(om.ImplicitComponent):
        def setup(self):
            for k in range(2):
                self.add_input('x%d' % (k + 1), np.zeros(nx[k]))
            for i in range(3):
                self.add_output('y%d' % i, np.zeros(ny[i]))

        def setup_partials(self):
            for i in range(3):
                self.declare_partials('y%d' % i, 'y%d' % i, val=s['d'][i] * np.eye(ny[i]))
            for k, B in s['M'].items():
                i, j = (int(v) for v in k.split(','))
                self.declare_partials('y%d' % i, 'y%d' % j, val=np.asarray(B, float))
            for k, B in s['N'].items():
                i, j = (int(v) for v in k.split(','))
                self.declare_partials('y%d' % i, 'x%d' % (j + 1), val=-np.asarray(B, float))

        def _xy(self, inputs, outputs):
            return (np.concatenate([inputs['x1'], inputs['x2']]),
                    np.concatenate([outputs['y0'], outputs['y1'], outputs['y2']]))

        def apply_nonlinear(self, inputs, outputs, residuals):
            x, y = self._xy(inputs, outputs)
            r = M @ y - N @ x - cvec
            for i in range(3):
                residuals['y%d' % i] = r[oy[i]:oy[i + 1]]

        def solve_nonlinear(self, inputs, outputs):
            if hook:
                hook('solve_nonlinear', 'cpl', None)
            x = np.concatenate([inputs['x1'], inputs['x2']])
            y = Minv @ (N @ x + cvec)
            for i in range(3):
                outputs['y%d' % i] = y[oy[i]:oy[i + 1]]

        def linearize(self, inputs, outputs, partials):
            if hook:
                hook('linearize', 'cpl', None)

        def solve_linear(self, d_outputs, d_residuals, mode):
            if mode == 'fwd':
                r = np.concatenate([d_residuals['y%d' % i] for i in range(3)])
                y = Minv @ r
                for i in range(3):
                    d_outputs['y%d' % i] = y[oy[i]:oy[i + 1]]
            else:
                y = np.concatenate([d_outputs['y%d' % i] for i in range(3)])
                r = Minv.T @ y
                for i in range(3):
                    d_residuals['y%d' % i] = r[oy[i]:oy[i + 1]]

    prob = om.Problem()
    m = prob.model
    if s['one_ivc']:
        iv = m.add_subsystem('iv', om.IndepVarComp(), promotes=['*'])
        iv.add_output('x1', np.asarray(s['x'][0], float))
        iv.add_output('x2', np.asarray(s['x'][1], float))
    else:
        m.add_subsystem('iv1', om.IndepVarComp('x1', np.asarray(s['x'][0], float)), promotes=['*'])
        m.add_subsystem('iv2', om.IndepVarComp('x2', np.asarray(s['x'][1], float)), promotes=['*'])
    if s['in_group']:
        g = m.add_subsystem('g', om.Group(), promotes=['*'])
        g.add_subsystem('cpl', Coupled(), promotes=['*'])
        g.linear_solver = _ln_solver(om, s['grp_ln'])
    else:
        m.add_subsystem('cpl', Coupled(), promotes=['*'])
    Lin, _ = _om_classes()
    ins = [('y%d' % k, ny[k]) for k in s['z_from']]
    blocks = {('z', 'y%d' % k): np.asarray(C, float) for k, C in zip(s['z_from'], s['C'])}
    m.add_subsystem('zc', Lin(ins, [('z', 2)], blocks, {'z': np.zeros(2)}, hook, 'zc', False), promotes=['*'])
    m.linear_solver = _ln_solver(om, s['root_ln'])
    if s['declared']:
        for w in s['wrt']:
            m.add_design_var(w)
        for k, o in enumerate(s['of']):
            m.add_constraint(o, upper=1e3)
    return prob
