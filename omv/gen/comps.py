"""Harness components: real subclasses of OpenMDAO's ExplicitComponent / ImplicitComponent whose
mathematics is fully described by a JSON comp-spec (see omv/gen/models.py), so the reference
evaluator (omv/ref/flatmodel.py) can reproduce it independently.

  explicit: y_o = c_o + sum_k A_ok x_k + B_ok sin(x_k)
  implicit: r_o = y_o + beta*sin(y_o) - (c_o + sum_k A_ok x_k + B_ok sin(x_k))

Every evaluation entry point reports to an optional `hook(event, comp_name, payload)` so monitors
can observe inputs at entry (C04), execution order (C32) and the partials actually written (C13).
"""
import numpy as np
import scipy.sparse as sp

import openmdao.api as om


def _flat(v):
    return np.asarray(v).ravel()


class _Base:
    def _omv_init(self, cspec, hook):
        self._omv_cs = cspec
        self._omv_hook = hook
        self._omv_T = {o: {'c': np.asarray(t['c'], dtype=float),
                      'A': {k: np.asarray(v, dtype=float) for k, v in t['A'].items()},
                      'B': {k: np.asarray(v, dtype=float) for k, v in t['B'].items()}}
                  for o, t in cspec['terms'].items()}
        self._omv_styles = cspec.get('styles', {})

    def _omv_add_io(self):
        cs = self._omv_cs
        for i in cs['inputs']:
            kw = {}
            if i.get('units'):
                kw['units'] = i['units']
            if i.get('shape_by_conn'):
                self.add_input(i['name'], shape_by_conn=True, **kw)
            else:
                self.add_input(i['name'], val=np.asarray(i.get('val', np.ones(i['shape']))).reshape(i['shape'])
                               if i['shape'] else float(np.asarray(i.get('val', 1.0)).ravel()[0]), **kw)
        for o in cs['outputs']:
            kw = {}
            for k in ('units', 'ref', 'ref0', 'res_ref', 'lower', 'upper'):
                if o.get(k) is not None:
                    kw[k] = np.asarray(o[k]).reshape(o['shape']) if isinstance(o[k], list) else o[k]
            val = np.asarray(o.get('val', np.zeros(o['shape'])), dtype=float).reshape(o['shape']) \
                if o['shape'] else float(np.asarray(o.get('val', 0.0)).ravel()[0])
            self.add_output(o['name'], val=val, **kw)

    def _omv_pattern(self, o, k):
        t = self._omv_T[o]
        m = t['c'].size
        n = None
        P = None
        for d in (t['A'], t['B']):
            if k in d:
                P = (d[k] != 0) if P is None else (P | (d[k] != 0))
        return P

    def _omv_dense_block(self, o, k, x):
        t = self._omv_T[o]
        D = 0.0
        if k in t['A']:
            D = D + t['A'][k]
        if k in t['B']:
            D = D + t['B'][k] * np.cos(x)[None, :]
        return D

    def _omv_declare(self, of_name_fn=None):
        """Declare d f_o / d x_k for every (o,k) that has terms, in the style given by the spec."""
        self._omv_sp = {}
        for o in self._omv_T:
            for i in self._omv_cs['inputs']:
                k = i['name']
                P = self._omv_pattern(o, k)
                if P is None:
                    continue
                st = self._omv_styles.get('%s|%s' % (o, k), 'dense')
                t = self._omv_T[o]
                if self._omv_cs.get('const_partials') and k not in t['B'] and st in ('dense', 'rowcol', 'diag'):
                    # purely linear block: a CONSTANT partial, declared with val= and never assigned again
                    sign = -1.0 if self._omv_cs['kind'] == 'imp' else 1.0
                    A = sign * np.asarray(t['A'][k], dtype=float)
                    if not hasattr(self, '_omv_const'):
                        self._omv_const = set()
                    self._omv_const.add((o, k))
                    if st == 'dense':
                        self.declare_partials(o, k, val=A.copy())
                    elif st == 'rowcol':
                        rows, cols = np.nonzero(P)
                        self.declare_partials(o, k, rows=rows, cols=cols, val=A[rows, cols].copy())
                    else:
                        self.declare_partials(o, k, diagonal=True, val=np.diag(A).copy())
                    continue
                if st in ('fd', 'cs'):
                    opts = self._omv_cs.get('approx', {})
                    self.declare_partials(o, k, method=st, **opts)
                elif st == 'dense' or st == 'matfree':
                    if st == 'dense':
                        self.declare_partials(o, k)
                elif st == 'rowcol':
                    extra = self._omv_cs.get('extra_nz', {}).get('%s|%s' % (o, k), [])
                    Q = P.copy()
                    for (r, c) in extra:
                        Q[r, c] = True
                    rows, cols = np.nonzero(Q)
                    self._omv_sp[(o, k)] = (rows, cols)
                    self.declare_partials(o, k, rows=rows, cols=cols)
                elif st == 'diag':
                    self.declare_partials(o, k, diagonal=True)
                elif st in ('coo', 'csr', 'csc'):
                    rows, cols = np.nonzero(P)
                    M = sp.coo_matrix((np.ones(rows.size), (rows, cols)), shape=P.shape)
                    M = {'coo': M, 'csr': M.tocsr(), 'csc': M.tocsc()}[st]
                    self._omv_sp[(o, k)] = (rows, cols)
                    self.declare_partials(o, k, val=M)
                else:
                    raise ValueError(st)

    def _omv_fill_partials(self, inputs, partials, sign=1.0):
        for o in self._omv_T:
            for i in self._omv_cs['inputs']:
                k = i['name']
                P = self._omv_pattern(o, k)
                if P is None:
                    continue
                st = self._omv_styles.get('%s|%s' % (o, k), 'dense')
                if st in ('fd', 'cs', 'matfree') or (o, k) in getattr(self, '_omv_const', ()):
                    continue
                D = sign * self._omv_dense_block(o, k, _flat(inputs[k]))
                D = np.broadcast_to(D, P.shape)
                if st == 'dense':
                    partials[o, k] = D
                elif st == 'rowcol':
                    r, c = self._omv_sp[(o, k)]
                    partials[o, k] = D[r, c]
                elif st == 'diag':
                    partials[o, k] = np.diag(D).copy()
                else:
                    r, c = self._omv_sp[(o, k)]
                    M = sp.coo_matrix((D[r, c], (r, c)), shape=P.shape)
                    partials[o, k] = {'coo': M, 'csr': M.tocsr(), 'csc': M.tocsc()}[st]
                if self._omv_hook:
                    self._omv_hook('partial', self._omv_cs['name'], (o, k, np.array(D)))

    def _omv_f(self, inputs):
        res = {}
        for o, t in self._omv_T.items():
            y = t['c'].astype(complex) if any(np.iscomplexobj(inputs[k]) for k in
                                              list(t['A']) + list(t['B'])) else t['c'].copy()
            for k, A in t['A'].items():
                y = y + A @ _flat(inputs[k])
            for k, B in t['B'].items():
                y = y + B @ np.sin(_flat(inputs[k]))
            res[o] = y
        return res


class HExplicit(om.ExplicitComponent, _Base):
    def __init__(self, cspec, hook=None, **kw):
        super().__init__(**kw)
        self._omv_init(cspec, hook)

    def setup(self):
        self._omv_add_io()

    def setup_partials(self):
        if not self._omv_cs.get('matfree'):
            self._omv_declare()
        if self._omv_cs.get('declare_coloring'):
            self.declare_coloring(**self._omv_cs['declare_coloring'])

    def compute(self, inputs, outputs):
        if self._omv_hook:
            self._omv_hook('compute', self._omv_cs['name'], {k: np.array(inputs[k]) for k in inputs})
        f = self._omv_f(inputs)
        for o in self._omv_T:
            outputs[o] = f[o].reshape(outputs[o].shape)

    def compute_partials(self, inputs, partials):
        if self._omv_hook:
            self._omv_hook('linearize', self._omv_cs['name'], {k: np.array(inputs[k]) for k in inputs})
        self._omv_fill_partials(inputs, partials)

    def _omv_jvp(self, inputs, d_inputs, d_outputs, mode):
        for o in self._omv_T:
            if o not in d_outputs:
                continue
            for i in self._omv_cs['inputs']:
                k = i['name']
                if k not in d_inputs or self._omv_pattern(o, k) is None:
                    continue
                D = self._omv_dense_block(o, k, _flat(inputs[k]))
                if mode == 'fwd':
                    d_outputs[o] += (D @ _flat(d_inputs[k])).reshape(d_outputs[o].shape)
                else:
                    d_inputs[k] += (D.T @ _flat(d_outputs[o])).reshape(d_inputs[k].shape)


class HImplicit(om.ImplicitComponent, _Base):
    """r = y + beta sin(y) - f(x); provides solve_nonlinear (exact elementwise Newton) and solve_linear."""

    def __init__(self, cspec, hook=None, **kw):
        super().__init__(**kw)
        self._omv_init(cspec, hook)
        self._omv_beta = float(cspec['beta'])

    def setup(self):
        self._omv_add_io()

    def setup_partials(self):
        if not self._omv_cs.get('matfree'):
            self._omv_declare()
            for o in self._omv_T:
                n = self._omv_T[o]['c'].size
                self.declare_partials(o, o, rows=np.arange(n), cols=np.arange(n))

    def apply_nonlinear(self, inputs, outputs, residuals):
        if self._omv_hook:
            self._omv_hook('apply_nonlinear', self._omv_cs['name'], {k: np.array(inputs[k]) for k in inputs})
        f = self._omv_f(inputs)
        for o in self._omv_T:
            y = _flat(outputs[o])
            residuals[o] = (y + self._omv_beta * np.sin(y) - f[o]).reshape(residuals[o].shape)

    def solve_nonlinear(self, inputs, outputs):
        if self._omv_hook:
            self._omv_hook('solve_nonlinear', self._omv_cs['name'], {k: np.array(inputs[k]) for k in inputs})
        f = self._omv_f(inputs)
        for o in self._omv_T:
            y = _flat(outputs[o]).copy()
            for _ in range(60):
                r = y + self._omv_beta * np.sin(y) - f[o]
                if np.max(np.abs(r)) < 1e-15:
                    break
                y = y - r / (1.0 + self._omv_beta * np.cos(y))
            outputs[o] = y.reshape(outputs[o].shape)

    def linearize(self, inputs, outputs, partials):
        if self._omv_hook:
            self._omv_hook('linearize', self._omv_cs['name'], {k: np.array(inputs[k]) for k in inputs})
        self._omv_dry = {o: 1.0 + self._omv_beta * np.cos(_flat(outputs[o])) for o in self._omv_T}
        if self._omv_cs.get('matfree'):
            return
        self._omv_fill_partials(inputs, partials, sign=-1.0)
        for o in self._omv_T:
            partials[o, o] = self._omv_dry[o]

    def _omv_apply_linear(self, inputs, outputs, d_inputs, d_outputs, d_residuals, mode):
        for o in self._omv_T:
            if o not in d_residuals:
                continue
            dry = 1.0 + self._omv_beta * np.cos(_flat(outputs[o]))
            if mode == 'fwd':
                if o in d_outputs:
                    d_residuals[o] += (dry * _flat(d_outputs[o])).reshape(d_residuals[o].shape)
            else:
                if o in d_outputs:
                    d_outputs[o] += (dry * _flat(d_residuals[o])).reshape(d_outputs[o].shape)
            for i in self._omv_cs['inputs']:
                k = i['name']
                if k not in d_inputs or self._omv_pattern(o, k) is None:
                    continue
                D = -self._omv_dense_block(o, k, _flat(inputs[k]))
                if mode == 'fwd':
                    d_residuals[o] += (D @ _flat(d_inputs[k])).reshape(d_residuals[o].shape)
                else:
                    d_inputs[k] += (D.T @ _flat(d_residuals[o])).reshape(d_inputs[k].shape)

    def solve_linear(self, d_outputs, d_residuals, mode):
        for o in self._omv_T:
            dry = self._omv_dry[o]
            if mode == 'fwd':
                d_outputs[o] = (_flat(d_residuals[o]) / dry).reshape(d_outputs[o].shape)
            else:
                d_residuals[o] = (_flat(d_outputs[o]) / dry).reshape(d_residuals[o].shape)


class HExplicitMF(HExplicit):
    """matrix-free variant (the class must define compute_jacvec_product for OpenMDAO to detect it)."""

    def compute_jacvec_product(self, inputs, d_inputs, d_outputs, mode):
        self._omv_jvp(inputs, d_inputs, d_outputs, mode)


class HImplicitMF(HImplicit):
    def apply_linear(self, inputs, outputs, d_inputs, d_outputs, d_residuals, mode):
        self._omv_apply_linear(inputs, outputs, d_inputs, d_outputs, d_residuals, mode)
