"""C24 kit, family `arrow`: models whose TOTAL jacobian is made of diagonal blocks, dense rows and dense columns
spread over several components (so that a driver total coloring - forward, reverse or BIDIRECTIONAL - exists and the
components have different relevance footprints for the individual colours), with an own closed-form reference.

Spec (JSON-able dict, see gen_arrow_spec):  vector design variables x0[, x1], size-1 design variables s0[, s1],
an optional non-design source p; components, in execution order, all variables promoted to the root:
    diag   y = a*u**2 + b*u [+ c*s] [+ q]     u: vector variable (design variable or an earlier output), s: size-1 dv
                                                  -> diagonal block wrt u's source, dense column wrt s
    mul    y = sin(u)*s + p*u                    -> diagonal block + dense column (values depend on the point)
    row    g = sum_k w_k.(u_k - t_k)**2 + sum_j e_j (s_j - st_j)**2      -> dense row
    par    q = 2*p + 1                           p is NOT a design variable: the component is never relevant
a component flagged `dead` is no response and feeds nothing (dead end).
Reference: forward evaluation + chain rule in NumPy (arrow_eval / arrow_totals); for the optimisation variant the
final design is certified as the optimum by the KKT conditions evaluated on the NumPy model (arrow_kkt).
"""
import numpy as np


# =====================================================================================================
# generator
# =====================================================================================================
def _r(rng, lo, hi, n=None):
    if n is None:
        return round(rng.uniform(lo, hi), 3)
    return [round(rng.uniform(lo, hi), 3) for _ in range(n)]


def _pm(rng, lo, hi, n):
    return [round(rng.uniform(lo, hi) * rng.choice([-1.0, 1.0]), 3) for _ in range(n)]


def gen_arrow_spec(rng, opt=False):
    """rng: random.Random.  opt=True: convex variant (objective = row over ALL design variables, diag constraints
    with a >= 0 and upper bounds, everything else only loosely bounded) so that the optimum is unique."""
    n = rng.randint(3, 6)
    shape = rng.choice(['arrow', 'arrow', 'arrow', 'diagcol', 'diagrow', 'block', 'random'])
    two_x = rng.random() < (0.5 if shape in ('block', 'random') else 0.3)
    sizes = {'x0': n}
    if two_x:
        sizes['x1'] = rng.randint(2, 4)
    xs = sorted(sizes)
    want_col = shape in ('arrow', 'diagcol') or (shape == 'random' and rng.random() < 0.6)
    want_row = shape in ('arrow', 'diagrow') or (shape == 'random' and rng.random() < 0.6) or opt
    ss = []

    def new_s():
        # reuse an existing scalar dv or create another one (at most 2)
        if ss and (len(ss) >= 2 or rng.random() < 0.6):
            return rng.choice(ss)
        nm = 's%d' % len(ss)
        ss.append(nm)
        sizes[nm] = 1
        return nm

    comps = []
    outs_vec = []           # (name, size) of vector outputs usable as inputs of later comps

    def add_diag(name, out, u, with_s, kind=None, dead=False, q=None):
        m = sizes[u]
        kind = kind or ('mul' if (with_s and rng.random() < 0.35) else 'diag')
        if dead:        # a dead end must not introduce a design variable of its own (that would be a dead seed)
            sv = rng.choice(ss) if (with_s and ss) else None
        else:
            sv = new_s() if (with_s or kind == 'mul') else None
        c = {'name': name, 'kind': kind, 'out': out, 'u': u, 's': sv, 'dead': dead, 'q': q}
        if kind == 'diag':
            c['a'] = _r(rng, 0.2, 1.0, m)
            c['b'] = _pm(rng, 0.2, 1.0, m)
            c['c'] = _pm(rng, 0.5, 2.0, m)
        else:
            c['p'] = _pm(rng, 0.3, 1.0, m)
        sizes[out] = m
        comps.append(c)
        return c

    has_par = (not opt) and rng.random() < 0.4
    if has_par:
        sizes['p'] = n
        sizes['q'] = n
        comps.append({'name': 'par', 'kind': 'par', 'out': 'q', 'u': 'p', 's': None, 'dead': False, 'q': None})
    # one diagonal component per vector design variable
    for k, x in enumerate(xs):
        col = want_col if k == 0 else (want_col and rng.random() < 0.5)
        add_diag('d%d' % k, 'y%d' % k, x, col, kind='diag' if opt else None, q='q' if (has_par and k == 0) else None)
        outs_vec.append('y%d' % k)
    # a second component on the same design variable with another column variable (different footprint)
    if rng.random() < (0.5 if want_col else 0.25):
        add_diag('m0', 'z0', 'x0', True, kind='mul')
        outs_vec.append('z0')
    # chain: elementwise component behind y0
    if rng.random() < 0.35:
        add_diag('ch', 'v0', 'y0', rng.random() < 0.4, kind='diag')
        outs_vec.append('v0')
    # rows
    nrow = 0
    if want_row:
        nrow = 1 if (opt or rng.random() < 0.7) else 2
    for k in range(nrow):
        if opt and k == 0:
            us = list(xs)
        else:
            pool = list(xs) + ([o for o in outs_vec if o != 'z0'] if not opt else [])
            us = [u for u in pool if rng.random() < 0.5] or [rng.choice(pool)]
            if shape == 'arrow' and k == 0 and 'x0' not in us and 'y0' not in us and 'v0' not in us:
                us.append('x0')
        c = {'name': 'r%d' % k, 'kind': 'row', 'out': 'g%d' % k, 'us': us, 'dead': False,
             'w': {u: _r(rng, 0.3, 1.5, sizes[u]) for u in us},
             't': {u: _r(rng, -0.5, 0.5, sizes[u]) for u in us}, 'ss': []}
        sizes[c['out']] = 1
        comps.append(c)
    # scalar dvs inside the rows: opt -> the objective sees every scalar dv (strict convexity); else sometimes
    for c in comps:
        if c['kind'] == 'row':
            for s in ss:
                if (opt and c['name'] == 'r0') or ((not opt) and rng.random() < 0.3):
                    c['ss'].append([s, _r(rng, 0.3, 1.5), _r(rng, -0.5, 0.5)])
    # dead end
    if rng.random() < 0.5:
        add_diag('dd', 'dz', rng.choice(xs), bool(ss) and rng.random() < 0.6, kind='diag', dead=True)
    # ---------------- responses / design variables ----------------------------------------------------
    consumed = set()
    for c in comps:
        if c['kind'] == 'row':
            consumed.update(c['us'])
        elif c['kind'] != 'par' and not c['dead']:
            consumed.add(c['u'])
    resps = []
    for c in comps:
        if c['kind'] == 'par' or c['dead']:
            continue
        o = c['out']
        if c['kind'] == 'row':
            resps.append({'name': o, 'kind': 'obj' if c['name'] == 'r0' else 'con', 'idx': None})
            continue
        # a vector output is a response unless it is consumed downstream (then with probability 1/2)
        if o not in consumed or rng.random() < 0.5:
            idx = None
            m = sizes[o]
            if m > 2 and rng.random() < 0.25:
                idx = sorted(rng.sample(range(m), rng.randint(2, m - 1)))
            resps.append({'name': o, 'kind': 'con', 'idx': idx})
    dvs = []
    for x in xs + ss:
        idx = None
        if x in xs and sizes[x] > 2 and rng.random() < 0.2:
            idx = sorted(rng.sample(range(sizes[x]), rng.randint(2, sizes[x] - 1)))
        dvs.append({'name': x, 'idx': idx})
    spec = {'shape': shape, 'sizes': sizes, 'xs': xs, 'ss': list(ss), 'has_par': has_par, 'comps': comps,
            'resps': resps, 'dvs': dvs, 'opt': bool(opt)}
    # start point (and a second point for the re-evaluation of a cached total jacobian)
    spec['points'] = []
    for _ in range(2):
        pt = {x: _r(rng, 0.3, 1.4, sizes[x]) for x in xs}
        pt.update({s: [_r(rng, 0.4, 1.5)] for s in ss})
        if has_par:
            pt['p'] = _r(rng, -1.0, 1.0, n)
        spec['points'].append(pt)
    # ---------------- configuration ------------------------------------------------------------------
    spec['mode'] = rng.choice(['auto', 'auto', 'auto', 'fwd', 'rev'])
    spec['coloring'] = rng.choice(['dynamic', 'dynamic', 'fixed-object', 'fixed-file'])
    spec['direct'] = rng.random() < 0.6
    spec['num_full_jacs'] = rng.choice([1, 2, 3])
    spec['root_ln'] = rng.choice(['runonce', 'runonce', 'runonce', 'lnbgs', 'lnbj', 'krylov', 'direct'])
    spec['ivc'] = rng.choice(['auto', 'one', 'per-var'])
    # cache_linear_solution on some design variables / responses (initial guess of iterative solvers; the saved
    # solution belongs to one direction - matters under bidirectional colorings)
    spec['cache'] = []
    if rng.random() < 0.25:
        pool = [d['name'] for d in dvs] + [r['name'] for r in resps]
        spec['cache'] = sorted(set(rng.choice(pool) for _ in range(rng.randint(1, 3))))
    real = [c['name'] for c in comps]
    spec['groups'] = None
    if len(real) >= 3 and rng.random() < 0.5:
        cut = rng.randint(1, len(real) - 1)
        spec['groups'] = {'ga': real[:cut], 'gb': real[cut:]}
        spec['grp_ln'] = [rng.choice(['runonce', 'runonce', 'lnbgs', 'direct', 'krylov']) for _ in range(2)]
    if opt:
        _finish_opt(rng, spec)
    return spec


def _finish_opt(rng, spec):
    """bounds: diag constraints get an upper bound a little above their start value (the start point is feasible; the
    objective's targets t pull the design against some of them), everything else is bounded loosely (never
    active)."""
    vals, _ = arrow_eval(spec, spec['points'][0])
    kinds = {c['out']: c for c in spec['comps']}
    for r in spec['resps']:
        if r['kind'] == 'obj':
            continue
        c = kinds[r['name']]
        v = vals[r['name']] if r['idx'] is None else vals[r['name']][r['idx']]
        if c['kind'] == 'diag' and c['u'] in spec['xs']:
            r['upper'] = [round(float(x) + rng.uniform(0.02, 0.6), 3) for x in v]
            r['lower'] = None
        else:
            r['upper'] = [1e3] * len(v)
            r['lower'] = [-1e3] * len(v)
    spec['xbnd'] = 3.0


def arrow_tags(spec):
    t = ['shape=' + spec['shape'], 'mode=' + spec['mode'], 'col=' + spec['coloring'],
         'direct' if spec['direct'] else 'substitution', 'root=' + spec['root_ln'], 'ivc=' + spec['ivc'],
         'nx=%d' % len(spec['xs']), 'ns=%d' % len(spec['ss'])]
    t.append('comps=' + '+'.join(sorted(c['kind'] + ('-dead' if c.get('dead') else '') for c in spec['comps'])))
    if spec['groups']:
        t.append('groups=' + '/'.join(spec['grp_ln']))
    if any(d['idx'] for d in spec['dvs']):
        t.append('dv-idx')
    if any(r['idx'] for r in spec['resps']):
        t.append('resp-idx')
    if spec.get('cache'):
        t.append('cache-linear-solution')
    if spec['opt']:
        t.append('opt')
    return t


# =====================================================================================================
# reference (NumPy only)
# =====================================================================================================
def arrow_eval(spec, point):
    """values and d(var)/d(all design-variable SOURCES, full size) of every variable at `point`."""
    sizes = spec['sizes']
    srcs = spec['xs'] + spec['ss']
    off, W = {}, 0
    for x in srcs:
        off[x] = W
        W += sizes[x]
    vals, jac = {}, {}
    for x in srcs:
        vals[x] = np.asarray(point[x], float).reshape(sizes[x])
        J = np.zeros((sizes[x], W))
        J[:, off[x]:off[x] + sizes[x]] = np.eye(sizes[x])
        jac[x] = J
    if spec['has_par']:
        vals['p'] = np.asarray(point['p'], float)
        jac['p'] = np.zeros((sizes['p'], W))
    for c in spec['comps']:
        k = c['kind']
        if k == 'par':
            vals['q'] = 2.0 * vals['p'] + 1.0
            jac['q'] = 2.0 * jac['p']
        elif k == 'diag':
            u = vals[c['u']]
            a, b = np.asarray(c['a']), np.asarray(c['b'])
            y = a * u * u + b * u
            J = (2.0 * a * u + b)[:, None] * jac[c['u']]
            if c['s']:
                cc = np.asarray(c['c'])
                y = y + cc * vals[c['s']][0]
                J = J + cc[:, None] * jac[c['s']]
            if c['q']:
                y = y + vals[c['q']]
                J = J + jac[c['q']]
            vals[c['out']], jac[c['out']] = y, J
        elif k == 'mul':
            u = vals[c['u']]
            s = vals[c['s']][0]
            p = np.asarray(c['p'])
            vals[c['out']] = np.sin(u) * s + p * u
            jac[c['out']] = (np.cos(u) * s + p)[:, None] * jac[c['u']] + np.sin(u)[:, None] * jac[c['s']]
        elif k == 'row':
            g = 0.0
            J = np.zeros((1, W))
            for u in c['us']:
                w, t = np.asarray(c['w'][u]), np.asarray(c['t'][u])
                d = vals[u] - t
                g = g + float(np.sum(w * d * d))
                J = J + (2.0 * w * d)[None, :] @ jac[u]
            for s, e, st in c['ss']:
                d = vals[s][0] - st
                g = g + e * d * d
                J = J + 2.0 * e * d * jac[s]
            vals[c['out']], jac[c['out']] = np.array([g]), J
        else:
            raise ValueError(k)
    return vals, jac


def arrow_deps(spec):
    """structural dependency {variable: set of design-variable sources it depends on} (closure over the components)"""
    dep = {x: {x} for x in spec['xs'] + spec['ss']}
    dep['p'] = set()
    for c in spec['comps']:
        if c['kind'] == 'row':
            d = set()
            for u in c['us']:
                d |= dep[u]
            for sv, e, st in c['ss']:
                d |= dep[sv]
        else:
            d = set(dep[c['u']])
            if c.get('s'):
                d |= dep[c['s']]
            if c.get('q'):
                d |= dep[c['q']]
        dep[c['out']] = d
    return dep


def _cols(spec, wrt):
    sizes = spec['sizes']
    off, W = {}, 0
    for x in spec['xs'] + spec['ss']:
        off[x] = W
        W += sizes[x]
    cols = []
    for d in wrt:
        idx = d['idx'] if d['idx'] is not None else range(sizes[d['name']])
        cols.extend(off[d['name']] + i for i in idx)
    return cols


def arrow_totals(spec, jac, of, wrt):
    """of: list of {'name','idx'}; wrt: list of {'name','idx'}  ->  dense reference jacobian"""
    cols = _cols(spec, wrt)
    rows = []
    for r in of:
        J = jac[r['name']]
        if r['idx'] is not None:
            J = J[r['idx'], :]
        rows.append(J[:, cols])
    return np.vstack(rows)


def arrow_kkt(spec, point):
    """First-order optimality of `point` (dict var -> values; design variables at their final values) for the
    optimisation variant, judged on the NumPy model: returns (stationarity residual relative to max(1,|grad f|),
    largest constraint / bound violation).  Multipliers of the active constraints by non-negative least squares.
    The problem is convex with a strictly convex objective, so a KKT point is THE optimum."""
    from scipy.optimize import nnls
    dvs = spec['dvs']
    sizes = spec['sizes']
    cols = _cols(spec, dvs)
    vals, jac = arrow_eval(spec, point)
    obj = [r for r in spec['resps'] if r['kind'] == 'obj'][0]
    g = jac[obj['name']][0, cols]
    z = np.concatenate([np.asarray(vals[d['name']], float)[d['idx'] if d['idx'] is not None else
                                                           list(range(sizes[d['name']]))] for d in dvs])
    act = []            # outward normals of the active constraints (c <= 0 form)
    viol = 0.0
    tol_act = 1e-6
    for r in spec['resps']:
        if r['kind'] != 'con':
            continue
        idx = r['idx'] if r['idx'] is not None else list(range(sizes[r['name']]))
        v = vals[r['name']][idx]
        Jc = jac[r['name']][idx][:, cols]
        up = np.asarray(r['upper'], float)
        viol = max(viol, float(np.max(v - up)))
        for k in np.nonzero(v - up > -tol_act)[0]:
            act.append(Jc[k])
        if r['lower'] is not None:
            lo = np.asarray(r['lower'], float)
            viol = max(viol, float(np.max(lo - v)))
            for k in np.nonzero(lo - v > -tol_act)[0]:
                act.append(-Jc[k])
    b = spec['xbnd']
    viol = max(viol, float(np.max(np.abs(z) - b)))
    for k in range(len(z)):
        e = np.zeros(len(z))
        if z[k] - b > -tol_act:
            e[k] = 1.0
            act.append(e)
        elif -b - z[k] > -tol_act:
            e[k] = -1.0
            act.append(e)
    if act:
        Amat = np.array(act).T
        lam, rn = nnls(Amat, -g)
        resid = float(np.max(np.abs(Amat @ lam + g)))
    else:
        resid = float(np.max(np.abs(g)))
    return resid / max(1.0, float(np.max(np.abs(g)))), viol


# =====================================================================================================
# the OpenMDAO model
# =====================================================================================================
def _classes():
    import openmdao.api as om

    class Elem(om.ExplicitComponent):
        def __init__(self, c, sizes, hook=None):
            super().__init__()
            self._c24 = (c, sizes, hook)

        def setup(self):
            c, sizes, hook = self._c24
            k = c['kind']
            if k == 'row':
                for u in c['us']:
                    self.add_input(u, np.ones(sizes[u]))
                for s, e, st in c['ss']:
                    self.add_input(s, np.ones(1))
                self.add_output(c['out'], np.zeros(1))
                return
            m = sizes[c['u']]
            self.add_input(c['u'], np.ones(m))
            if c['s']:
                self.add_input(c['s'], np.ones(1))
            if c['q']:
                self.add_input(c['q'], np.ones(m))
            self.add_output(c['out'], np.zeros(m))

        def setup_partials(self):
            c, sizes, hook = self._c24
            k = c['kind']
            if k == 'row':
                for u in c['us']:
                    self.declare_partials(c['out'], u)
                for s, e, st in c['ss']:
                    self.declare_partials(c['out'], s)
                return
            m = sizes[c['u']]
            ar = np.arange(m)
            if k == 'par':
                self.declare_partials(c['out'], c['u'], rows=ar, cols=ar, val=2.0)
                return
            self.declare_partials(c['out'], c['u'], rows=ar, cols=ar)
            if c['s']:
                if k == 'diag':
                    self.declare_partials(c['out'], c['s'], val=np.asarray(c['c'], float).reshape(m, 1))
                else:
                    self.declare_partials(c['out'], c['s'])
            if c['q']:
                self.declare_partials(c['out'], c['q'], rows=ar, cols=ar, val=1.0)

        def compute(self, inputs, outputs):
            c, sizes, hook = self._c24
            if hook:
                hook('compute', c['name'], None)
            k = c['kind']
            if k == 'par':
                outputs[c['out']] = 2.0 * inputs[c['u']] + 1.0
            elif k == 'diag':
                u = inputs[c['u']]
                y = np.asarray(c['a']) * u * u + np.asarray(c['b']) * u
                if c['s']:
                    y = y + np.asarray(c['c']) * inputs[c['s']][0]
                if c['q']:
                    y = y + inputs[c['q']]
                outputs[c['out']] = y
            elif k == 'mul':
                u = inputs[c['u']]
                outputs[c['out']] = np.sin(u) * inputs[c['s']][0] + np.asarray(c['p']) * u
            else:
                g = 0.0
                for u in c['us']:
                    d = inputs[u] - np.asarray(c['t'][u])
                    g = g + np.sum(np.asarray(c['w'][u]) * d * d)
                for s, e, st in c['ss']:
                    g = g + e * (inputs[s][0] - st) ** 2
                outputs[c['out']] = g

        def compute_partials(self, inputs, partials):
            c, sizes, hook = self._c24
            if hook:
                hook('linearize', c['name'], None)
            k = c['kind']
            if k == 'diag':
                partials[c['out'], c['u']] = 2.0 * np.asarray(c['a']) * inputs[c['u']] + np.asarray(c['b'])
            elif k == 'mul':
                u = inputs[c['u']]
                partials[c['out'], c['u']] = np.cos(u) * inputs[c['s']][0] + np.asarray(c['p'])
                partials[c['out'], c['s']] = np.sin(u).reshape(-1, 1)
            elif k == 'row':
                for u in c['us']:
                    partials[c['out'], u] = (2.0 * np.asarray(c['w'][u]) *
                                             (inputs[u] - np.asarray(c['t'][u]))).reshape(1, -1)
                for s, e, st in c['ss']:
                    partials[c['out'], s] = 2.0 * e * (inputs[s][0] - st)

    return Elem


def _ln_solver(om, t):
    # values of O(10) pass through up to 5 components: round-off of a converged residual is ~1e-14 -> atol/rtol 1e-12
    kw = dict(iprint=-1, err_on_non_converge=False, atol=1e-12, rtol=1e-12, maxiter=20)
    if t == 'runonce':
        return om.LinearRunOnce()
    if t == 'direct':
        return om.DirectSolver(assemble_jac=False)
    if t == 'lnbgs':
        return om.LinearBlockGS(**kw)
    if t == 'lnbj':
        return om.LinearBlockJac(**kw)
    if t == 'krylov':
        return om.ScipyKrylov(iprint=-1, err_on_non_converge=False, atol=1e-12, rtol=1e-12, maxiter=100)
    raise ValueError(t)


def build_arrow(spec, hook=None):
    """Problem with a ScipyOptimizeDriver(SLSQP), design variables and responses declared; NOT set up; no coloring
    declared (the caller does that).  Use set_point() after setup."""
    import openmdao.api as om
    Elem = _classes()
    sizes = spec['sizes']
    prob = om.Problem()
    m = prob.model
    srcs = spec['xs'] + spec['ss'] + (['p'] if spec['has_par'] else [])
    if spec['ivc'] == 'one':
        iv = m.add_subsystem('iv', om.IndepVarComp(), promotes=['*'])
        for x in srcs:
            iv.add_output(x, np.ones(sizes[x]))
    elif spec['ivc'] == 'per-var':
        for x in srcs:
            m.add_subsystem('iv_' + x, om.IndepVarComp(x, np.ones(sizes[x])), promotes=['*'])
    where = {}
    if spec['groups']:
        for gi, (gname, members) in enumerate(sorted(spec['groups'].items())):
            g = m.add_subsystem(gname, om.Group(), promotes=['*'])
            g.linear_solver = _ln_solver(om, spec['grp_ln'][gi])
            for nm in members:
                where[nm] = g
    for c in spec['comps']:
        where.get(c['name'], m).add_subsystem(c['name'], Elem(c, sizes, hook), promotes=['*'])
    m.linear_solver = _ln_solver(om, spec['root_ln'])
    bnd = dict(lower=-spec['xbnd'], upper=spec['xbnd']) if spec['opt'] else {}
    cache = set(spec.get('cache', ()))
    for d in spec['dvs']:
        kw = dict(bnd)
        if d['name'] in cache:
            kw['cache_linear_solution'] = True
        if d['idx'] is not None:
            kw['indices'] = d['idx']
        m.add_design_var(d['name'], **kw)
    for r in spec['resps']:
        kw = {}
        if r['name'] in cache:
            kw['cache_linear_solution'] = True
        if r['kind'] == 'obj':
            m.add_objective(r['name'], **kw)
            continue
        if r['idx'] is not None:
            kw['indices'] = r['idx']
        if spec['opt']:
            kw['upper'] = np.asarray(r['upper'], float)
            if r['lower'] is not None:
                kw['lower'] = np.asarray(r['lower'], float)
        else:
            kw['upper'] = 1e3
        m.add_constraint(r['name'], **kw)
    prob.driver = om.ScipyOptimizeDriver(optimizer='SLSQP', tol=1e-11, maxiter=100, disp=False)
    prob.driver.options['singular_jac_behavior'] = 'ignore'
    return prob


def set_point(prob, spec, k):
    for name, v in spec['points'][k].items():
        prob.set_val(name, np.asarray(v, float))
