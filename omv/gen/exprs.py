"""Random well-defined ExecComp-style expressions and their harness-side NumPy evaluation.

Pure NumPy/SciPy: nothing here imports openmdao.  The function *names* to exercise are passed in by the
check (read from ExecComp's table at run time); what each name means is defined here from NumPy/SciPy.

Three evaluation modes of the very same expression strings:
  * plain  : exec(expr) in a namespace of raw numpy functions on raw arrays (the reference semantics);
  * guarded: operands wrapped in `NV`, every operator / function call checks that its arguments stay
             >= MARGIN away from singularities, kinks and branch switches and that magnitudes stay
             moderate (DomainGuard is raised otherwise -> the case is resampled / skipped);
  * noisy  : as guarded, and every intermediate result is perturbed by a relative amount AMP
             (independently in real and imaginary part) -> measures the conditioning of the expression
             with respect to rounding of its intermediates; tolerances are derived from that spread.
"""
import math

import numpy as np
import scipy.special

MARGIN = 0.2
MAXMAG = 1.0e4
AMP = 1e-13


class DomainGuard(Exception):
    pass


class HarnessError(Exception):
    pass


# ----------------------------------------------------------------------------------------------
# reference meaning of the names (NumPy / SciPy; abs and arctan2 in their complex-step-safe form,
# i.e. the analytic continuation whose imaginary part carries the exact first derivative)
# ----------------------------------------------------------------------------------------------
def _cs_abs(x):
    if np.iscomplexobj(x):
        x = np.asarray(x)
        return np.where(x.real < 0.0, -x, x)
    return np.abs(x)


def _cs_arctan2(y, x):
    if np.iscomplexobj(y) or np.iscomplexobj(x):
        a, b = np.real(y), np.imag(y)
        c, d = np.real(x), np.imag(x)
        return np.arctan2(a, c) + 1j * (c * b - a * d) / (a * a + c * c)
    return np.arctan2(y, x)


def _acc_log1p(x):
    """log1p; for complex arguments NumPy evaluates log|1 + x| (absolute error of one roundoff, i.e. the
    accuracy log1p exists for is lost near 0), so the modulus is taken from the real log1p:
    log|1 + a + ib| = log1p(a) + log1p((b / (1 + a))**2) / 2."""
    if np.iscomplexobj(x):
        a, b = np.real(x), np.imag(x)
        if np.all(a > -1.0):
            return np.log1p(a) + 0.5 * np.log1p((b / (1.0 + a)) ** 2) + 1j * np.arctan2(b, 1.0 + a)
    return np.log1p(x)


PLAIN = {
    'sin': np.sin, 'cos': np.cos, 'tan': np.tan, 'arcsin': np.arcsin, 'asin': np.arcsin,
    'arccos': np.arccos, 'acos': np.arccos, 'arctan': np.arctan, 'atan': np.arctan,
    'sinh': np.sinh, 'cosh': np.cosh, 'tanh': np.tanh, 'arcsinh': np.arcsinh, 'asinh': np.arcsinh,
    'arccosh': np.arccosh, 'acosh': np.arccosh,
    'exp': np.exp, 'expm1': np.expm1, 'log': np.log, 'log10': np.log10, 'log1p': _acc_log1p,
    'erf': scipy.special.erf, 'erfc': scipy.special.erfc,
    'abs': _cs_abs, 'arctan2': _cs_arctan2, 'power': np.power,
    'maximum': np.maximum, 'minimum': np.minimum, 'fmax': np.fmax, 'fmin': np.fmin,
    'isinf': np.isinf, 'isnan': np.isnan,
    'sum': np.sum, 'prod': np.prod, 'max': np.max, 'min': np.min,
    'dot': np.dot, 'inner': np.inner, 'outer': np.outer, 'kron': np.kron, 'matmul': np.matmul,
    'tensordot': np.tensordot, 'diff': np.diff,
    'arange': np.arange, 'ones': np.ones, 'zeros': np.zeros, 'linspace': np.linspace,
    'e': math.e, 'pi': math.pi,
}


# user functions the check registers with ExecComp.register(name, f, complex_safe=True): part of the
# "supported functions" once registered.  Plain Python arithmetic, hence complex-safe and elementwise.
def _omv_sq1(x):
    return x * x + 1.0


def _omv_ratio(x):
    return x / (1.0 + x * x)


def _omv_hyp(a, b):
    return (a * a + b * b + 1.0) ** 0.5


REGISTERED = {'omv_sq1': _omv_sq1, 'omv_ratio': _omv_ratio, 'omv_hyp': _omv_hyp}
PLAIN.update(REGISTERED)

UNARY_FREE = ['sin', 'cos', 'tanh', 'sinh', 'cosh', 'exp', 'expm1', 'arctan', 'atan', 'arcsinh', 'asinh',
              'erf', 'erfc', 'omv_sq1', 'omv_ratio']
UNARY_RESTRICTED = ['tan', 'log', 'log10', 'log1p', 'arcsin', 'asin', 'arccos', 'acos', 'arccosh', 'acosh',
                    'abs']
BINARY_EW = ['power', 'arctan2', 'maximum', 'minimum', 'fmax', 'fmin', 'omv_hyp']
LOGIC = ['isinf', 'isnan']
REDUCE = ['sum', 'prod', 'max', 'min']
LINALG = ['dot', 'inner', 'outer', 'kron', 'matmul', 'tensordot', 'diff']
CREATE = ['arange', 'ones', 'zeros', 'linspace']
CONSTS = ['e', 'pi']
KNOWN = set(UNARY_FREE + UNARY_RESTRICTED + BINARY_EW + LOGIC + REDUCE + LINALG + CREATE + CONSTS)


def _re(x):
    return np.real(np.asarray(x))


def _dom_tan(u):
    r = _re(u)
    m = (r - math.pi / 2.0) % math.pi
    d = np.minimum(m, math.pi - m)   # distance to the nearest (k+1/2)pi
    return bool(np.all(d >= MARGIN))


def _gap_extreme(u, largest):
    r = np.sort(_re(u).ravel())
    if r.size < 2:
        return True
    return bool((r[-1] - r[-2] >= MARGIN) if largest else (r[1] - r[0] >= MARGIN))


DOMAIN = {
    'tan': _dom_tan,
    'log': lambda u: bool(np.all(_re(u) >= MARGIN)),
    'log10': lambda u: bool(np.all(_re(u) >= MARGIN)),
    'log1p': lambda u: bool(np.all(_re(u) >= -1.0 + MARGIN)),
    'arcsin': lambda u: bool(np.all(np.abs(_re(u)) <= 1.0 - MARGIN)),
    'arccos': lambda u: bool(np.all(np.abs(_re(u)) <= 1.0 - MARGIN)),
    'arccosh': lambda u: bool(np.all(_re(u) >= 1.0 + MARGIN)),
    'abs': lambda u: bool(np.all(np.abs(_re(u)) >= MARGIN)),
    'power': lambda b, p: bool(np.all(_re(b) >= MARGIN) and np.all(np.abs(_re(p)) <= 4.0)),
    'arctan2': lambda y, x: bool(np.all((_re(x) >= MARGIN) | (np.abs(_re(y)) >= MARGIN))),
    'maximum': lambda a, b: bool(np.all(np.abs(_re(a) - _re(b)) >= MARGIN)),
    'max': lambda u: _gap_extreme(u, True),
    'min': lambda u: _gap_extreme(u, False),
    # sinh/cosh/exp grow fast: keep the argument moderate so that conditioning stays sane
    'exp': lambda u: bool(np.all(np.abs(_re(u)) <= 6.0)),
    'expm1': lambda u: bool(np.all(np.abs(_re(u)) <= 6.0)),
    'sinh': lambda u: bool(np.all(np.abs(_re(u)) <= 6.0)),
    'cosh': lambda u: bool(np.all(np.abs(_re(u)) <= 6.0)),
    # erfc underflows quickly; keep the derivative representable relative to the other entries
    'erf': lambda u: bool(np.all(np.abs(_re(u)) <= 3.0)),
    'erfc': lambda u: bool(np.all(np.abs(_re(u)) <= 3.0)),
}
for _a, _b in (('asin', 'arcsin'), ('acos', 'arccos'), ('acosh', 'arccosh'), ('minimum', 'maximum'),
               ('fmax', 'maximum'), ('fmin', 'maximum')):
    DOMAIN[_a] = DOMAIN[_b]


# ----------------------------------------------------------------------------------------------
# guarded / noisy values
# ----------------------------------------------------------------------------------------------
class _Ctx:
    amp = 0.0
    rng = None


def _raw(a):
    return a.v if isinstance(a, NV) else a


def _post(r, noise=True):
    a = np.asarray(r)
    if a.dtype.kind in 'biu':
        return r
    if not np.all(np.isfinite(a)):
        raise DomainGuard('non-finite')
    if a.size and np.max(np.abs(a.real)) > MAXMAG:
        raise DomainGuard('magnitude')
    if noise and _Ctx.amp:
        rng = _Ctx.rng
        if a.dtype.kind == 'c':
            r = a.real * (1.0 + _Ctx.amp * rng.uniform(-1, 1, a.shape)) + \
                1j * a.imag * (1.0 + _Ctx.amp * rng.uniform(-1, 1, a.shape))
        else:
            r = a * (1.0 + _Ctx.amp * rng.uniform(-1, 1, a.shape))
    return r


def _chk_den(d):
    if not np.all(np.abs(_re(d)) >= MARGIN):
        raise DomainGuard('division')


def _chk_pow(b, p):
    pr = _re(p)
    if np.iscomplexobj(p) and np.any(np.imag(p) != 0) or not np.all(pr == np.round(pr)):
        # general exponent: positive base away from 0
        if not (np.all(_re(b) >= MARGIN) and np.all(np.abs(pr) <= 4.0)):
            raise DomainGuard('pow-base')
    else:
        if np.any(pr < 0) and not np.all(np.abs(_re(b)) >= MARGIN):
            raise DomainGuard('pow-neg-int')
        if np.any(np.abs(pr) > 4):
            raise DomainGuard('pow-exp')


class NV(object):
    """Guarded value: operators mirror NumPy's, with domain guards and optional result noise."""

    __array_ufunc__ = None
    __slots__ = ('v',)

    def __init__(self, v):
        self.v = v

    def __add__(self, o):
        return NV(_post(self.v + _raw(o)))

    def __radd__(self, o):
        return NV(_post(_raw(o) + self.v))

    def __sub__(self, o):
        return NV(_post(self.v - _raw(o)))

    def __rsub__(self, o):
        return NV(_post(_raw(o) - self.v))

    def __mul__(self, o):
        return NV(_post(self.v * _raw(o)))

    def __rmul__(self, o):
        return NV(_post(_raw(o) * self.v))

    def __truediv__(self, o):
        d = _raw(o)
        _chk_den(d)
        return NV(_post(self.v / d))

    def __rtruediv__(self, o):
        _chk_den(self.v)
        return NV(_post(_raw(o) / self.v))

    def __pow__(self, o):
        p = _raw(o)
        _chk_pow(self.v, p)
        return NV(_post(self.v ** p))

    def __rpow__(self, o):
        b = _raw(o)
        if not (np.all(_re(b) >= MARGIN) and np.all(np.abs(_re(self.v)) <= 4.0)):
            raise DomainGuard('pow-base')
        return NV(_post(b ** self.v))

    def __neg__(self):
        return NV(-self.v)

    def __pos__(self):
        return NV(+self.v)

    def __matmul__(self, o):
        return NV(_post(self.v @ _raw(o)))

    def __getitem__(self, idx):
        return NV(self.v[idx])

    @property
    def T(self):
        return NV(self.v.T)

    def dot(self, o):
        return NV(_post(self.v.dot(_raw(o))))


def _wrap(name, f):
    dom = DOMAIN.get(name)
    exact = name in ('arange', 'ones', 'zeros', 'isinf', 'isnan')

    def g(*args, **kw):
        raw = [_raw(a) for a in args]
        if dom is not None and not dom(*raw):
            raise DomainGuard(name)
        return NV(_post(f(*raw, **kw), noise=not exact))
    g.__name__ = name
    return g


GUARDED = {k: (_wrap(k, v) if callable(v) else v) for k, v in PLAIN.items()}


def evaluate(exprs, env, mode='plain', amp=0.0, rng=None):
    """Run the assignment statements; env maps names to float/complex arrays or Python scalars.
    Returns dict of assigned names -> raw values."""
    if mode == 'plain':
        loc = dict(env)
        for ex in exprs:
            exec(ex, dict(PLAIN), loc)   # noqa: S102 - expressions come from our own generator
        return {k: v for k, v in loc.items() if k not in env}
    _Ctx.amp = amp
    _Ctx.rng = rng
    try:
        # in noisy mode the operands themselves are perturbed too (input rounding, e.g. by unit conversion)
        loc = {k: NV(_post(v)) for k, v in env.items()}
        for ex in exprs:
            exec(ex, dict(GUARDED), loc)  # noqa: S102
        return {k: _raw(v) for k, v in loc.items() if k not in env}
    finally:
        _Ctx.amp = 0.0
        _Ctx.rng = None


# ----------------------------------------------------------------------------------------------
# generator
# ----------------------------------------------------------------------------------------------
def _lit(rng, lo=0.3, hi=2.5):
    v = round(float(rng.uniform(lo, hi)), 2)
    return repr(v)


class ExprGen(object):
    """Grows expression strings of a requested shape.

    shapes: () true scalar (0-d / Python scalar), (1,) one-element array (ExecComp's default variable),
    (n,) vector, (r, c) matrix.
    """

    def __init__(self, rng, names, diag=False, arr_shape=None, max_inputs=4):
        self.rng = rng
        self.names = set(names) & KNOWN
        self.diag = diag                 # has_diag_partials mode: array subexpressions purely elementwise
        self.arr_shape = arr_shape       # the common array shape in diag mode
        self.inputs = {}                 # name -> shape
        self.consts = {}                 # name -> value
        self.used = set()
        self.max_inputs = max_inputs
        self.features = set()
        self.no_array = False            # inside: scalar subexpression that must not depend on arrays

    # -- helpers -----------------------------------------------------------------------------
    def _have(self, *fs):
        return [f for f in fs if f in self.names]

    def _pick(self, seq):
        return seq[int(self.rng.integers(len(seq)))]

    def _use(self, f):
        self.used.add(f)
        return f

    def new_input(self, shape):
        name = 'x%d' % len(self.inputs)
        self.inputs[name] = tuple(shape)
        return name

    def var(self, shape):
        shape = tuple(shape)
        same = [n for n, s in self.inputs.items() if s == shape]
        if same and (len(self.inputs) >= self.max_inputs or self.rng.random() < 0.5):
            return self._pick(same)
        return self.new_input(shape)

    def const(self, shape):
        shape = tuple(shape)
        same = [n for n, v in self.consts.items() if np.shape(v) == shape]
        if same and self.rng.random() < 0.6:
            return self._pick(same)
        name = 'k%d' % len(self.consts)
        if shape == ():
            val = float(round(self.rng.uniform(0.5, 2.0), 3))
        else:
            val = np.round(self.rng.uniform(0.5, 2.0, size=shape), 3)
        self.consts[name] = val
        self.features.add('constant')
        return name

    # -- leaves ------------------------------------------------------------------------------
    def leaf(self, shape):
        r = self.rng.random()
        if shape == ():
            if self.no_array or r < 0.4:
                q = self.rng.random()
                if q < 0.15 and self._have('pi', 'e'):
                    return self._use(self._pick(self._have('pi', 'e')))
                if q < 0.35:
                    return self.const(())
                if q < 0.55:
                    return self.var(())
                return _lit(self.rng)
            # a 0-d value out of an array: index or reduction
            return self.scalar_from_array(0)
        if shape == (1,):
            if r < 0.12:
                return self.const((1,))
            return self.var((1,))
        # arrays
        if self.no_array:
            raise HarnessError('array leaf requested in scalar-only context')
        if r < 0.08:
            return self.const(shape)
        if len(shape) == 1 and r < 0.16 and not self.diag:
            n = shape[0]
            c = self._have('ones', 'zeros', 'arange', 'linspace')
            if c:
                f = self._use(self._pick(c))
                self.features.add('creation')
                if f == 'arange':
                    return '%s(1, %d)' % (f, n + 1)
                if f == 'linspace':
                    return '%s(0.5, 1.5, %d)' % (f, n)
                if f == 'zeros':
                    return '(%s(%d) + %s)' % (f, n, _lit(self.rng))
                return '%s(%d)' % (f, n)
        if len(shape) == 2 and r < 0.16 and not self.diag:
            # transposed variable
            self.features.add('transpose')
            return '%s.T' % self.var((shape[1], shape[0]))
        return self.var(shape)

    def scalar_from_array(self, depth):
        """A 0-d expression computed from array data (index or reduction)."""
        rng = self.rng
        if self.diag:
            shp = self.arr_shape
        else:
            shp = self._pick([(2,), (3,), (4,), (2, 2), (2, 3)])
        r = rng.random()
        inner = self.expr(shp, depth)
        reds = self._have('sum', 'prod', 'max', 'min')
        if r < 0.3 or not reds:
            idx = ', '.join(str(int(rng.integers(s))) for s in shp)
            self.features.add('index')
            return '(%s)[%s]' % (inner, idx)
        if r < 0.5 and len(shp) == 1 and self._have('dot', 'inner'):
            f = self._use(self._pick(self._have('dot', 'inner')))
            self.features.add('reduction')
            return '%s(%s, %s)' % (f, inner, self.expr(shp, depth))
        if r < 0.6 and len(shp) == 2 and self._have('tensordot'):
            self.features.add('reduction')
            return '%s(%s, %s)' % (self._use('tensordot'), inner, self.expr(shp, depth))
        f = self._use(self._pick(reds))
        self.features.add('reduction')
        if f == 'prod':
            return 'prod(0.5*(%s))' % inner if rng.random() < 0.5 else 'prod(%s)' % inner
        return '%s(%s)' % (f, inner)

    # -- elementwise productions -----------------------------------------------------------
    def _adapt(self, f, arg):
        """Argument form that keeps a restricted function inside its domain (70%) or raw (30%)."""
        if self.rng.random() < 0.3:
            return arg
        if f in ('log', 'log10'):
            return '(%s)**2 + 0.5' % arg
        if f == 'log1p':
            return '(%s)**2' % arg
        if f in ('arcsin', 'asin', 'arccos', 'acos'):
            return '0.35*(%s)' % arg
        if f in ('arccosh', 'acosh'):
            return '1.5 + (%s)**2' % arg
        if f == 'tan':
            return '0.4*(%s)' % arg
        if f == 'abs':
            return '(%s) + 3.0' % arg
        return arg

    def unary(self, shape, depth):
        fs = self._have(*UNARY_FREE) * 2 + self._have(*UNARY_RESTRICTED)
        if not fs:
            return self.expr(shape, depth - 1)
        f = self._use(self._pick(fs))
        arg = self.expr(shape, depth - 1)
        if f in UNARY_RESTRICTED:
            arg = self._adapt(f, arg)
        if f in ('exp', 'expm1', 'sinh', 'cosh') and self.rng.random() < 0.6:
            arg = '0.5*(%s)' % arg
        return '%s(%s)' % (f, arg)

    def _operand(self, shape, depth):
        """Second operand of a binary elementwise op: same shape or a broadcastable scalar."""
        r = self.rng.random()
        if shape in ((), (1,)):
            if shape == (1,) and r < 0.3:
                return self.expr((), depth)
            return self.expr(shape, depth)
        if r < 0.55:
            return self.expr(shape, depth)
        if r < 0.8:
            self.features.add('broadcast')
            return self.scalar_ctx(lambda: self.expr((1,), depth))
        self.features.add('broadcast')
        return self.scalar_ctx(lambda: self.expr((), depth))

    def scalar_ctx(self, fn):
        """In diag mode a scalar operand inside an array expression may not depend on arrays."""
        if not self.diag:
            return fn()
        old = self.no_array
        self.no_array = True
        try:
            return fn()
        finally:
            self.no_array = old

    def binary(self, shape, depth):
        rng = self.rng
        a = self.expr(shape, depth - 1)
        r = rng.random()
        if r < 0.5:
            op = self._pick(['+', '-', '*', '*'])
            b = self._operand(shape, depth - 1)
            return '(%s %s %s)' % (a, op, b) if rng.random() < 0.7 else '(%s %s %s)' % (b, op, a)
        if r < 0.62:
            b = self._operand(shape, depth - 1)
            self.features.add('division')
            if rng.random() < 0.6:
                return '(%s / ((%s)**2 + 0.5))' % (a, b)
            return '(%s / %s)' % (a, b)
        if r < 0.72:
            self.features.add('intpow')
            return '(%s)**%d' % (a, int(self._pick([2, 3, 2])))
        if r < 0.78:
            self.features.add('realpow')
            return '((%s)**2 + 0.5)**%s' % (a, self._pick(['0.5', '1.5', '-0.5', '0.3']))
        fs = self._have(*BINARY_EW)
        if not fs:
            return '(%s * %s)' % (a, self._operand(shape, depth - 1))
        f = self._use(self._pick(fs))
        b = self._operand(shape, depth - 1)
        if f == 'power':
            self.features.add('realpow')
            return 'power((%s)**2 + 0.5, %s)' % (a, b) if rng.random() < 0.7 else 'power(%s, %s)' % (a, b)
        if f == 'arctan2':
            if rng.random() < 0.6:
                return 'arctan2(%s, (%s)**2 + 0.5)' % (a, b)
            return 'arctan2(%s, %s)' % (a, b)
        if f == 'omv_hyp':
            self.features.add('registered-binary')
            return 'omv_hyp(%s, %s)' % (a, b)
        self.features.add('kink-select')
        if rng.random() < 0.5:
            return '%s(%s, %s)' % (f, a, b)
        return '%s(%s, %s)' % (f, b, a)

    def logic(self, shape, depth):
        fs = self._have(*LOGIC)
        a = self.expr(shape, depth - 1)
        if not fs:
            return a
        f = self._use(self._pick(fs))
        self.features.add('logic')
        return '((2.0 - %s(%s)) * %s)' % (f, a, self.expr(shape, depth - 1))

    # -- structural productions (not allowed on arrays in diag mode) -----------------------------
    def structural(self, shape, depth):
        rng = self.rng
        d = depth - 1
        if len(shape) == 1 and shape[0] > 1:
            n = shape[0]
            opts = []
            if self._have('dot', 'matmul'):
                opts += ['matvec', 'matvec']
            if self._have('diff'):
                opts.append('diff')
            if self._have('kron') and n in (4, 6):
                opts.append('kron')
            if self._have('linspace'):
                opts.append('linspace')
            opts += ['slice', 'reverse', 'row', 'method-dot', 'fancy']
            k = self._pick(opts)
            self.features.add(k)
            if k == 'matvec':
                f = self._use(self._pick(self._have('dot', 'matmul')))
                c = int(self._pick([2, 3]))
                return '%s(%s, %s)' % (f, self.expr((n, c), d), self.expr((c,), d))
            if k == 'diff':
                return '%s(%s)' % (self._use('diff'), self.expr((n + 1,), d))
            if k == 'kron':
                a, b = (2, n // 2) if rng.random() < 0.5 else (n // 2, 2)
                return '%s(%s, %s)' % (self._use('kron'), self.expr((a,), d), self.expr((b,), d))
            if k == 'linspace':
                return '%s(%s, %s, %d)' % (self._use('linspace'), self.expr((), d), self.expr((), d), n)
            if k == 'slice':
                m = n + int(rng.integers(1, 3))
                if rng.random() < 0.5:
                    return '(%s)[%d:]' % (self.expr((m,), d), m - n)
                return '(%s)[:%d]' % (self.expr((m,), d), n - m)
            if k == 'reverse':
                return '(%s)[::-1]' % self.expr((n,), d)
            if k == 'row':
                r = int(self._pick([2, 3]))
                if rng.random() < 0.5:
                    return '(%s)[%d]' % (self.expr((r, n), d), int(rng.integers(r)))
                return '(%s)[:, %d]' % (self.expr((n, r), d), int(rng.integers(r)))
            if k == 'method-dot':
                c = int(self._pick([2, 3]))
                return '%s.dot(%s)' % (self.var((n, c)), self.expr((c,), d))
            if k == 'fancy':
                m = n + 1
                idx = [int(i) for i in rng.integers(0, m, size=n)]
                return '(%s)[%s]' % (self.expr((m,), d), idx)
        if len(shape) == 2:
            r_, c_ = shape
            opts = ['transpose']
            if self._have('outer'):
                opts += ['outer', 'outer']
            if self._have('matmul', 'dot'):
                opts.append('matmat')
            k = self._pick(opts)
            self.features.add(k)
            if k == 'outer':
                return '%s(%s, %s)' % (self._use('outer'), self.expr((r_,), d), self.expr((c_,), d))
            if k == 'matmat':
                f = self._use(self._pick(self._have('matmul', 'dot')))
                m = int(self._pick([2, 3]))
                return '%s(%s, %s)' % (f, self.expr((r_, m), d), self.expr((m, c_), d))
            return '(%s).T' % self.expr((c_, r_), d)
        return self.binary(shape, depth)

    # -- main --------------------------------------------------------------------------------
    def expr(self, shape, depth):
        shape = tuple(shape)
        if depth <= 0:
            return self.leaf(shape)
        r = self.rng.random()
        if shape == ():
            if self.no_array:
                if r < 0.4:
                    return self.unary(shape, depth)
                if r < 0.8:
                    return self.binary(shape, depth)
                return self.leaf(shape)
            if r < 0.5:
                return self.scalar_from_array(depth - 1)
            if r < 0.7:
                return self.unary(shape, depth)
            if r < 0.9:
                return self.binary(shape, depth)
            return self.leaf(shape)
        if shape == (1,):
            if r < 0.35:
                return self.unary(shape, depth)
            if r < 0.8:
                return self.binary(shape, depth)
            if r < 0.88:
                return self.logic(shape, depth)
            return self.leaf(shape)
        # arrays
        if r < 0.3:
            return self.unary(shape, depth)
        if r < 0.65:
            return self.binary(shape, depth)
        if r < 0.7:
            return self.logic(shape, depth)
        if r < 0.93 and not self.diag:
            return self.structural(shape, depth)
        return self.leaf(shape)
