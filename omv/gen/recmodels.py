"""Generator of small recorded OpenMDAO problems (shared by C17, C18, C19).

A *spec* is a JSON-able dict; `build(spec)` turns it into an `om.Problem` with recorders attached,
`run_sequence(built)` executes its run sequence.  Everything is deterministic given the spec.

The model: K harness components (`LinSin`: y_o = c_o + s + 0.05 sin(s), s = sum_i A_oi x_i; or real
ExecComps), placed in root / group `g` / nested group `g.h` (contiguous blocks, so the data flow is
feed-forward unless a cycle is requested), wired by root-level `connect` (optionally with
src_indices and compatible-but-different units) or left unconnected (auto-IVC) or fed by an explicit
IndepVarComp; optional discrete variables; optional NLBGS/Newton cycle; optional shared promoted
input; optional output scaling (`ref`).  Variable names are globally unique (x<j>a, y<j>b, d<j>i ...),
which makes include/exclude patterns easy to reason about.

`varinfo(spec)` derives, *without OpenMDAO*, every variable's absolute name and its promoted name at
every enclosing system - this is what the C17 selection oracle uses.
"""
import copy
import random

import numpy as np

UNIT_FAMS = [['m', 'cm', 'km'], ['s', 'ms'], ['N', 'kN'], [None]]


# --------------------------------------------------------------------------------------------
# spec generation
# --------------------------------------------------------------------------------------------
def _rvals(rng, n, lo=-2.0, hi=2.0):
    return [round(rng.uniform(lo, hi), 6) for _ in range(n)]


def gen_model(rng, kmax=5, allow_cycle=True, allow_discrete=True, allow_scaled=False,
              allow_special=False, converge=False):
    """Model part of a spec."""
    K = rng.randrange(2, kmax + 1)
    # contiguous group blocks
    layout = [''] * K
    if K >= 2 and rng.random() < 0.7:
        a = rng.randrange(0, K)
        b = rng.randrange(a, K)
        for j in range(a, b + 1):
            layout[j] = 'g'
        if rng.random() < 0.5:
            c = rng.randrange(a, b + 1)
            d = rng.randrange(c, b + 1)
            for j in range(c, d + 1):
                layout[j] = 'g.h'
    groups = {}
    for gp in ('g', 'g.h'):
        if gp in layout or (gp == 'g' and 'g.h' in layout):
            groups[gp] = {'promote_all': rng.random() < 0.4}
    ivc_mode = rng.choice(['auto', 'explicit'])
    indeps = []
    for nm in ('a', 'b')[:rng.randrange(1, 3)]:
        fam = rng.choice(UNIT_FAMS)
        n = rng.choice([1, 2, 3])
        indeps.append({'name': nm, 'size': n, 'units': rng.choice(fam), 'fam': UNIT_FAMS.index(fam),
                       'val': _rvals(rng, n)})
    comps = []
    outs = []          # (comp index, out name, size, units, fam)
    for j in range(K):
        kind = 'exec' if rng.random() < 0.25 else 'lin'
        c = {'name': 'c%d' % j, 'group': layout[j], 'kind': kind, 'promote': rng.random() < 0.5,
             'seed': rng.randrange(1 << 30), 'ins': [], 'outs': []}
        nin = 1 if kind == 'exec' else rng.randrange(1, 3)
        nout = 1 if kind == 'exec' else rng.randrange(1, 3)
        for t in range(nin):
            nm = 'x%d%s' % (j, 'ab'[t])
            srcs = [('out', o) for o in outs] + ([('indep', i) for i in indeps] if ivc_mode == 'explicit'
                                                 else [])
            r = rng.random()
            if srcs and r < 0.75:
                what, s = rng.choice(srcs)
                if what == 'out':
                    sname, ssize, fam = 'c%d.%s' % (s[0], s[1]), s[2], s[4]
                else:
                    sname, ssize, fam = 'ivc.' + s['name'], s['size'], s['fam']
                size = ssize if (rng.random() < 0.6 or kind == 'exec') else rng.choice([1, 2, 3])
                sidx = None
                if size != ssize or rng.random() < 0.2:
                    sidx = [rng.randrange(ssize) for _ in range(size)]
                c['ins'].append({'name': nm, 'size': size, 'units': rng.choice(UNIT_FAMS[fam]),
                                 'fam': fam, 'src': sname, 'src_indices': sidx, 'val': _rvals(rng, size)})
            else:
                fam = rng.randrange(len(UNIT_FAMS))
                size = rng.choice([1, 2, 3])
                c['ins'].append({'name': nm, 'size': size, 'units': rng.choice(UNIT_FAMS[fam]),
                                 'fam': fam, 'src': None, 'src_indices': None, 'val': _rvals(rng, size)})
        for t in range(nout):
            nm = 'y%d%s' % (j, 'ab'[t])
            fam = rng.randrange(len(UNIT_FAMS))
            size = c['ins'][0]['size'] if kind == 'exec' else rng.choice([1, 2, 3])
            o = {'name': nm, 'size': size, 'units': rng.choice(UNIT_FAMS[fam]), 'fam': fam, 'ref': None}
            if allow_scaled and rng.random() < 0.5:
                o['ref'] = rng.choice([10.0, 0.25, 4.0])
            c['outs'].append(o)
            outs.append((j, nm, size, o['units'], fam))
        if allow_discrete and kind == 'lin' and rng.random() < 0.3:
            c['disc'] = {'in': 'd%di' % j, 'out': 'd%do' % j,
                         'val': rng.choice([3, 7, 2.5, [1, 2], 'txt', True])}
        comps.append(c)
    model = {'ivc_mode': ivc_mode, 'indeps': indeps, 'groups': groups, 'comps': comps, 'cycle': None,
             'shared': None, 'special': None}
    # shared promoted input on two root-level promoted lin comps
    cand = [c for c in comps if c['group'] == '' and c['kind'] == 'lin']
    if len(cand) >= 2 and rng.random() < 0.3:
        c1, c2 = rng.sample(cand, 2)
        fam = rng.randrange(len(UNIT_FAMS))
        size = rng.choice([1, 2])
        u1, u2 = rng.choice(UNIT_FAMS[fam]), rng.choice(UNIT_FAMS[fam])
        for c, u in ((c1, u1), (c2, u2)):
            c['promote'] = True
            c['ins'].append({'name': 's', 'size': size, 'units': u, 'fam': fam, 'src': None,
                             'src_indices': None, 'val': [0.5] * size})
        model['shared'] = {'name': 's', 'size': size, 'units': u1, 'val': _rvals(rng, size)}
    # cycle: feed an output of a later comp back into an input of an earlier comp of the same group
    if allow_cycle and rng.random() < 0.45:
        for gp in rng.sample(['', 'g', 'g.h'], 3):
            members = [j for j in range(K) if layout[j] == gp or layout[j].startswith(gp + '.') or gp == '']
            members = [j for j in members if comps[j]['kind'] == 'lin']
            if len(members) >= 2:
                p, q = sorted(rng.sample(members, 2))
                tgt = comps[p]['ins'][0]
                so = comps[q]['outs'][0]
                tgt['src'] = 'c%d.%s' % (q, so['name'])
                tgt['fam'] = so['fam']
                tgt['units'] = rng.choice(UNIT_FAMS[so['fam']]) if not converge else so['units']
                tgt['src_indices'] = None if tgt['size'] == so['size'] else \
                    [rng.randrange(so['size']) for _ in range(tgt['size'])]
                model['cycle'] = {'group': gp,
                                  'solver': 'nlbgs' if allow_scaled else rng.choice(['nlbgs', 'newton', 'newton_ls']),
                                  'maxiter': 60 if converge else rng.choice([2, 3, 5, 12]),
                                  'back': [q, p]}
                if model['cycle']['solver'].startswith('newton'):
                    for c in comps:        # OpenMDAO documents: Newton cannot be used with discrete outputs
                        c.pop('disc', None)
                break
    if allow_special and rng.random() < 0.5:
        model['special'] = rng.choice(['nan', 'inf', '-inf', '-0.0', '5e-324', '1.7976931348623157e308'])
    return model


def indep_names(model):
    """Root-promoted names of the independent variables (explicit IVC outputs or auto-IVC inputs)."""
    vi = varinfo(model)
    names = []
    seen = set()
    for absn, m in vi['vars'].items():
        if m['io'] == 'output' and m['comp'] == 'ivc':
            names.append((m['prom'][''], m['size'], absn))
    for absn, m in vi['vars'].items():
        if m['io'] == 'input' and not m['discrete'] and m['src'] is None:
            p = m['prom']['']
            if p not in seen:
                seen.add(p)
                names.append((p, m['size'], absn))
    return names


def gen_driver(rng, model, kinds=('none', 'plain', 'doe', 'slsqp'), ndoe=None):
    kind = rng.choice(list(kinds))
    drv = {'kind': kind, 'desvars': [], 'objective': None, 'constraints': [], 'doe_cases': None,
           'maxiter': rng.choice([2, 3, 4])}
    ind = indep_names(model)
    if model['special']:
        ind = ind[1:]      # the first indep carries the special value; keep it out of the driver's hands
    vi = varinfo(model)
    outs = [(m['prom'][''], m['size']) for a, m in vi['vars'].items()
            if m['io'] == 'output' and not m['discrete'] and m['comp'] != 'ivc']
    if kind in ('doe', 'slsqp') and not ind:
        drv['kind'] = kind = 'plain'
    if kind == 'none' and rng.random() < 0.5:
        return drv
    nd = rng.randrange(1, min(2, len(ind)) + 1) if ind else 0
    if kind == 'plain' and rng.random() < 0.3:
        nd = 0
    for name, size, _ in rng.sample(ind, nd):
        drv['desvars'].append({'name': name, 'size': size, 'lower': -3.0, 'upper': 3.0})
    if drv['desvars'] or kind == 'plain':
        if drv['desvars']:
            on, osz = outs[-1]
            drv['objective'] = {'name': on, 'index': rng.randrange(osz)}
            for cn, csz in rng.sample(outs[:-1], min(len(outs) - 1, rng.randrange(0, 3))):
                idx = sorted(rng.sample(range(csz), rng.randrange(1, csz + 1))) if rng.random() < 0.5 else None
                drv['constraints'].append({'name': cn, 'indices': idx, 'upper': 50.0})
    if kind == 'doe':
        n = ndoe if ndoe is not None else rng.choice([2, 3, 4, 12])
        drv['doe_cases'] = [[[d['name'], _rvals(rng, d['size'])] for d in drv['desvars']] for _ in range(n)]
    return drv


PATTERN_POOL = ['*', '*x*', '*y*', '*a', '*b', '*[0-2]a', '*y?a', 'g.*', '*.y*', '*d*', 'c0.*', '*c1*',
                'nomatch*']


def _patterns(rng, vi, syspath, n):
    out = []
    names = []
    for a, m in vi['vars'].items():
        if syspath in m['prom']:
            names += [m['prom'][syspath], a]
    for _ in range(n):
        r = rng.random()
        if r < 0.6 or not names:
            out.append(rng.choice(PATTERN_POOL))
        elif r < 0.8:
            out.append(rng.choice(names))
        else:
            nm = rng.choice(names)
            out.append('*' + nm[-3:])
    return out


def gen_rec_options(rng, kind, vi, syspath='', plain=False):
    """recording_options for one requester.  plain=True -> defaults + everything on."""
    def flag(p=0.5):
        return rng.random() < p
    o = {}
    if kind in ('problem', 'driver'):
        for k in ('record_desvars', 'record_objectives', 'record_constraints', 'record_responses',
                  'record_inputs', 'record_outputs', 'record_residuals'):
            o[k] = flag(0.6)
        o['record_derivatives'] = flag(0.4)
        if kind == 'problem':
            o['record_abs_error'] = flag()
            o['record_rel_error'] = flag()
    elif kind == 'system':
        for k in ('record_inputs', 'record_outputs', 'record_residuals'):
            o[k] = flag(0.7)
    else:
        for k in ('record_abs_error', 'record_rel_error', 'record_inputs', 'record_outputs',
                  'record_solver_residuals'):
            o[k] = flag(0.7)
    r = rng.random()
    if r < 0.35:
        o['includes'] = ['*']
    elif r < 0.45 and kind in ('problem', 'driver'):
        o['includes'] = []
    else:
        o['includes'] = _patterns(rng, vi, syspath, rng.randrange(1, 3))
    o['excludes'] = [] if rng.random() < 0.5 else _patterns(rng, vi, syspath, rng.randrange(1, 3))
    if plain:
        for k in list(o):
            if k.startswith('record_'):
                o[k] = True
        o['includes'] = ['*']
        o['excludes'] = []
    return o


def requester_list(model):
    """All recordable requesters of the model: [kind, path]."""
    reqs = [['problem', ''], ['driver', ''], ['system', ''], ['solver', '']]
    for gp in model['groups']:
        reqs.append(['system', gp])
        reqs.append(['solver', gp])
    for c in model['comps']:
        reqs.append(['system', comp_path(c)])
    cyc = model['cycle']
    if cyc and cyc['solver'] == 'newton_ls':
        reqs.append(['linesearch', cyc['group']])
    return reqs


def gen_recorders(rng, model, nfiles=(1, 2), nattach=(1, 5), plain=False, viewer_p=0.2):
    vi = varinfo(model)
    reqs = requester_list(model)
    files = []
    used = []
    for f in range(rng.randrange(nfiles[0], nfiles[1] + 1)):
        k = min(len(reqs), rng.randrange(nattach[0], nattach[1] + 1))
        att = rng.sample(reqs, k)
        files.append({'file': './r%d.sql' % f, 'viewer': rng.random() < viewer_p, 'attach': att})
        for a in att:
            if a not in used:
                used.append(a)
    opts = {}
    for kind, path in used:
        okind = 'solver' if kind == 'linesearch' else kind
        opts['%s:%s' % (kind, path)] = gen_rec_options(rng, okind, vi, path if kind != 'driver' else '',
                                                        plain=plain)
    return {'files': files, 'options': opts}


def gen_sequence(rng, model, drv, nruns=(1, 3), prefix_p=0.6):
    seq = []
    ind = indep_names(model)
    if model['special']:
        ind = ind[1:]
    n = rng.randrange(nruns[0], nruns[1] + 1)
    for r in range(n):
        if r > 0 and ind and rng.random() < 0.7:
            name, size, _ = rng.choice(ind)
            seq.append(['set', name, _rvals(rng, size)])
        pre = None
        if r > 0 and rng.random() < prefix_p:
            pre = 'r%d' % r
        if drv['kind'] == 'none' or rng.random() < 0.25:
            seq.append(['run_model', pre])
        else:
            seq.append(['run_driver', pre])
        if rng.random() < 0.5:
            seq.append(['record', 'pc%d' % r if rng.random() < 0.8 else 'pc'])
    return seq


def gen_spec(rng, **kw):
    mk = {k: kw.pop(k) for k in list(kw) if k in ('kmax', 'allow_cycle', 'allow_discrete', 'allow_scaled',
                                                    'allow_special', 'converge')}
    model = gen_model(rng, **mk)
    drv = gen_driver(rng, model, **{k: kw.pop(k) for k in list(kw) if k in ('kinds', 'ndoe')})
    if model['special'] and drv['kind'] == 'slsqp':
        model['special'] = None
    rec = gen_recorders(rng, model, **{k: kw.pop(k) for k in list(kw)
                                       if k in ('nfiles', 'nattach', 'plain', 'viewer_p')})
    seq = gen_sequence(rng, model, drv, **kw)
    return {'model': model, 'driver': drv, 'recorders': rec, 'sequence': seq}


# --------------------------------------------------------------------------------------------
# names (independent of OpenMDAO)
# --------------------------------------------------------------------------------------------
def comp_path(c):
    return (c['group'] + '.' if c['group'] else '') + c['name']


def _ancestors(path):
    """'' , 'g', 'g.h', ... for a system path (root first, excluding the path itself)."""
    parts = path.split('.') if path else []
    return ['.'.join(parts[:i]) for i in range(len(parts))]


def varinfo(model):
    """{'vars': {abs: {io, discrete, comp, size, units, src, prom: {syspath: promoted name there}}},
        'systems': [paths]} computed from the spec alone."""
    groups = model['groups']
    vars_ = {}
    systems = ['']

    def promoted_in_parent(path):
        # is system `path` promoted ('*') into its parent?
        if path in groups:
            return groups[path]['promote_all']
        return pmap[path]

    pmap = {}
    comps = list(model['comps'])
    for gp in groups:
        systems.append(gp)
    for c in comps:
        pmap[comp_path(c)] = c['promote']
        systems.append(comp_path(c))
    if model['ivc_mode'] == 'explicit':
        pmap['ivc'] = True
        systems.append('ivc')

    def add(cpath, name, io, discrete, size, units, src, extra=None):
        absn = cpath + '.' + name
        prom = {cpath: name}
        cur = name
        node = cpath
        while node:
            parent = '.'.join(node.split('.')[:-1])
            if not promoted_in_parent(node):
                cur = node.split('.')[-1] + '.' + cur
            prom[parent] = cur
            node = parent
        d = {'io': io, 'discrete': discrete, 'comp': cpath, 'size': size, 'units': units, 'src': src,
             'prom': prom}
        if extra:
            d.update(extra)
        vars_[absn] = d

    if model['ivc_mode'] == 'explicit':
        for i in model['indeps']:
            add('ivc', i['name'], 'output', False, i['size'], i['units'], None)
    for c in comps:
        cp = comp_path(c)
        for i in c['ins']:
            add(cp, i['name'], 'input', False, i['size'], i['units'], i['src'],
                {'src_indices': i['src_indices']})
        for o in c['outs']:
            add(cp, o['name'], 'output', False, o['size'], o['units'], None, {'ref': o.get('ref')})
        if c.get('disc'):
            add(cp, c['disc']['in'], 'input', True, None, None, None)
            add(cp, c['disc']['out'], 'output', True, None, None, None)
    # resolve 'src' (given as 'c3.y3a' / 'ivc.a') to absolute names
    name2abs = {}
    for a, m in vars_.items():
        name2abs[m['comp'].split('.')[-1] + '.' + a.split('.')[-1]] = a
    for a, m in vars_.items():
        if m['io'] == 'input' and m['src'] is not None:
            m['src'] = name2abs[m['src']]
    return {'vars': vars_, 'systems': systems}


# --------------------------------------------------------------------------------------------
# building
# --------------------------------------------------------------------------------------------
def _make_lin_class():
    import openmdao.api as om

    class LinSin(om.ExplicitComponent):
        """y_o = c_o + s_o + 0.05 sin(s_o), s_o = sum_i A_oi x_i ; do = f(di)."""

        def initialize(self):
            self.options.declare('cspec', types=dict, recordable=False)
            self.options.declare('gain', default=0.3)

        def setup(self):
            c = self.options['cspec']
            rs = np.random.RandomState(c['seed'] % (2 ** 31))
            self._A = {}
            self._c = {}
            for i in c['ins']:
                self.add_input(i['name'], val=np.array(i['val'], dtype=float), units=i['units'])
            for o in c['outs']:
                kw = {}
                if o.get('ref'):
                    kw['ref'] = o['ref']
                self.add_output(o['name'], val=np.ones(o['size']), units=o['units'], **kw)
                self._c[o['name']] = np.round(rs.uniform(-1, 1, o['size']), 6)
                for i in c['ins']:
                    g = self.options['gain'] / max(1, i['size']) / max(1, len(c['ins']))
                    self._A[o['name'], i['name']] = np.round(rs.uniform(-g, g, (o['size'], i['size'])), 6)
                    self.declare_partials(o['name'], i['name'])
            d = c.get('disc')
            if d:
                self.add_discrete_input(d['in'], val=d['val'])
                self.add_discrete_output(d['out'], val=d['val'])
            self._omv_log = []      # (inputs, outputs) of every compute, physical values

        def _s(self, inputs, oname):
            c = self.options['cspec']
            return sum(self._A[oname, i['name']] @ np.asarray(inputs[i['name']]).ravel() for i in c['ins'])

        def compute(self, inputs, outputs, discrete_inputs=None, discrete_outputs=None):
            c = self.options['cspec']
            for o in c['outs']:
                s = self._s(inputs, o['name'])
                outputs[o['name']] = self._c[o['name']] + s + 0.05 * np.sin(s)
            d = c.get('disc')
            if d:
                v = discrete_inputs[d['in']]
                if isinstance(v, bool):
                    w = not v
                elif isinstance(v, (int, float)):
                    w = v * 2 + 1
                elif isinstance(v, list):
                    w = v + [len(v)]
                else:
                    w = str(v) + '!'
                discrete_outputs[d['out']] = w
            self._omv_last = ({i['name']: np.array(inputs[i['name']], dtype=float) for i in c['ins']},
                              {o['name']: np.array(outputs[o['name']], dtype=float) for o in c['outs']})

        def compute_partials(self, inputs, partials, discrete_inputs=None):
            c = self.options['cspec']
            for o in c['outs']:
                s = self._s(inputs, o['name'])
                f = 1.0 + 0.05 * np.cos(s)
                for i in c['ins']:
                    partials[o['name'], i['name']] = f[:, None] * self._A[o['name'], i['name']]

    return LinSin


_LIN = None


def build(spec, recorders=True):
    """-> dict(prob=..., comps={path: instance}, vi=varinfo, recs=[(file, recorder)])."""
    global _LIN
    import openmdao.api as om
    if _LIN is None:
        _LIN = _make_lin_class()
    model = spec['model']
    vi = varinfo(model)
    prob = om.Problem()
    root = prob.model
    gobj = {'': root}
    added = set()
    insts = {}

    def group(path):
        if path in gobj:
            return gobj[path]
        parent = group('.'.join(path.split('.')[:-1]))
        g = om.Group()
        pa = model['groups'][path]['promote_all']
        parent.add_subsystem(path.split('.')[-1], g, promotes=['*'] if pa else None)
        gobj[path] = g
        return g

    if model['ivc_mode'] == 'explicit':
        ivc = om.IndepVarComp()
        for i in model['indeps']:
            ivc.add_output(i['name'], val=np.array(i['val'], dtype=float), units=i['units'])
        root.add_subsystem('ivc', ivc, promotes=['*'])
    gain = 0.1 if (model['cycle'] and model['cycle']['maxiter'] >= 60) else 0.3
    for c in model['comps']:
        g = group(c['group'])
        if c['kind'] == 'lin':
            inst = _LIN(cspec=copy.deepcopy(c), gain=gain)
        else:
            i, o = c['ins'][0], c['outs'][0]
            rs = random.Random(c['seed'])
            k1, k0 = round(rs.uniform(-0.3, 0.3), 4), round(rs.uniform(-1, 1), 4)
            kw = {i['name']: {'shape': (i['size'],), 'units': i['units'], 'val': np.array(i['val'])},
                  o['name']: {'shape': (o['size'],), 'units': o['units']}}
            if o.get('ref'):
                kw[o['name']]['ref'] = o['ref']
            inst = om.ExecComp('%s = %r*%s + %r' % (o['name'], k1, i['name'], k0), **kw)
        g.add_subsystem(c['name'], inst, promotes=['*'] if c['promote'] else None)
        insts[comp_path(c)] = inst
    # connections at root level, promoted names
    V = vi['vars']
    for a, m in V.items():
        if m['io'] == 'input' and m['src'] is not None:
            root.connect(V[m['src']]['prom'][''], m['prom'][''], src_indices=m.get('src_indices'))
    sh = model['shared']
    if sh:
        root.set_input_defaults(sh['name'], val=np.array(sh['val'], dtype=float), units=sh['units'])
    cyc = model['cycle']
    if cyc:
        g = gobj[cyc['group']]
        if cyc['solver'] == 'nlbgs':
            g.nonlinear_solver = om.NonlinearBlockGS(maxiter=cyc['maxiter'], atol=1e-13, rtol=1e-13, iprint=-1)
            g.linear_solver = om.DirectSolver(assemble_jac=False)
        else:
            nl = g.nonlinear_solver = om.NewtonSolver(solve_subsystems=False, maxiter=cyc['maxiter'],
                                                      atol=1e-13, rtol=1e-13, iprint=-1)
            g.linear_solver = om.DirectSolver(assemble_jac=False)
            if cyc['solver'] == 'newton_ls':
                nl.linesearch = om.ArmijoGoldsteinLS(maxiter=2, iprint=-1)
            else:
                nl.linesearch = None
        g.nonlinear_solver.options['err_on_non_converge'] = False
    # driver
    d = spec['driver']
    if d['kind'] == 'doe':
        cases = [[(n, np.array(v, dtype=float)) for n, v in case] for case in d['doe_cases']]
        prob.driver = om.DOEDriver(om.ListGenerator(cases))
    elif d['kind'] == 'slsqp':
        prob.driver = om.ScipyOptimizeDriver(optimizer='SLSQP', maxiter=d['maxiter'], disp=False, tol=1e-12)
    for dv in d['desvars']:
        root.add_design_var(dv['name'], lower=dv['lower'], upper=dv['upper'])
    if d['objective']:
        root.add_objective(d['objective']['name'], index=d['objective']['index'])
    for cn in d['constraints']:
        root.add_constraint(cn['name'], indices=cn['indices'], upper=cn['upper'])
    out = {'prob': prob, 'comps': insts, 'groups': gobj, 'vi': vi, 'recs': [], 'spec': spec}
    if recorders:
        attach(out)
    return out


def requester(built, kind, path):
    prob = built['prob']
    if kind == 'problem':
        return prob
    if kind == 'driver':
        return prob.driver
    sysobj = built['groups'].get(path) or built['comps'].get(path)
    if kind == 'system':
        return sysobj
    if kind == 'solver':
        return sysobj.nonlinear_solver
    if kind == 'linesearch':
        return sysobj.nonlinear_solver.linesearch
    raise ValueError(kind)


def attach(built):
    import openmdao.api as om
    rs = built['spec']['recorders']
    for key, o in rs['options'].items():
        kind, path = key.split(':')
        req = requester(built, kind, path)
        for k, v in o.items():
            if k in req.recording_options:
                req.recording_options[k] = list(v) if isinstance(v, list) else v
    for f in rs['files']:
        rec = om.SqliteRecorder(f['file'], record_viewer_data=bool(f['viewer']))
        built['recs'].append((f['file'], rec))
        for kind, path in f['attach']:
            requester(built, kind, path).add_recorder(rec)


def set_initial(built):
    """Initial values after setup (special values, shared input)."""
    model = built['spec']['model']
    prob = built['prob']
    if model['special']:
        ind = indep_names(model)
        if ind:
            name, size, _ = ind[0]
            v = np.array(prob.get_val(name), dtype=float).ravel()
            v[0] = float(model['special'])
            prob.set_val(name, v.reshape(np.shape(prob.get_val(name))))
    if model['ivc_mode'] == 'auto':
        pass


def run_sequence(built, on_step=None):
    """setup + the spec's run sequence.  on_step(i, op) is called after every step."""
    prob = built['prob']
    prob.setup()
    set_initial(built)
    for i, op in enumerate(built['spec']['sequence']):
        if op[0] == 'set':
            cur = prob.get_val(op[1])
            prob.set_val(op[1], np.array(op[2], dtype=float).reshape(np.shape(cur)))
        elif op[0] == 'run_model':
            prob.run_model(case_prefix=op[1] if len(op) > 1 else None)
        elif op[0] == 'run_driver':
            prob.run_driver(case_prefix=op[1] if len(op) > 1 else None)
        elif op[0] == 'record':
            prob.record(op[1])
        if on_step:
            on_step(i, op)


def summary(spec):
    """Structural description (no random values) used for fingerprints."""
    m = spec['model']
    return {'layout': [c['group'] + ('+' if c['promote'] else '-') + c['kind'][0] + str(len(c['ins'])) +
                       str(len(c['outs'])) + ('d' if c.get('disc') else '') for c in m['comps']],
            'groups': {k: v['promote_all'] for k, v in m['groups'].items()},
            'conn': [[i['src'], bool(i['src_indices'])] for c in m['comps'] for i in c['ins']],
            'ivc': m['ivc_mode'], 'cycle': (m['cycle'] or {}).get('solver'),
            'cyc_grp': (m['cycle'] or {}).get('group'),
            'shared': bool(m['shared']), 'special': m['special'],
            'driver': spec['driver']['kind'], 'ndv': len(spec['driver']['desvars']),
            'ncon': len(spec['driver']['constraints']),
            'rec': [[f['viewer'], f['attach']] for f in spec['recorders']['files']],
            'opts': spec['recorders']['options'],
            'seq': [op[0] for op in spec['sequence']]}
