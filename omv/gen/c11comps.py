"""Harness components for C11 (assembled Jacobian formats).

Same mathematics as omv/gen/comps.py (the comp-spec produced by omv/gen/models.py):

  explicit: y_o = c_o + sum_k A_ok x_k + B_ok sin(x_k)
  implicit: r_o = y_o + beta*sin(y_o) - f_o(x)  [+ gamma * G @ sin(y_other) for a 2-output component]

but every sub-Jacobian is declared and set in a *style* chosen by `plan_styles` (dense / dense set from a flat
array / rows+cols in sorted, shuffled or column-major entry order with optional structural zeros / diagonal=True
/ rows=cols=arange / scipy coo, csr, csc with shuffled construction order / constant partial declared through
`val=` and never set again), and every component RECORDS the triplets (rows, cols, vals) it last handed to
OpenMDAO per (of, wrt).  The check builds its dense reference matrix by plain accumulation of these triplets.
"""
import numpy as np
import scipy.sparse as sp

import openmdao.api as om


def _flat(v):
    return np.asarray(v).ravel()


# ----------------------------------------------------------------------------------------------------
def plan_styles(rng, spec):
    """-> {comp name: {'pk': {'o|k': {...}}, 'self': {o: style}, 'cross': {...} or None}} (JSON-able)."""
    plan = {}
    for c in spec['comps']:
        if c['kind'] == 'ivc':
            continue
        pk = {}
        for o in c['outputs']:
            t = c['terms'][o['name']]
            m = int(np.prod(o['shape']))
            for i in c['inputs']:
                k = i['name']
                if k not in t['A'] and k not in t['B']:
                    continue
                n = int(np.prod(i['shape']))
                base = c['styles'].get('%s|%s' % (o['name'], k), 'dense')
                if base in ('fd', 'cs', 'matfree'):
                    base = 'dense'
                d = {'style': base}
                if base == 'dense':
                    d['set_as'] = rng.choice(['2d', '2d', 'flat'])
                elif base == 'rowcol':
                    d['order'] = rng.choice(['sorted', 'shuffled', 'colmajor'])
                    if rng.random() < 0.3:
                        d['extra'] = [[rng.randrange(m), rng.randrange(n)] for _ in range(rng.randint(1, 2))]
                elif base == 'diag':
                    d['how'] = rng.choice(['diagonal', 'diagonal', 'arange'])
                else:
                    d['order'] = rng.choice(['sorted', 'shuffled'])
                # a constant block (no sin term) may be declared once through val= and never set again
                d['static'] = bool(k not in t['B'] and rng.random() < 0.4)
                d['seed'] = rng.randrange(1 << 30)
                pk['%s|%s' % (o['name'], k)] = d
        ent = {'pk': pk, 'self': {}, 'cross': None}
        if c['kind'] == 'imp':
            for o in c['outputs']:
                ent['self'][o['name']] = rng.choice(['diagonal', 'arange', 'dense'])
            if len(c['outputs']) == 2 and rng.random() < 0.6:
                a, b = c['outputs'] if rng.random() < 0.5 else c['outputs'][::-1]
                m, n = int(np.prod(a['shape'])), int(np.prod(b['shape']))
                Gm = [[round(rng.uniform(-0.15, 0.15), 3) if rng.random() < 0.6 else 0.0 for _ in range(n)]
                      for _ in range(m)]
                if not np.any(Gm):
                    Gm[0][0] = 0.1
                ent['cross'] = {'of': a['name'], 'wrt': b['name'], 'G': Gm,
                                'style': rng.choice(['dense', 'rowcol', 'csc'])}
        plan[c['name']] = ent
    return plan


# ----------------------------------------------------------------------------------------------------
class _C11Base:
    def _c11_init(self, cspec, plan):
        self._c11_cs = cspec
        self._c11_plan = plan
        self._c11_T = {o: {'c': np.asarray(t['c'], dtype=float),
                           'A': {k: np.asarray(v, dtype=float) for k, v in t['A'].items()},
                           'B': {k: np.asarray(v, dtype=float) for k, v in t['B'].items()}}
                       for o, t in cspec['terms'].items()}
        self._c11_rec = {}      # (of, wrt) -> (rows, cols, vals) last handed to OpenMDAO (local indices)
        self._c11_sp = {}       # (of, wrt) -> (rows, cols) of the declared pattern, in declaration order
        self._c11_nlin = 0
        pl = plan
        self._c11_has_rowcol = any(d['style'] == 'rowcol' or (d['style'] == 'diag' and d.get('how') != 'diagonal')
                                   for d in pl['pk'].values()) or \
            any(v == 'arange' for v in pl['self'].values()) or \
            bool(pl.get('cross') and pl['cross']['style'] == 'rowcol')

    def _c11_add_io(self):
        cs = self._c11_cs
        for i in cs['inputs']:
            kw = {}
            if i.get('units'):
                kw['units'] = i['units']
            self.add_input(i['name'], val=np.ones(i['shape']), **kw)
        for o in cs['outputs']:
            kw = {}
            for k in ('units', 'ref', 'ref0', 'res_ref'):
                if o.get(k) is not None:
                    kw[k] = np.asarray(o[k]).reshape(o['shape']) if isinstance(o[k], list) else o[k]
            val = np.asarray(o.get('val', np.zeros(o['shape'])), dtype=float).reshape(o['shape'])
            self.add_output(o['name'], val=val, **kw)

    def _c11_pattern(self, o, k):
        t = self._c11_T[o]
        P = None
        for d in (t['A'], t['B']):
            if k in d:
                P = (d[k] != 0) if P is None else (P | (d[k] != 0))
        return P

    def _c11_block(self, o, k, x):
        t = self._c11_T[o]
        D = 0.0
        if k in t['A']:
            D = D + t['A'][k]
        if k in t['B']:
            D = D + t['B'][k] * np.cos(x)[None, :]
        return D

    def _c11_entries(self, P, d):
        """(rows, cols) of the declared entries in the declaration order chosen by the plan."""
        Q = P.copy()
        for (r, c) in d.get('extra', []):
            Q[r, c] = True
        rows, cols = np.nonzero(Q)
        order = d.get('order', 'sorted')
        if order == 'shuffled':
            perm = np.random.default_rng(d['seed']).permutation(rows.size)
            rows, cols = rows[perm], cols[perm]
        elif order == 'colmajor':
            perm = np.lexsort((rows, cols))
            rows, cols = rows[perm], cols[perm]
        return rows, cols

    @staticmethod
    def _c11_sparse(fmt, vals, rows, cols, shape):
        M = sp.coo_matrix((vals, (rows, cols)), shape=shape)
        return {'coo': M, 'csr': M.tocsr(), 'csc': M.tocsc()}[fmt]

    def _c11_declare(self, sign):
        for o in self._c11_T:
            for i in self._c11_cs['inputs']:
                k = i['name']
                P = self._c11_pattern(o, k)
                if P is None:
                    continue
                d = self._c11_plan['pk']['%s|%s' % (o, k)]
                st = d['style']
                m, n = P.shape
                A = sign * self._c11_T[o]['A'].get(k, np.zeros(P.shape))
                static = d.get('static')
                if st == 'dense':
                    rr = np.repeat(np.arange(m), n)
                    cc = np.tile(np.arange(n), m)
                    if static:
                        self.declare_partials(o, k, val=A)
                        self._c11_rec[(o, k)] = (rr, cc, A.ravel().copy())
                    else:
                        self.declare_partials(o, k)
                    self._c11_sp[(o, k)] = (rr, cc)
                elif st == 'rowcol':
                    rows, cols = self._c11_entries(P, d)
                    self._c11_sp[(o, k)] = (rows, cols)
                    if static:
                        self.declare_partials(o, k, rows=rows, cols=cols, val=A[rows, cols])
                        self._c11_rec[(o, k)] = (rows, cols, A[rows, cols].copy())
                    else:
                        self.declare_partials(o, k, rows=rows, cols=cols)
                elif st == 'diag':
                    ar = np.arange(m)
                    self._c11_sp[(o, k)] = (ar, ar)
                    kw = {'diagonal': True} if d.get('how') == 'diagonal' else {'rows': ar, 'cols': ar}
                    if static:
                        self.declare_partials(o, k, val=np.diag(A).copy(), **kw)
                        self._c11_rec[(o, k)] = (ar, ar, np.diag(A).copy())
                    else:
                        self.declare_partials(o, k, **kw)
                elif st in ('coo', 'csr', 'csc'):
                    rows, cols = self._c11_entries(P, d)
                    self._c11_sp[(o, k)] = (rows, cols)
                    if static:
                        self.declare_partials(o, k, val=self._c11_sparse(st, A[rows, cols], rows, cols, P.shape))
                        self._c11_rec[(o, k)] = (rows, cols, A[rows, cols].copy())
                    else:
                        self.declare_partials(o, k, val=self._c11_sparse(st, np.ones(rows.size), rows, cols,
                                                                         P.shape))
                else:
                    raise ValueError(st)

    def _c11_fill(self, inputs, partials, sign):
        self._c11_nlin += 1
        for o in self._c11_T:
            for i in self._c11_cs['inputs']:
                k = i['name']
                P = self._c11_pattern(o, k)
                if P is None:
                    continue
                d = self._c11_plan['pk']['%s|%s' % (o, k)]
                if d.get('static'):
                    continue
                st = d['style']
                D = sign * self._c11_block(o, k, _flat(inputs[k]))
                D = np.array(np.broadcast_to(D, P.shape))
                rows, cols = self._c11_sp[(o, k)]
                if st == 'dense':
                    partials[o, k] = D.ravel() if d.get('set_as') == 'flat' else D
                    self._c11_rec[(o, k)] = (rows, cols, D.ravel().copy())
                elif st == 'rowcol':
                    partials[o, k] = D[rows, cols]
                    self._c11_rec[(o, k)] = (rows, cols, D[rows, cols].copy())
                elif st == 'diag':
                    partials[o, k] = np.diag(D).copy()
                    self._c11_rec[(o, k)] = (rows, cols, np.diag(D).copy())
                else:
                    partials[o, k] = self._c11_sparse(st, D[rows, cols], rows, cols, P.shape)
                    self._c11_rec[(o, k)] = (rows, cols, D[rows, cols].copy())

    def _c11_f(self, inputs):
        res = {}
        for o, t in self._c11_T.items():
            cplx = any(np.iscomplexobj(inputs[k]) for k in list(t['A']) + list(t['B']))
            y = t['c'].astype(complex) if cplx else t['c'].copy()
            for k, A in t['A'].items():
                y = y + A @ _flat(inputs[k])
            for k, B in t['B'].items():
                y = y + B @ np.sin(_flat(inputs[k]))
            res[o] = y
        return res


class C11Explicit(om.ExplicitComponent, _C11Base):
    def __init__(self, cspec, plan, **kw):
        super().__init__(**kw)
        self._c11_init(cspec, plan)

    def setup(self):
        self._c11_add_io()

    def setup_partials(self):
        self._c11_declare(1.0)

    def compute(self, inputs, outputs):
        f = self._c11_f(inputs)
        for o in self._c11_T:
            outputs[o] = f[o].reshape(outputs[o].shape)

    def compute_partials(self, inputs, partials):
        self._c11_fill(inputs, partials, 1.0)


class C11Implicit(om.ImplicitComponent, _C11Base):
    """No solve_nonlinear: the outputs stay where the harness puts them (the property is about the linear
    operator assembled at an arbitrary linearization point)."""

    def __init__(self, cspec, plan, **kw):
        super().__init__(**kw)
        self._c11_init(cspec, plan)
        self._c11_beta = float(cspec['beta'])

    def setup(self):
        self._c11_add_io()

    def setup_partials(self):
        self._c11_declare(-1.0)
        for o in self._c11_T:
            n = self._c11_T[o]['c'].size
            st = self._c11_plan['self'][o]
            ar = np.arange(n)
            if st == 'diagonal':
                self.declare_partials(o, o, diagonal=True)
                self._c11_sp[(o, o)] = (ar, ar)
            elif st == 'arange':
                self.declare_partials(o, o, rows=ar, cols=ar)
                self._c11_sp[(o, o)] = (ar, ar)
            else:
                self.declare_partials(o, o)
                self._c11_sp[(o, o)] = (np.repeat(ar, n), np.tile(ar, n))
        cr = self._c11_plan.get('cross')
        if cr:
            Gm = np.asarray(cr['G'], dtype=float)
            self._c11_G = Gm
            m, n = Gm.shape
            if cr['style'] == 'dense':
                self.declare_partials(cr['of'], cr['wrt'])
                self._c11_sp[(cr['of'], cr['wrt'])] = (np.repeat(np.arange(m), n), np.tile(np.arange(n), m))
            else:
                rows, cols = np.nonzero(Gm)
                self._c11_sp[(cr['of'], cr['wrt'])] = (rows, cols)
                if cr['style'] == 'rowcol':
                    self.declare_partials(cr['of'], cr['wrt'], rows=rows, cols=cols)
                else:
                    self.declare_partials(cr['of'], cr['wrt'],
                                          val=self._c11_sparse('csc', np.ones(rows.size), rows, cols, Gm.shape))

    def apply_nonlinear(self, inputs, outputs, residuals):
        f = self._c11_f(inputs)
        cr = self._c11_plan.get('cross')
        for o in self._c11_T:
            y = _flat(outputs[o])
            r = y + self._c11_beta * np.sin(y) - f[o]
            if cr and cr['of'] == o:
                r = r + self._c11_G @ np.sin(_flat(outputs[cr['wrt']]))
            residuals[o] = r.reshape(residuals[o].shape)

    def linearize(self, inputs, outputs, partials):
        self._c11_fill(inputs, partials, -1.0)
        for o in self._c11_T:
            dry = 1.0 + self._c11_beta * np.cos(_flat(outputs[o]))
            rows, cols = self._c11_sp[(o, o)]
            if self._c11_plan['self'][o] == 'dense':
                partials[o, o] = np.diag(dry)
                self._c11_rec[(o, o)] = (rows, cols, np.diag(dry).ravel().copy())
            else:
                partials[o, o] = dry
                self._c11_rec[(o, o)] = (rows, cols, dry.copy())
        cr = self._c11_plan.get('cross')
        if cr:
            key = (cr['of'], cr['wrt'])
            D = self._c11_G * np.cos(_flat(outputs[cr['wrt']]))[None, :]
            rows, cols = self._c11_sp[key]
            if cr['style'] == 'dense':
                partials[key] = D
                self._c11_rec[key] = (rows, cols, D.ravel().copy())
            elif cr['style'] == 'rowcol':
                partials[key] = D[rows, cols]
                self._c11_rec[key] = (rows, cols, D[rows, cols].copy())
            else:
                partials[key] = self._c11_sparse('csc', D[rows, cols], rows, cols, D.shape)
                self._c11_rec[key] = (rows, cols, D[rows, cols].copy())


def make_factory(plan):
    def factory(c, hook):
        if c['kind'] == 'exp':
            return C11Explicit(c, plan[c['name']])
        if c['kind'] == 'imp':
            return C11Implicit(c, plan[c['name']])
        return None
    return factory
