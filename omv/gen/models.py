"""G - generator of model specs and builder of the corresponding real OpenMDAO problems.

gen_spec(rng, opts) -> JSON-able spec (the replay witness);  build(spec, hook) -> om.Problem (not set up).
See omv/ref/flatmodel.py for the mathematics and DESIGN.md section 3.2 for the intent.
"""
import copy

import numpy as np

from omv.ref.flatmodel import UNITS, FAMILIES, conv, chain_positions

DEFAULTS = dict(
    min_comps=2, max_comps=6,
    p_cycle=0.35,        # probability that the model contains feedback (back edges)
    p_implicit=0.3,      # per component
    p_units=0.5,         # per variable
    p_index=0.6,         # per connection: has an index chain
    p_chain2=0.3,        # per indexed connection made by promotion: two links
    p_group=0.6,         # hierarchy
    p_promote=0.5,       # wiring through promoted names
    p_param=0.4,         # model has auto-IVC parameters
    p_shuffle=0.0,       # declare subsystems in random order + auto_order
    p_matfree=0.12, p_sparse=0.5, p_approx=0.0,
    p_scaling=0.0,       # ref/ref0/res_ref on outputs
    p_known_c05=0.0,     # allow index forms that hit the recorded C05 finding (nd non-flat single int/array)
    p_scaled_copy=0.0,   # append components y = s*x (s a scalar, possibly negative) fed by a state and make both
                         # responses: their reverse-mode right-hand sides are (anti-)parallel
    p_rhs_checking=0.0,  # DirectSolver / ScipyKrylov get rhs_checking=True (linear-solution caching in rev mode)
    p_const_partials=0.0,  # per component: purely linear blocks are declared as constant partials (val=, never re-set)
    p_assembled_iter=0.0,  # ScipyKrylov gets assemble_jac=True (dense / csc / csr; block solvers do not support it)
    max_size=6,
    solver_mix='any',    # 'any' | 'runonce' (acyclic + default solvers)
    offset_units=True,
)

SHAPES = [(1,), (2,), (3,), (4,), (5,), (2, 2), (2, 3), (3, 2), (1, 3), (3, 1), (2, 2, 2), (6,)]


def _enc(i):
    if isinstance(i, tuple):
        return {'t': [_enc(x) for x in i]}
    if isinstance(i, slice):
        return {'s': [i.start, i.stop, i.step]}
    if i is Ellipsis:
        return '...'
    if isinstance(i, (list, np.ndarray)):
        return {'l': np.asarray(i).tolist()}
    return int(i)


# ----------------------------------------------------------------------------------------------
# random index expressions (valid for NumPy, non-empty result, inside OpenMDAO's accepted set)
# ----------------------------------------------------------------------------------------------
def _rand_slice(rng, n):
    for _ in range(20):
        step = rng.choice([None, 1, 1, 2, -1, -1, -2])
        a = rng.choice([None, None] + list(range(-n, n)))
        b = rng.choice([None, None] + list(range(-n, n + 1)))
        s = slice(a, b, step)
        if len(range(*s.indices(n))) > 0:
            return s
    return slice(None)


def _rand_arr(rng, n, L=None):
    L = L or rng.randint(1, 3)
    return [rng.randrange(-n, n) for _ in range(L)]


def rand_index(rng, shape, flat, allow_known=False):
    """-> (python index object) selecting a non-empty part of an array of `shape`."""
    size = int(np.prod(shape))
    if flat or len(shape) == 1:
        n = size if flat else shape[0]
        k = rng.random()
        if k < 0.2:
            return rng.randrange(-n, n)
        if k < 0.55:
            return _rand_slice(rng, n)
        if k < 0.9:
            return _rand_arr(rng, n, rng.randint(1, 4))
        return _rand_arr(rng, n, 4)
    # non-flat N-D source
    r = len(shape)
    if allow_known and rng.random() < 0.5:
        return rng.randrange(-shape[0], shape[0]) if rng.random() < 0.5 else _rand_arr(rng, shape[0], 2)
    nat = rng.randint(1, r)
    L = rng.randint(1, 3)
    atoms = []
    narr = 0
    for ax in range(nat):
        n = shape[ax]
        k = rng.random()
        if k < 0.3:
            atoms.append(rng.randrange(-n, n))
        elif k < 0.7:
            atoms.append(_rand_slice(rng, n))
        else:
            atoms.append(_rand_arr(rng, n, L))
            narr += 1
    if nat < r:
        if rng.random() < 0.6:
            atoms.append(Ellipsis)
        elif nat == 1:
            # a bare 1-tuple without ellipsis == partial tuple index
            pass
    elif rng.random() < 0.2 and narr == 0:
        # full-rank tuple; sometimes replace a leading run by an Ellipsis form
        pass
    if len(atoms) == 1 and not isinstance(atoms[0], type(Ellipsis)):
        # single-atom tuple on an N-D source: keep it a tuple so it is an axis-0 multi-index
        return (atoms[0], Ellipsis)
    return tuple(atoms)


def result_shape(shape, idx, flat):
    base = np.zeros(int(np.prod(shape)) if flat else shape)
    if flat:
        base = base.ravel()
    j = tuple(np.asarray(x) if isinstance(x, list) else x for x in idx) if isinstance(idx, tuple) else \
        (np.asarray(idx) if isinstance(idx, list) else idx)
    return base[j].shape


# ----------------------------------------------------------------------------------------------
# spec generation
# ----------------------------------------------------------------------------------------------
def _pick_units(rng, o, fam=None):
    if rng.random() > o['p_units']:
        return None
    fams = FAMILIES if o['offset_units'] else FAMILIES[:3]
    fam = fam or rng.choice(fams)
    return rng.choice(fam)


def _compat_units(rng, o, src_units):
    if src_units is None:
        return None if rng.random() < 0.85 else _pick_units(rng, o)
    if rng.random() < 0.3:
        return src_units
    if rng.random() < 0.1:
        return None
    fam = [f for f in FAMILIES if src_units in f][0]
    cands = [u for u in fam if abs(np.log10(UNITS[src_units][0] / UNITS[u][0])) <= 3.01]
    return rng.choice(cands)


def gen_spec(rng, opts=None):
    o = dict(DEFAULTS, **(opts or {}))
    spec = {'opts': {k: v for k, v in o.items() if k != 'seed'}, 'comps': [], 'conns': [], 'params': []}
    # ---- independent variables ------------------------------------------------------------------
    nivc = rng.randint(1, 2)
    sources = []     # (name, shape, units, owner index or None, is_state)
    for i in range(nivc):
        outs = []
        for j in range(rng.randint(1, 2)):
            shp = rng.choice(SHAPES)
            nm = 'iv%d_o%d' % (i, j)
            outs.append({'name': nm, 'shape': list(shp), 'units': _pick_units(rng, o),
                         'val': (np.round(rng_uniform(rng, shp, -2, 2), 3)).tolist()})
        spec['comps'].append({'name': 'iv%d' % i, 'kind': 'ivc', 'inputs': [], 'outputs': outs})
    if rng.random() < o['p_param']:
        for j in range(rng.randint(1, 2)):
            shp = rng.choice(SHAPES[:9])
            spec['params'].append({'name': 'p%d' % j, 'shape': list(shp), 'units': _pick_units(rng, o),
                                   'val': np.round(rng_uniform(rng, shp, -2, 2), 3).tolist()})
    # ---- components: outputs first ---------------------------------------------------------------
    ncomp = rng.randint(o['min_comps'], o['max_comps'])
    cyclic = rng.random() < o['p_cycle'] and o['solver_mix'] != 'runonce'
    comps = []
    for i in range(ncomp):
        kind = 'imp' if rng.random() < o['p_implicit'] else 'exp'
        outs = []
        for j in range(rng.randint(1, 2)):
            shp = rng.choice(SHAPES)
            oo = {'name': 'c%d_y%d' % (i, j), 'shape': list(shp), 'units': _pick_units(rng, o)}
            if kind == 'imp' or cyclic:
                oo['val'] = np.round(rng_uniform(rng, shp, -0.5, 0.5), 3).tolist()
            outs.append(oo)
        c = {'name': 'c%d' % i, 'kind': kind, 'inputs': [], 'outputs': outs, 'terms': {}, 'styles': {}}
        if kind == 'imp':
            c['beta'] = round(rng.uniform(-0.3, 0.3), 3)
        comps.append(c)
    # ---- wiring -----------------------------------------------------------------------------------
    def all_sources(i):
        src = []
        for c in spec['comps']:
            for oo in c['outputs']:
                src.append((oo, None))
        for p in spec['params']:
            src.append((p, 'param'))
        for j, c in enumerate(comps):
            if j < i or (cyclic and j != i):
                for oo in c['outputs']:
                    src.append((oo, j))
        return src
    used_params = set()
    nback = 0
    for i, c in enumerate(comps):
        nin = rng.randint(1, 3)
        cands = all_sources(i)
        fwd = [s for s in cands if s[1] is None or s[1] == 'param' or s[1] < i]
        back = [s for s in cands if isinstance(s[1], int) and s[1] > i]
        for k in range(nin):
            if back and rng.random() < 0.5 and nback < 3:
                so, owner = rng.choice(back)
                nback += 1
            else:
                # prefer outputs of earlier comps so that chains form
                pool = [s for s in fwd if isinstance(s[1], int)] if rng.random() < 0.6 else fwd
                so, owner = rng.choice(pool or fwd)
            name = 'c%d_x%d' % (i, k)
            sshape = tuple(so['shape'])
            chain = []
            cur = sshape
            is_param = owner == 'param'
            if is_param and so['name'] in used_params:
                # a second user of an auto-IVC parameter: keep it a plain full connection
                pass
            elif rng.random() < o['p_index'] and int(np.prod(sshape)) > 1:
                nlinks = 2 if (rng.random() < o['p_chain2'] and not is_param) else 1
                for _ in range(nlinks):
                    if int(np.prod(cur)) <= 1:
                        break
                    flat = rng.random() < 0.4 or len(cur) == 1
                    for _try in range(10):
                        idx = rand_index(rng, cur, flat and len(cur) > 1 or False if len(cur) > 1 else False,
                                         allow_known=rng.random() < o['p_known_c05'])
                        flat_eff = bool(flat and len(cur) > 1)
                        if flat_eff:
                            idx = rand_index(rng, cur, True)
                        try:
                            rs = result_shape(cur, idx, flat_eff)
                        except Exception:
                            continue
                        if int(np.prod(rs)) >= 1 and int(np.prod(rs)) <= o['max_size']:
                            break
                    else:
                        break
                    chain.append({'idx': _enc(idx), 'flat': flat_eff})
                    cur = rs if len(rs) else (1,)
            if is_param:
                used_params.add(so['name'])
            ishape = tuple(cur) if len(cur) else (1,)
            units = _compat_units(rng, o, so.get('units'))
            if is_param and (so.get('units') is None) != (units is None):
                units = so.get('units')
            c['inputs'].append({'name': name, 'shape': list(ishape), 'units': units})
            spec['conns'].append({'src': so['name'], 'tgt': name, 'tgt_units': units, 'chain': chain,
                                  'src_is_param': is_param})
    # ---- scaled copies of states (drawn only when the option is on, so other users keep their streams)
    if o['p_scaled_copy'] > 0 and rng.random() < o['p_scaled_copy']:
        cand = [oo for c in comps for oo in c['outputs']]
        forced = []
        for k in range(rng.randint(1, 2)):
            so = rng.choice(cand)
            m = int(np.prod(so['shape']))
            sfac = rng.choice([-3.0, -2.0, -0.5, -1.0, 2.0, 0.25, -1.5])
            nm = 's%d' % k
            c = {'name': nm, 'kind': 'exp', 'fixed_terms': True,
                 'inputs': [{'name': nm + '_x0', 'shape': list(so['shape']), 'units': so.get('units')}],
                 'outputs': [{'name': nm + '_y0', 'shape': list(so['shape']), 'units': so.get('units')}],
                 'terms': {nm + '_y0': {'c': [0.0] * m, 'A': {nm + '_x0': (sfac * np.eye(m)).tolist()}, 'B': {}}},
                 'styles': {'%s_y0|%s_x0' % (nm, nm): rng.choice(['dense', 'diag', 'rowcol'])}}
            if cyclic:
                c['outputs'][0]['val'] = [0.0] * m
                c['outputs'][0]['val'] = np.zeros(so['shape']).tolist()
            comps.append(c)
            spec['conns'].append({'src': so['name'], 'tgt': nm + '_x0', 'tgt_units': so.get('units'), 'chain': [],
                                  'src_is_param': False})
            forced += [so['name'], nm + '_y0']
        spec['force_of'] = [x for i, x in enumerate(forced) if x not in forced[:i]]
    # ---- execution order: topological order of the condensation (members of a loop stay adjacent, in
    #      their original relative order), so that only genuine feedback is "out of order"
    spec['comps'] += comps
    edges, _ = comp_graph(spec)
    names = [c['name'] for c in comps]
    pos = {n: i for i, n in enumerate(names)}
    order = []
    for comp in reversed(sccs(names, set((a, b) for a, b in edges if a in pos and b in pos))):
        order += sorted(comp, key=lambda n: pos[n])
    comps = [comps[pos[n]] for n in order]
    spec['comps'] = [c for c in spec['comps'] if c['kind'] == 'ivc'] + comps
    # ---- terms and partial styles -------------------------------------------------------------------
    for c in comps:
        if c.get('fixed_terms'):
            continue
        ntot = sum(int(np.prod(i['shape'])) for i in c['inputs'])
        sc = 0.9 / max(1.0, np.sqrt(ntot))
        matfree = rng.random() < o['p_matfree']
        if matfree:
            c['matfree'] = True
        elif o['p_const_partials'] > 0 and rng.random() < o['p_const_partials']:
            c['const_partials'] = True
        for oo in c['outputs']:
            m = int(np.prod(oo['shape']))
            t = {'c': np.round(rng_uniform(rng, (m,), -1, 1), 3).tolist(), 'A': {}, 'B': {}}
            ins = list(c['inputs'])
            rng.shuffle(ins)
            nuse = rng.randint(1, len(ins))
            for ii in ins[:nuse]:
                n = int(np.prod(ii['shape']))
                style = 'dense'
                if not matfree and rng.random() < o['p_sparse']:
                    style = rng.choice(['rowcol', 'coo', 'csr', 'csc'] + (['diag'] if m == n else []))
                if not matfree and rng.random() < o['p_approx']:
                    style = rng.choice(['fd', 'cs'])
                if style == 'diag':
                    P = np.eye(m, dtype=bool)
                elif style == 'dense' or style in ('fd', 'cs'):
                    P = np.array([[rng.random() < 0.8 for _ in range(n)] for _ in range(m)])
                else:
                    P = np.array([[rng.random() < 0.4 for _ in range(n)] for _ in range(m)])
                if not P.any():
                    P[rng.randrange(m), rng.randrange(n)] = True
                A = np.round(rng_uniform(rng, (m, n), -1, 1) * sc, 4) * P
                B = np.round(rng_uniform(rng, (m, n), -1, 1) * sc, 4) * P
                # make sure the union pattern is exactly P (no accidental zeros)
                A[(A == 0) & P] = round(0.05 * sc, 4) or 0.01
                if rng.random() < 0.25:
                    B = B * 0.0
                    t['A'][ii['name']] = A.tolist()
                elif rng.random() < 0.15:
                    B[(B == 0) & P] = 0.01
                    t['B'][ii['name']] = B.tolist()
                else:
                    t['A'][ii['name']] = A.tolist()
                    t['B'][ii['name']] = B.tolist()
                if matfree:
                    style = 'matfree'
                c['styles']['%s|%s' % (oo['name'], ii['name'])] = style
            c['terms'][oo['name']] = t
    _make_contractive(spec)
    # ---- scaling -------------------------------------------------------------------------------------
    if o['p_scaling'] > 0:
        for c in comps:
            for oo in c['outputs']:
                if rng.random() < o['p_scaling']:
                    _rand_scaling(rng, oo)
    _gen_tree(rng, spec, o)
    _gen_solvers(rng, spec, o)
    _gen_dv_resp(rng, spec, o)
    return spec


def rng_uniform(rng, shape, a, b):
    n = int(np.prod(shape)) if len(shape) else 1
    return np.array([rng.uniform(a, b) for _ in range(n)]).reshape(shape)


def _rand_scaling(rng, oo):
    shp = oo['shape']

    def mag():
        return round(10 ** rng.uniform(-2, 2), 4) * rng.choice([1, 1, 1, -1])
    arr = rng.random() < 0.4
    for key in ('ref', 'ref0', 'res_ref'):
        if rng.random() < 0.6:
            if arr:
                v = [mag() for _ in range(int(np.prod(shp)))]
                if key == 'res_ref':
                    v = [abs(x) for x in v]
                oo[key] = np.array(v).reshape(shp).tolist()
            else:
                oo[key] = abs(mag()) if key == 'res_ref' else mag()
    # ref must differ from ref0
    if 'ref' in oo or 'ref0' in oo:
        r = np.asarray(oo.get('ref', 1.0), dtype=float)
        r0 = np.asarray(oo.get('ref0', 0.0), dtype=float)
        if np.any(np.abs(r - r0) < 1e-3):
            oo.pop('ref0', None)
            if np.any(np.abs(np.asarray(oo.get('ref', 1.0), dtype=float)) < 1e-3):
                oo.pop('ref', None)


# ----------------------------------------------------------------------------------------------
def comp_graph(spec):
    """edges between component names induced by connections (src owner -> tgt owner)."""
    owner = {}
    for c in spec['comps']:
        for oo in c['outputs']:
            owner[oo['name']] = c['name']
        for ii in c['inputs']:
            owner[ii['name']] = c['name']
    edges = set()
    for cn in spec['conns']:
        if cn['src'] in owner:
            edges.add((owner[cn['src']], owner[cn['tgt']]))
    return edges, owner


def sccs(nodes, edges):
    """Tarjan (own implementation; not shared with the code under test)."""
    adj = {n: [] for n in nodes}
    for a, b in sorted(edges):      # sorted: independent of the hash seed
        if a in adj and b in adj:
            adj[a].append(b)
    index = {}
    low = {}
    stack, on = [], set()
    out = []
    counter = [0]

    def strong(v):
        work = [(v, iter(adj[v]))]
        index[v] = low[v] = counter[0]
        counter[0] += 1
        stack.append(v)
        on.add(v)
        while work:
            node, it = work[-1]
            adv = False
            for w in it:
                if w not in index:
                    index[w] = low[w] = counter[0]
                    counter[0] += 1
                    stack.append(w)
                    on.add(w)
                    work.append((w, iter(adj[w])))
                    adv = True
                    break
                elif w in on:
                    low[node] = min(low[node], index[w])
            if adv:
                continue
            work.pop()
            if work:
                low[work[-1][0]] = min(low[work[-1][0]], low[node])
            if low[node] == index[node]:
                comp = []
                while True:
                    w = stack.pop()
                    on.discard(w)
                    comp.append(w)
                    if w == node:
                        break
                out.append(comp)
    for n in nodes:
        if n not in index:
            strong(n)
    return out


def _make_contractive(spec):
    """Scale the coefficients of components that sit in feedback loops so that every loop is a
    contraction (spectral radius of the entrywise bound matrix <= 0.4)."""
    from omv.ref.flatmodel import FlatModel
    edges, _ = comp_graph(spec)
    names = [c['name'] for c in spec['comps']]
    cyc = set()
    for comp in sccs(names, edges):
        if len(comp) > 1:
            cyc.update(comp)
    if not cyc:
        return
    for _ in range(3):
        fm = FlatModel(spec)
        L = np.zeros((fm.nstate, fm.nstate))
        for c in spec['comps']:
            if c['kind'] == 'ivc':
                continue
            g = 1.0 / (1.0 - abs(c.get('beta', 0.0))) if c['kind'] == 'imp' else 1.0
            for oo in c['outputs']:
                a, b = fm.soff[oo['name']]
                t = c['terms'][oo['name']]
                for ii in c['inputs']:
                    k = ii['name']
                    src, pos, fac, offs = fm.wire[k]
                    if src not in fm.soff:
                        continue
                    D = np.zeros((b - a, pos.size))
                    if k in t['A']:
                        D += np.abs(t['A'][k])
                    if k in t['B']:
                        D += np.abs(t['B'][k])
                    sa, _ = fm.soff[src]
                    np.add.at(L, (slice(a, b), sa + pos), D * abs(fac) * g)
        rho = max(abs(np.linalg.eigvals(L))) if fm.nstate else 0.0
        if rho <= 0.4:
            return
        alpha = 0.35 / rho
        for c in spec['comps']:
            if c['name'] in cyc:
                for t in c['terms'].values():
                    for d in (t['A'], t['B']):
                        for k in d:
                            d[k] = (np.asarray(d[k]) * alpha).tolist()


# ----------------------------------------------------------------------------------------------
# hierarchy
# ----------------------------------------------------------------------------------------------
def _gen_tree(rng, spec, o):
    """Assign components to a random tree of groups (contiguous index ranges so that the group level
    graph has no accidental cycles); choose how each connection is realised."""
    names = [c['name'] for c in spec['comps']]
    path = {}

    def split(items, prefix, depth):
        node = {'children': []}
        i = 0
        gi = 0
        while i < len(items):
            if depth < 3 and len(items) - i >= 1 and rng.random() < o['p_group'] * (0.7 ** depth):
                k = rng.randint(1, min(4, len(items) - i))
                gname = 'g%d' % gi if not prefix else '%s_%d' % (prefix.split('.')[-1], gi)
                gi += 1
                sub = split(items[i:i + k], (prefix + '.' if prefix else '') + gname, depth + 1)
                sub['group'] = gname
                node['children'].append(sub)
                i += k
            else:
                path[items[i]] = (prefix + '.' if prefix else '') + items[i]
                node['children'].append({'comp': items[i]})
                i += 1
        return node
    tree = split(names, '', 0)
    tree['group'] = ''
    if rng.random() < o['p_shuffle']:
        def shuf(n):
            rng.shuffle(n['children'])
            n['auto_order'] = True
            for ch in n['children']:
                if 'group' in ch:
                    shuf(ch)
        shuf(tree)
        spec['shuffled'] = True
    spec['tree'] = tree
    spec['path'] = path
    # promotion levels: how many levels each variable is promoted above its component (0 = none)
    owner = {}
    for c in spec['comps']:
        for v in c['outputs'] + c['inputs']:
            owner[v['name']] = c['name']
    up = {}
    for c in spec['comps']:
        depth = path[c['name']].count('.')    # number of enclosing non-root groups
        for v in c['outputs']:
            up[v['name']] = rng.randint(0, depth + 1) if rng.random() < o['p_promote'] else 0
        for v in c['inputs']:
            up[v['name']] = 0
    spec['up'] = up
    # realise connections
    for cn in spec['conns']:
        tgt = cn['tgt']
        tdepth = path[owner[tgt]].count('.')
        chain = cn['chain']
        if cn.get('src_is_param'):
            # auto-IVC parameter: input promoted to the root under the parameter's name; index links
            # are given on promotes() (src_shape = parameter shape)
            cn['how'] = 'param'
            continue
        spath = path[owner[cn['src']]].split('.')
        tpath = path[owner[tgt]].split('.')
        common = 0
        while common < min(len(spath), len(tpath)) - 1 and spath[common] == tpath[common]:
            common += 1
        if len(chain) == 2 or (len(chain) <= 1 and rng.random() < o['p_promote'] * 0.6):
            # promote the input upward (possibly with the LAST link on promotes) to some level >= LCA,
            # connect there with the FIRST link on connect()
            lo = common                       # depth of the lowest common ancestor group
            plevel = rng.randint(0, lo)       # depth of the group where connect() is issued
            if tdepth + 1 - plevel <= 0:
                cn['how'] = 'connect'
                cn['level'] = plevel
                continue
            cn['how'] = 'promote+connect'
            cn['level'] = plevel
            up[tgt] = tdepth + 1 - plevel     # promoted up into namespace of group at depth plevel
            if len(chain) == 2:
                # the second link rides on promotes() at a random level between comp and plevel
                cn['promote_link_at'] = rng.randint(plevel, tdepth)
            elif len(chain) == 1 and rng.random() < 0.5:
                cn['all_on_promotes'] = False
        else:
            cn['how'] = 'connect'
            cn['level'] = rng.randint(0, common)
    return spec


def name_at(spec, var, owner_comp, depth):
    """Name of `var` in the namespace of the ancestor group at `depth` (0 = root)."""
    p = spec['path'][owner_comp].split('.')
    L = len(p)
    stop = max(depth, L - spec['up'].get(var, 0))
    return '.'.join(p[depth:stop] + [var])


# ----------------------------------------------------------------------------------------------
# solvers
# ----------------------------------------------------------------------------------------------
def _members(node):
    if 'comp' in node:
        return [node['comp']]
    out = []
    for ch in node['children']:
        out += _members(ch)
    return out


def _gen_solvers(rng, spec, o):
    edges, _ = comp_graph(spec)
    kinds = {c['name']: c for c in spec['comps']}

    def visit(node):
        if 'comp' in node:
            return
        kids = node['children']
        mem = [set(_members(k)) for k in kids]
        ge = set()
        for a, b in edges:
            ia = [i for i, m in enumerate(mem) if a in m]
            ib = [i for i, m in enumerate(mem) if b in m]
            if ia and ib and ia[0] != ib[0]:
                ge.add((ia[0], ib[0]))
        cyc = any(len(s) > 1 for s in sccs(list(range(len(kids))), ge))
        node['cyclic'] = cyc
        allm = set().union(*mem) if mem else set()
        has_matfree = any(kinds[m].get('matfree') for m in allm)
        has_approx = False
        if o['solver_mix'] == 'runonce':
            node['nl'] = {'type': 'runonce'}
            node['ln'] = {'type': 'runonce'}
        else:
            if cyc:
                nl = rng.choice(['nlbgs', 'nlbgs', 'nlbj', 'newton', 'newton', 'broyden'])
            else:
                nl = rng.choice(['runonce'] * 6 + ['newton', 'nlbgs'])
            nlo = {'type': nl}
            if nl == 'nlbgs':
                nlo['use_aitken'] = rng.random() < 0.25
                nlo['use_apply_nonlinear'] = rng.random() < 0.3
            if nl == 'newton':
                nlo['solve_subsystems'] = rng.random() < 0.5
                nlo['linesearch'] = rng.choice([None, None, 'bounds', 'armijo'])
            node['nl'] = nlo
            if cyc or nl in ('newton', 'broyden'):
                ln = rng.choice(['direct', 'direct', 'direct', 'krylov', 'lnbgs', 'lnbj', 'krylov+lnbgs'])
            else:
                ln = rng.choice(['runonce'] * 4 + ['direct', 'direct', 'lnbgs', 'krylov'])
            if nl == 'broyden':
                ln = 'direct'
            lno = {'type': ln}
            if ln == 'direct':
                lno['assemble_jac'] = (rng.random() < 0.7) and not has_matfree
                lno['jac_type'] = rng.choice(['dense', 'csc'])
            if o['p_assembled_iter'] > 0 and ln == 'krylov' and not has_matfree and \
                    rng.random() < o['p_assembled_iter']:
                lno['assemble_jac'] = True
                lno['jac_type'] = rng.choice(['csr', 'csr', 'csc', 'dense'])
            if o['p_rhs_checking'] > 0 and ln in ('direct', 'krylov', 'krylov+lnbgs') and \
                    rng.random() < o['p_rhs_checking']:
                lno['rhs_checking'] = {'max_cache_entries': rng.choice([3, 40, 400])}
            node['ln'] = lno
        for k in kids:
            visit(k)
    visit(spec['tree'])


def _gen_dv_resp(rng, spec, o):
    params = []
    for c in spec['comps']:
        if c['kind'] == 'ivc':
            params += [(oo, c['name']) for oo in c['outputs']]
    used = set(cn['src'] for cn in spec['conns'])
    wrt = []
    for oo, cname in params:
        if oo['name'] in used or rng.random() < 0.3:
            wrt.append(oo['name'])
    for p in spec['params']:
        if p['name'] in used:
            wrt.append(p['name'])
    states = [oo['name'] for c in spec['comps'] if c['kind'] != 'ivc' for oo in c['outputs']]
    rng.shuffle(states)
    of = sorted(states[:rng.randint(1, min(3, len(states)))])
    if spec.get('force_of'):
        # each scaled copy directly after its source, so that their (anti-)parallel reverse-mode right-hand
        # sides are still in a small linear-solution cache
        pairs = spec['force_of']
        of = [x for x in of if x not in pairs] + pairs
    spec['of'] = of
    spec['wrt'] = wrt or [params[0][0]['name']]


# ----------------------------------------------------------------------------------------------
# building the real OpenMDAO problem
# ----------------------------------------------------------------------------------------------
def _dec(j):
    if isinstance(j, dict):
        if 't' in j:
            return tuple(_dec(x) for x in j['t'])
        if 's' in j:
            return slice(*j['s'])
        if 'l' in j:
            return np.array(j['l'], dtype=int)
    if j == '...':
        return Ellipsis
    return j


SOLVER_TOL = dict(atol=1e-11, rtol=1e-13, maxiter=150)


def _nl(om, s):
    t = s['type']
    if t == 'runonce':
        return om.NonlinearRunOnce()
    kw = dict(iprint=-1, err_on_non_converge=False, **SOLVER_TOL)
    if t == 'nlbgs':
        return om.NonlinearBlockGS(use_aitken=s.get('use_aitken', False),
                                   use_apply_nonlinear=s.get('use_apply_nonlinear', False), **kw)
    if t == 'nlbj':
        return om.NonlinearBlockJac(**kw)
    if t == 'newton':
        n = om.NewtonSolver(solve_subsystems=s.get('solve_subsystems', False), **kw)
        if s.get('solve_subsystems'):
            n.options['max_sub_solves'] = 20
        ls = s.get('linesearch')
        if ls == 'bounds':
            n.linesearch = om.BoundsEnforceLS()
        elif ls == 'armijo':
            n.linesearch = om.ArmijoGoldsteinLS(iprint=-1)
        else:
            n.linesearch = None
        return n
    if t == 'broyden':
        return om.BroydenSolver(**kw)
    raise ValueError(t)


def _ln(om, s):
    t = s['type']
    kw = dict(iprint=-1, err_on_non_converge=False, atol=1e-13, rtol=1e-13, maxiter=200)
    if t == 'runonce':
        return om.LinearRunOnce()
    if t == 'direct':
        return om.DirectSolver(assemble_jac=s.get('assemble_jac', True), rhs_checking=s.get('rhs_checking', False))
    if t == 'lnbgs':
        return om.LinearBlockGS(**kw)
    if t == 'lnbj':
        return om.LinearBlockJac(**kw)
    if t == 'krylov':
        return om.ScipyKrylov(iprint=-1, err_on_non_converge=False, atol=1e-14, rtol=1e-14, maxiter=500,
                              rhs_checking=s.get('rhs_checking', False),
                              assemble_jac=bool(s.get('assemble_jac', False)))
    if t == 'krylov+lnbgs':
        k = om.ScipyKrylov(iprint=-1, err_on_non_converge=False, atol=1e-14, rtol=1e-14, maxiter=500,
                           rhs_checking=s.get('rhs_checking', False))
        k.precon = om.LinearBlockGS(iprint=-1, maxiter=2, err_on_non_converge=False)
        return k
    raise ValueError(t)


def build(spec, hook=None, problem_kwargs=None, comp_factory=None, defer=None):
    """Build (not set up) the real OpenMDAO problem for a spec.

    defer: optional set of target variable names whose explicit connect() call is not issued; the calls are kept as
    thunks in prob._omv_deferred (histories that add connections between two setups)."""
    import openmdao.api as om
    from omv.gen.comps import HExplicit, HImplicit, HExplicitMF, HImplicitMF
    prob = om.Problem(**(problem_kwargs or {}))
    cmap = {c['name']: c for c in spec['comps']}
    owner = {}
    for c in spec['comps']:
        for v in c['outputs'] + c['inputs']:
            owner[v['name']] = c['name']
    up = spec['up']
    conn_of = {cn['tgt']: cn for cn in spec['conns']}
    groups = {}      # depth-path tuple -> om.Group

    def make_comp(c):
        if comp_factory is not None:
            r = comp_factory(c, hook)
            if r is not None:
                return r
        if c['kind'] == 'ivc':
            ivc = om.IndepVarComp()
            for oo in c['outputs']:
                ivc.add_output(oo['name'], val=np.asarray(oo['val'], dtype=float).reshape(oo['shape']),
                               units=oo.get('units'))
            return ivc
        if c['kind'] == 'imp':
            return (HImplicitMF if c.get('matfree') else HImplicit)(c, hook)
        return (HExplicitMF if c.get('matfree') else HExplicit)(c, hook)

    def fill(group, node, depth, gpath):
        groups[gpath] = group
        if node.get('auto_order'):
            group.options['auto_order'] = True
        for ch in node['children']:
            if 'comp' in ch:
                c = cmap[ch['comp']]
                L = depth + 1     # number of path components of the comp = depth+1
                pin, pout = [], []
                for v in c['outputs']:
                    if up.get(v['name'], 0) >= 1:
                        pout.append(v['name'])
                later = []
                for v in c['inputs']:
                    cn = conn_of.get(v['name'])
                    if cn is not None and cn['how'] == 'param':
                        later.append((v, cn))
                    elif up.get(v['name'], 0) >= 1:
                        if cn is not None and cn.get('promote_link_at') == depth:
                            later.append((v, cn))
                        else:
                            pin.append(v['name'])
                group.add_subsystem(c['name'], make_comp(c), promotes_inputs=pin, promotes_outputs=pout)
                for v, cn in later:
                    if cn['how'] == 'param':
                        if cn['chain']:
                            link = cn['chain'][0]
                            group.promotes(c['name'], inputs=[(v['name'], cn['src'])],
                                           src_indices=_dec(link['idx']), flat_src_indices=bool(link['flat']),
                                           src_shape=_shape_before_link(spec, cn, 0))
                        else:
                            group.promotes(c['name'], inputs=[(v['name'], cn['src'])])
                    else:
                        _promote_with_link(group, c['name'], v, cn, depth, spec)
            else:
                sub = om.Group()
                mem = _members(ch)
                # variables of members promoted above this subgroup
                pin, pout, later = [], [], []
                for m in mem:
                    mp = spec['path'][m].split('.')
                    Lm = len(mp)
                    for v in cmap[m]['outputs']:
                        if Lm - up.get(v['name'], 0) <= depth:
                            pout.append(v['name'])
                    for v in cmap[m]['inputs']:
                        cn = conn_of.get(v['name'])
                        if cn is not None and cn['how'] == 'param':
                            if cn['src'] not in pin:
                                pin.append(cn['src'])
                        elif Lm - up.get(v['name'], 0) <= depth:
                            if cn is not None and cn.get('promote_link_at') == depth:
                                later.append((v, cn))
                            else:
                                pin.append(v['name'])
                fill(sub, ch, depth + 1, gpath + (ch['group'],))
                group.add_subsystem(ch['group'], sub, promotes_inputs=pin, promotes_outputs=pout)
                for v, cn in later:
                    _promote_with_link(group, ch['group'], v, cn, depth, spec)
        if 'nl' in node:
            group.nonlinear_solver = _nl(om, node['nl'])
            group.linear_solver = _ln(om, node['ln'])
            if node['ln'].get('assemble_jac'):
                group.options['assembled_jac_type'] = node['ln'].get('jac_type', 'csc')

    fill(prob.model, spec['tree'], 0, ())
    deferred = []
    # explicit connections
    for cn in spec['conns']:
        if cn['how'] == 'param':
            continue
        d = cn['level']
        gpath = tuple(spec['path'][owner[cn['tgt']]].split('.')[:d])
        g = groups[gpath]
        s = name_at(spec, cn['src'], owner[cn['src']], d)
        t = name_at(spec, cn['tgt'], owner[cn['tgt']], d)
        chain = cn['chain']
        if chain and not (cn['how'] == 'promote+connect' and len(chain) == 1 and False):
            link = chain[0]
            kw = dict(src_indices=_dec(link['idx']), flat_src_indices=bool(link['flat']))
        else:
            kw = {}
        if defer and cn['tgt'] in defer:
            deferred.append((lambda g=g, s=s, t=t, kw=kw: g.connect(s, t, **kw)))
        else:
            g.connect(s, t, **kw)
    prob._omv_deferred = deferred
    # parameters (auto-IVC)
    for p in spec['params']:
        users = [cn for cn in spec['conns'] if cn['how'] == 'param' and cn['src'] == p['name']]
        if users:
            prob.model.set_input_defaults(p['name'], val=np.asarray(p['val'], dtype=float).reshape(p['shape']),
                                          units=p.get('units'))
    return prob


def _promote_with_link(group, child, v, cn, depth, spec):
    """Promote input `v` out of `child` into `group`'s namespace, attaching the 2nd index link."""
    link = cn['chain'][1]
    shp = _shape_before_link(spec, cn, 1)
    group.promotes(child, inputs=[v['name']], src_indices=_dec(link['idx']),
                   flat_src_indices=bool(link['flat']), src_shape=shp)


def _owner(spec, var):
    for c in spec['comps']:
        for v in c['outputs'] + c['inputs']:
            if v['name'] == var:
                return c['name']
    raise KeyError(var)


def _shape_before_link(spec, cn, k):
    """Shape of the (virtual) source seen by link k of the chain."""
    src = cn['src']
    shape = None
    for c in spec['comps']:
        for oo in c['outputs']:
            if oo['name'] == src:
                shape = tuple(oo['shape'])
    for p in spec['params']:
        if p['name'] == src:
            shape = tuple(p['shape'])
    cur = shape
    for link in cn['chain'][:k]:
        rs = result_shape(cur, _dec_list(link['idx']), link['flat'])
        cur = rs if len(rs) else (1,)
    return tuple(cur)


def _dec_list(j):
    """decode but keep arrays as lists (for result_shape)."""
    if isinstance(j, dict):
        if 't' in j:
            return tuple(_dec_list(x) for x in j['t'])
        if 's' in j:
            return slice(*j['s'])
        if 'l' in j:
            return list(j['l'])
    if j == '...':
        return Ellipsis
    return j


def abs_name(spec, var):
    """absolute path of an output/input variable."""
    return spec['path'][_owner(spec, var)] + '.' + var


def top_name(spec, var):
    """Promoted name at the root (for params: their own name)."""
    for p in spec['params']:
        if p['name'] == var:
            return var
    return name_at(spec, var, _owner(spec, var), 0)


# ----------------------------------------------------------------------------------------------
# structured family: linear-solution caching (rhs_checking) in reverse mode
# ----------------------------------------------------------------------------------------------
def gen_rhs_cache_spec(rng):
    """iv0 -> g0[ c0 (-> c1) ] -> s0, s1 (scaled copies y = s*x outside g0).

    g0 owns a DirectSolver / ScipyKrylov with rhs_checking; the root runs LinearRunOnce (or LinearBlockGS),
    so in reverse mode g0's solver sees, for row i of a scaled copy, s times the right-hand side it saw
    for row i of the copied state: equal / negative / parallel / anti-parallel cache hits all occur.
    """
    n = rng.choice([1, 2, 3, 4])
    spec = {'opts': dict(DEFAULTS, family='rhs-cache'), 'comps': [], 'conns': [], 'params': []}
    spec['comps'].append({'name': 'iv0', 'kind': 'ivc', 'inputs': [], 'outputs': [
        {'name': 'iv0_o0', 'shape': [n], 'units': None, 'val': np.round(rng_uniform(rng, (n,), -2, 2), 3).tolist()}]})
    inner = []
    prev = 'iv0_o0'
    for i in range(rng.randint(1, 2)):
        kind = 'imp' if rng.random() < 0.4 else 'exp'
        c = {'name': 'c%d' % i, 'kind': kind, 'inputs': [{'name': 'c%d_x0' % i, 'shape': [n], 'units': None}],
             'outputs': [{'name': 'c%d_y0' % i, 'shape': [n], 'units': None,
                          'val': np.round(rng_uniform(rng, (n,), -0.5, 0.5), 3).tolist()}],
             'terms': {}, 'styles': {}}
        if kind == 'imp':
            c['beta'] = round(rng.uniform(-0.3, 0.3), 3)
        A = np.round(rng_uniform(rng, (n, n), -1, 1) * 0.6, 4)
        B = np.round(rng_uniform(rng, (n, n), -1, 1) * 0.6, 4)
        A[A == 0] = 0.05
        c['terms']['c%d_y0' % i] = {'c': np.round(rng_uniform(rng, (n,), -1, 1), 3).tolist(),
                                    'A': {'c%d_x0' % i: A.tolist()}, 'B': {'c%d_x0' % i: B.tolist()}}
        c['styles']['c%d_y0|c%d_x0' % (i, i)] = rng.choice(['dense', 'coo', 'csr', 'rowcol'])
        spec['comps'].append(c)
        spec['conns'].append({'src': prev, 'tgt': 'c%d_x0' % i, 'tgt_units': None, 'chain': [],
                              'src_is_param': False, 'how': 'connect', 'level': 0})
        inner.append(c['name'])
        prev = 'c%d_y0' % i
    last = prev
    copies = []
    for k in range(rng.randint(1, 3)):
        sfac = rng.choice([-3.0, -2.0, -0.5, -1.0, 2.0, 0.25, -1.5, 1.0])
        nm = 's%d' % k
        spec['comps'].append({'name': nm, 'kind': 'exp', 'fixed_terms': True,
                              'inputs': [{'name': nm + '_x0', 'shape': [n], 'units': None}],
                              'outputs': [{'name': nm + '_y0', 'shape': [n], 'units': None}],
                              'terms': {nm + '_y0': {'c': [0.0] * n, 'A': {nm + '_x0': (sfac * np.eye(n)).tolist()},
                                                     'B': {}}},
                              'styles': {'%s_y0|%s_x0' % (nm, nm): rng.choice(['dense', 'diag', 'rowcol'])}})
        spec['conns'].append({'src': last, 'tgt': nm + '_x0', 'tgt_units': None, 'chain': [],
                              'src_is_param': False, 'how': 'connect', 'level': 0})
        copies.append(nm + '_y0')
    ln_in = rng.choice(['direct', 'direct', 'krylov'])
    lno = {'type': ln_in, 'rhs_checking': rng.choice([True, {'max_cache_entries': 2}, {'max_cache_entries': 50}])}
    if ln_in == 'direct':
        lno['assemble_jac'] = rng.random() < 0.5
        lno['jac_type'] = rng.choice(['dense', 'csc'])
    g0 = {'group': 'g0', 'children': [{'comp': x} for x in inner], 'nl': {'type': 'runonce'}, 'ln': lno,
          'cyclic': False}
    spec['tree'] = {'group': '', 'children': [{'comp': 'iv0'}, g0] + [{'comp': c[:-3]} for c in copies],
                    'nl': {'type': 'runonce'}, 'ln': {'type': rng.choice(['runonce', 'runonce', 'lnbgs'])},
                    'cyclic': False}
    spec['path'] = {'iv0': 'iv0'}
    for x in inner:
        spec['path'][x] = 'g0.' + x
    for c in copies:
        spec['path'][c[:-3]] = c[:-3]
    spec['up'] = {}
    for c in spec['comps']:
        for v in c['inputs'] + c['outputs']:
            spec['up'][v['name']] = 0
    spec['of'] = [last] + copies
    spec['force_of'] = list(spec['of'])
    spec['wrt'] = ['iv0_o0']
    return spec
