"""Helpers shared by the single-component checks (C14, C25, C26, C34).

Pure-NumPy part: complex-step Jacobian of a harness function and a *derived* tolerance obtained by
measuring how much the harness result moves when its operands are perturbed by a known relative
amount (conditioning estimate).  OpenMDAO part: reading a component's sub-jacobians in dense form and
driving a one-component problem.  Nothing here computes a reference value with OpenMDAO code.
"""
import numpy as np

EPS = np.finfo(float).eps
# relative size of the operand perturbation used to estimate conditioning (about 450 ulp)
PERT = 1e-13


def as_list(x):
    return list(x) if isinstance(x, (list, tuple)) else [x]


def cs_jac(fun, xs, h=1e-30):
    """Complex-step Jacobian of fun(list of arrays) -> list of arrays.

    Returns (outs, J) with outs the real outputs and J[oi][ii] a dense (osize, isize) array.
    """
    xs = [np.asarray(x, dtype=float) for x in xs]
    outs = [np.array(o, dtype=complex).real.copy() for o in as_list(fun([x.astype(complex) for x in xs]))]
    J = [[np.zeros((o.size, x.size)) for x in xs] for o in outs]
    for ii, x in enumerate(xs):
        for k in range(x.size):
            xc = [a.astype(complex) for a in xs]
            xc[ii].reshape(-1)[k] += 1j * h
            res = as_list(fun(xc))
            for oi, r in enumerate(res):
                J[oi][ii][:, k] = np.asarray(r, dtype=complex).imag.reshape(-1) / h
    return outs, J


def perturbed_spread(fun, xs, seed, nrep=3, rel=PERT, want_jac=True):
    """Largest elementwise change of outputs / Jacobian when every operand is perturbed by a relative
    amount `rel` (uniform in [-rel, rel]); nrep independent draws."""
    rng = np.random.default_rng(seed)
    xs = [np.asarray(x, dtype=float) for x in xs]
    if want_jac:
        o0, J0 = cs_jac(fun, xs)
    else:
        o0 = [np.array(o, dtype=float) for o in as_list(fun([x.copy() for x in xs]))]
        J0 = None
    Do = [np.zeros(o.shape) for o in o0]
    DJ = [[np.zeros(j.shape) for j in row] for row in J0] if want_jac else None
    for _ in range(nrep):
        xp = [x * (1.0 + rel * rng.uniform(-1, 1, size=x.shape)) for x in xs]
        if want_jac:
            o1, J1 = cs_jac(fun, xp)
        else:
            o1 = [np.array(o, dtype=float) for o in as_list(fun([x.copy() for x in xp]))]
        for i, o in enumerate(o1):
            Do[i] = np.maximum(Do[i], np.abs(o - o0[i]))
        if want_jac:
            for i, row in enumerate(J1):
                for k, j in enumerate(row):
                    DJ[i][k] = np.maximum(DJ[i][k], np.abs(j - J0[i][k]))
    return o0, J0, Do, DJ


def tol_of(ref, spread, factor=20.0, floor_rel=64 * EPS):
    """Elementwise tolerance: `factor` x the observed spread under 450-ulp operand perturbations (true
    rounding is a few ulp per operation, so this leaves two orders of magnitude of head-room for a
    backward-stable evaluation) plus 64 ulp of the largest reference magnitude (representation floor)."""
    ref = np.asarray(ref, dtype=float)
    scale = float(np.max(np.abs(ref))) if ref.size else 0.0
    return factor * np.asarray(spread) + floor_rel * max(scale, 1e-300)


def close(got, ref, tol):
    got = np.asarray(got, dtype=float)
    ref = np.asarray(ref, dtype=float)
    if got.shape != ref.shape:
        if got.size != ref.size:
            return False, float('inf')
        got = got.reshape(ref.shape)
    if not np.all(np.isfinite(got)):
        return False, float('inf')
    err = np.abs(got - ref)
    bad = err > tol
    return (not bool(np.any(bad))), (float(np.max(err - tol)) if err.size else 0.0)


def worst(got, ref):
    got = np.asarray(got, dtype=float).reshape(-1)
    ref = np.asarray(ref, dtype=float).reshape(-1)
    if got.size != ref.size:
        return 'size %d vs %d' % (got.size, ref.size)
    if got.size == 0:
        return 'empty'
    k = int(np.argmax(np.abs(got - ref)))
    return 'entry %d: got %.12g expected %.12g' % (k, got[k], ref[k])


# ----------------------------------------------------------------------------------------------
# unit conversions used by the harness (factor, offset): value_in_to = (value_in_from + offset) * factor
# hard-coded physical constants, not taken from openmdao.utils.units
# ----------------------------------------------------------------------------------------------
UNIT_CONV = {
    ('km', 'm'): (1000.0, 0.0),
    ('cm', 'm'): (0.01, 0.0),
    ('m', 'cm'): (100.0, 0.0),
    ('m', 'km'): (0.001, 0.0),
    ('ft', 'm'): (0.3048, 0.0),
    ('m', 'ft'): (1.0 / 0.3048, 0.0),
    ('inch', 'cm'): (2.54, 0.0),
    ('min', 's'): (60.0, 0.0),
    ('h', 's'): (3600.0, 0.0),
    ('s', 'min'): (1.0 / 60.0, 0.0),
    ('kN', 'N'): (1000.0, 0.0),
    ('N', 'kN'): (0.001, 0.0),
    ('g', 'kg'): (0.001, 0.0),
    ('kg', 'g'): (1000.0, 0.0),
    ('degC', 'degK'): (1.0, 273.15),
}


def conv(from_u, to_u):
    if from_u == to_u or from_u is None or to_u is None:
        return 1.0, 0.0
    return UNIT_CONV[(from_u, to_u)]


def src_units_for(rng, u, p=0.5):
    """Pick units for the IndepVarComp output feeding an input with units u (possibly different)."""
    if u is None:
        return None
    cands = [a for (a, b) in UNIT_CONV if b == u]
    if cands and rng.random() < p:
        return cands[int(rng.integers(len(cands)))]
    return u


# ----------------------------------------------------------------------------------------------
# OpenMDAO side
# ----------------------------------------------------------------------------------------------
def dense_subjac(comp, of, wrt):
    """Dense (osize, wsize) sub-jacobian stored by the component's own Jacobian, or None if the pair is
    not declared."""
    jac = comp._get_jacobian()
    key = (comp.pathname + '.' + of, comp.pathname + '.' + wrt)
    sj = jac._subjacs.get(key) if hasattr(jac, '_subjacs') else None
    if sj is None:
        sjs = jac._get_subjacs(comp)
        sj = sjs.get(key)
        if sj is None:
            return None
    d = sj.todense()
    return np.asarray(d, dtype=float)


def totals_dict(prob, of, wrt):
    return prob.compute_totals(of=of, wrt=wrt, return_format='flat_dict')
