"""`python -m omv.cli check <ID> [--tier quick|thorough] [--replay file] [--jobs N]`

Fans a check out to worker subprocesses, aggregates what the monitors observed, classifies
violations against known_findings.json, writes evidence/<ID>.json and prints the verdict.

Exit codes: 0 HELD (possibly with KNOWN-FINDING lines), 1 VIOLATED, 2 INCONCLUSIVE.
"""
import argparse
import concurrent.futures as cf
import json
import os
import re
import shutil
import subprocess
import tempfile
import sys
import time

HERE = os.path.dirname(os.path.dirname(os.path.abspath(__file__)))


def _env():
    env = dict(os.environ)
    pp = [HERE, os.path.join(HERE, '.deps')]
    if env.get('OMV_REPO'):
        pp.insert(0, env['OMV_REPO'])
    if env.get('PYTHONPATH'):
        pp += [p for p in env['PYTHONPATH'].split(':') if p and p not in pp]
    env['PYTHONPATH'] = ':'.join(pp)
    env.setdefault('OPENMDAO_REPORTS', '0')
    env.setdefault('PYTHONHASHSEED', '0')
    env.setdefault('PYTHONDONTWRITEBYTECODE', '1')
    env.setdefault('OPENMDAO_VERIF', '1')
    for k in ('OMP_NUM_THREADS', 'OPENBLAS_NUM_THREADS', 'MKL_NUM_THREADS'):
        env.setdefault(k, '1')
    env.setdefault('JAX_PLATFORMS', 'cpu')
    return env


def run_worker(prop, payload, timeout, mode='shard'):
    cmd = [sys.executable, '-m', 'omv.worker', prop, json.dumps(payload), mode]
    t0 = time.time()
    # every temporary file of the worker (and of the children it starts) lives under one directory that is removed
    # here whatever happens to the worker (watchdog kill included)
    env = _env()
    tmp = tempfile.mkdtemp(prefix='omv-%s-' % prop)
    env['TMPDIR'] = tmp
    try:
        p = subprocess.run(cmd, env=env, cwd=HERE, stdout=subprocess.PIPE, stderr=subprocess.PIPE,
                           timeout=timeout)
    except subprocess.TimeoutExpired:
        return {'shard': payload, 'error': 'watchdog %ss' % timeout, 'timeout': True}
    finally:
        shutil.rmtree(tmp, ignore_errors=True)
    out = p.stdout.decode('utf-8', 'replace')
    m = None
    for line in out.splitlines():
        if line.startswith('OMV-RESULT '):
            m = line[len('OMV-RESULT '):]
    if m is None:
        return {'shard': payload, 'error': 'worker died rc=%s: %s' %
                (p.returncode, p.stderr.decode('utf-8', 'replace')[-3000:])}
    res = json.loads(m)
    res['elapsed'] = time.time() - t0
    return res


def repo_state():
    root = os.environ.get('OMV_REPO', '/repo')
    try:
        head = subprocess.run(['git', '-C', root, 'rev-parse', 'HEAD'], stdout=subprocess.PIPE,
                              stderr=subprocess.DEVNULL).stdout.decode().strip()
        dirty = bool(subprocess.run(['git', '-C', root, 'status', '--porcelain', '-uno'],
                                    stdout=subprocess.PIPE,
                                    stderr=subprocess.DEVNULL).stdout.decode().strip())
    except Exception:
        head, dirty = '', None
    return {'root': root, 'head': head, 'dirty': dirty}


def load_known(prop):
    path = os.path.join(HERE, 'known_findings.json')
    if not os.path.exists(path):
        return KnownMap()
    with open(path) as f:
        data = json.load(f)
    entries = list(data.get('findings', []))
    extra = os.environ.get('OMV_KNOWN_EXTRA')     # development aid only: a JSON list of candidate entries
    if extra and os.path.exists(extra):
        with open(extra) as f:
            entries += json.load(f)
    return KnownMap((e['key'], e) for e in entries if e.get('property') == prop)


class KnownMap(dict):
    """known-finding keys; a key ending in ':*' matches every observable of that mechanism."""

    def _match(self, k):
        if dict.__contains__(self, k):
            return k
        for pat in self.keys():
            if pat.endswith('*') and k.startswith(pat[:-1]):
                return pat
        return None

    def __contains__(self, k):
        return self._match(k) is not None

    def __getitem__(self, k):
        return dict.__getitem__(self, self._match(k))


def main(argv=None):
    ap = argparse.ArgumentParser()
    ap.add_argument('cmd', choices=['check', 'list'])
    ap.add_argument('prop', nargs='?')
    ap.add_argument('--tier', default=os.environ.get('VERIF_TIER', 'quick'),
                    choices=['quick', 'thorough'])
    ap.add_argument('--replay')
    ap.add_argument('--jobs', type=int, default=int(os.environ.get('OMV_JOBS', '16')))
    ap.add_argument('--no-evidence', action='store_true')
    a = ap.parse_args(argv)
    from omv import checks
    if a.cmd == 'list':
        print(' '.join(checks.all_ids()))
        return 0
    prop = a.prop.upper()
    mod = checks.load(prop)
    seed = int(os.environ.get('VERIF_SEED', '0') or 0)
    t0 = time.time()

    if a.replay:
        with open(a.replay) as f:
            w = json.load(f)
        res = run_worker(prop, w['violation']['case'], 1800, mode='case')
        if res.get('error'):
            print('INCONCLUSIVE property=%s reason=replay worker error: %s' % (prop, res['error']))
            return 2
        known = load_known(prop)
        bad = [v for v in res['violations'] if _key(mod, v) not in known]
        for v in res['violations']:
            print('replayed violation key=%s what=%s' % (_key(mod, v), v['what']))
        if bad:
            print('VIOLATION property=%s replay=%s' % (prop, a.replay))
            return 1
        print('HELD property=%s (replayed case shows no unlisted violation)' % prop)
        return 0

    rd = os.path.join(HERE, 'replay', prop)
    if os.path.isdir(rd):
        for fn in os.listdir(rd):
            os.unlink(os.path.join(rd, fn))
    shards = mod.shards(a.tier, seed)
    timeout = getattr(mod, 'SHARD_TIMEOUT', {}).get(a.tier, 1500 if a.tier == 'quick' else 7200)
    results = []
    with cf.ThreadPoolExecutor(max_workers=a.jobs) as ex:
        futs = [ex.submit(run_worker, prop, s, timeout) for s in shards]
        for fu in cf.as_completed(futs):
            results.append(fu.result())

    # ---- aggregate ---------------------------------------------------------------------
    agg = {'evaluations': 0, 'judged': 0, 'fps': set(), 'fps_overflow': 0, 'violations': [],
           'n_viol': 0, 'samples': [], 'counters': {}, 'skipped': {}, 'errors': []}
    for r in results:
        if r.get('error'):
            agg['errors'].append({'shard': r.get('shard'), 'error': r['error']})
        if 'evaluations' not in r:
            continue
        agg['evaluations'] += r['evaluations']
        agg['judged'] += r['judged']
        agg['fps'].update(r['fps'])
        agg['fps_overflow'] += r['fps_overflow']
        agg['violations'] += r['violations']
        agg['n_viol'] += r['n_viol']
        for s in r['samples']:
            if len(agg['samples']) < 6:
                agg['samples'].append(s)
        for k, v in r['counters'].items():
            agg['counters'][k] = agg['counters'].get(k, 0) + v
        for k, v in r['skipped'].items():
            agg['skipped'][k] = agg['skipped'].get(k, 0) + v

    known = load_known(prop)
    listed, unlisted = {}, []
    for v in agg['violations']:
        k = _key(mod, v)
        v['key'] = k
        if k in known:
            listed.setdefault(known._match(k), []).append(v)
        else:
            unlisted.append(v)
    # violation counters by key (includes those beyond the per-shard cap)
    viol_keys = {k[5:]: n for k, n in agg['counters'].items() if k.startswith('viol:')}
    if not getattr(mod, 'classify', None):
        have = set(v['key'] for v in agg['violations'])
        for k in viol_keys:
            if k not in have and k not in known:   # witness dropped by the cap: still a violation
                unlisted.append({'key': k, 'what': 'witness dropped by per-shard cap', 'case': None,
                                 'detail': None})

    # ---- verdict -----------------------------------------------------------------------
    reasons = []
    min_judged = getattr(mod, 'MIN_JUDGED', {}).get(a.tier, 2)
    distinct = len(agg['fps']) + agg['fps_overflow']
    if agg['errors']:
        reasons.append('%d shard(s) failed: %s' % (len(agg['errors']),
                                                    agg['errors'][0]['error'][-600:].replace('\n', ' | ')))
    if agg['judged'] < min_judged:
        reasons.append('only %d judged cases (< %d)' % (agg['judged'], min_judged))
    if distinct < 2:
        reasons.append('fewer than 2 distinct non-trivial cases')
    for c in getattr(mod, 'REQUIRED_COUNTERS', []):
        if agg['counters'].get(c, 0) <= 0:
            reasons.append('monitor counter %s never hit' % c)
    nskip = sum(agg['skipped'].values())
    if agg['evaluations'] and nskip > 0.9 * agg['evaluations']:
        reasons.append('guards discarded %d of %d cases' % (nskip, agg['evaluations']))

    replay_paths = []
    if unlisted:
        d = os.path.join(HERE, 'replay', prop)
        os.makedirs(d, exist_ok=True)
        seen = {}
        for v in unlisted:
            n = seen.get(v['key'], 0)
            seen[v['key']] = n + 1
            if n >= 2:
                continue
            name = re.sub(r'[^A-Za-z0-9_.-]+', '_', v['key'])[:80] + '-s%d-%d.json' % (seed, n)
            path = os.path.join(d, name)
            with open(path, 'w') as f:
                json.dump({'property': prop, 'seed': seed, 'tier': a.tier, 'violation': v}, f, indent=1)
            replay_paths.append((path, v))

    if unlisted:
        verdict = 'VIOLATED'
    elif reasons:
        verdict = 'INCONCLUSIVE'
    else:
        verdict = 'HELD'

    wall = time.time() - t0
    ev = {
        'property_id': prop, 'tier': a.tier, 'seed': seed,
        'level': getattr(mod, 'LEVEL', 'exploration'),
        'coverage': {
            'evaluations': agg['evaluations'],
            'distinct_nontrivial': distinct,
            'rule': getattr(mod, 'RULE', ''),
            'samples': agg['samples'] or [{'note': 'no sample recorded'}],
            'judged': agg['judged'],
            'discarded_by_guard': agg['skipped'],
            'monitor_counters': {k: v for k, v in sorted(agg['counters'].items())
                                 if not k.startswith('viol:')},
            'violation_counts_by_mechanism': viol_keys,
            'shards': len(shards), 'shards_failed': len(agg['errors']),
        },
        'assumptions': list(getattr(mod, 'ASSUMPTIONS', [])),
        'wall_s': round(wall, 2),
        'violations': len(unlisted),
        'verdict': verdict,
        'inconclusive_reasons': reasons,
        'known_findings_observed': sorted(listed),
        'repo': repo_state(),
    }
    extra = getattr(mod, 'coverage_extra', None)
    if extra:
        ev['coverage'].update(extra(a.tier, agg))
    if not a.no_evidence:
        os.makedirs(os.path.join(HERE, 'evidence'), exist_ok=True)
        with open(os.path.join(HERE, 'evidence', prop + '.json'), 'w') as f:
            json.dump(ev, f, indent=1, sort_keys=True)
            f.write('\n')

    # ---- report ------------------------------------------------------------------------
    print('%s property=%s tier=%s seed=%d evaluations=%d judged=%d distinct_nontrivial=%d '
          'skipped=%d wall=%.1fs' % (verdict, prop, a.tier, seed, agg['evaluations'], agg['judged'],
                                      distinct, nskip, wall))
    cs = ev['coverage']['monitor_counters']
    if cs:
        print('observed: ' + ' '.join('%s=%d' % kv for kv in list(cs.items())[:40]))
    for k in sorted(listed):
        print('KNOWN-FINDING: property=%s %s [%s; seen %d time(s), e.g. %s]' %
              (prop, known[k]['what'], k, sum(n for kk, n in viol_keys.items() if known._match(kk) == k)
               or len(listed[k]), listed[k][0]['what'][:160]))
    for k in sorted(known):
        if k not in listed:
            print('note: known finding %s not observed in this run' % k)
    for path, v in replay_paths:
        print('violation key=%s what=%s' % (v['key'], v['what'][:300]))
        print('VIOLATION property=%s replay=%s' % (prop, path))
    if verdict == 'INCONCLUSIVE':
        print('INCONCLUSIVE property=%s reason=%s' % (prop, '; '.join(reasons)))
    return {'HELD': 0, 'VIOLATED': 1, 'INCONCLUSIVE': 2}[verdict]


def _key(mod, v):
    cl = getattr(mod, 'classify', None)
    return cl(v) if cl else v['key']


if __name__ == '__main__':
    sys.exit(main())
