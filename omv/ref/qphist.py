"""Histories of one QP problem (C21): a model parameter and the changes a user makes between two
run_driver() calls on the SAME Problem.  Pure NumPy - must not import openmdao.

A spec (omv/ref/qpspec.py) gets an optional entry

    spec['par'] = {'B': m x n, 'c1': n, 'b1': m, 'q1': float, 'p': float, 'ivc': bool}

    f = (1 + q1 p) 1/2 z'Qz + (c + p c1)'z          g = (A + p B) z + b + p b1

`p` is a model input that is NOT a design variable (set with set_val; 'ivc' = declared through an
explicit IndepVarComp instead of the automatic one).  It enters the objective, every constraint value
and the COEFFICIENTS of every constraint, also of those declared linear=True (linear refers to the design
variables only).  b1 = -B xfeas, so g(xfeas) does not depend on p: the point the bounds were drawn around
stays feasible for every p and the feasible set is never empty.

`effective(spec)` is the plain spec (no 'par') of the QP at the current p: every reference formula
(RefModel, exact optimum) is evaluated on it unchanged.

A stage (JSON-able dict) describes what is changed before the next run:
    kinds    sorted list out of param / scaling / bounds / resetup / remodel / x0     (labels)
    p        new parameter value                                           (set_val)
    sc       {'dvs': [...], 'cons': [...], 'obj': x}   x = 'keep' | None | scaling dict
                                                        (set_design_var_options / set_constraint_options /
                                                         set_objective_options: a new pair replaces the old)
    bounds   {'dvs': [...], 'cons': [...]}   entry = 'keep' | {'lower','upper'[,'equals'],'pat'[,'form']}
                                                        (set_*_options: the new bounds replace all old ones)
    remodel  {'A','b','c'}  new data of the component, same sizes; implies resetup
    resetup  True: Problem.setup() is called again before the run
    warm     True: start from where the previous run left the model (when that is a legal start)
    x0       start point (model units) used when not warm
"""
import copy

import numpy as np

from omv.ref import affine as af
from omv.ref import qpspec

INF_BOUND = af.INF_BOUND
KINDS = ['param', 'scaling', 'bounds', 'resetup', 'remodel', 'x0']
WEIGHTS = [0.30, 0.20, 0.20, 0.10, 0.10, 0.10]
SECOND = ['param', 'scaling', 'bounds', 'resetup']


def _r(x, nd=4):
    return np.round(np.asarray(x, float), nd).tolist()


def effective(spec):
    par = spec.get('par')
    if not par:
        return spec
    n = int(sum(spec['sizes']))
    p = float(par['p'])
    Q = np.asarray(spec['Q'], float).reshape(n, n) * (1.0 + float(par['q1']) * p)
    c = np.asarray(spec['c'], float) + p * np.asarray(par['c1'], float)
    A = np.asarray(spec['A'], float).reshape(-1, n) + p * np.asarray(par['B'], float).reshape(-1, n)
    b = np.asarray(spec['b'], float) + p * np.asarray(par['b1'], float)
    out = {k: v for k, v in spec.items() if k != 'par'}
    out.update(Q=Q.tolist(), c=c.tolist(), A=A.tolist(), b=b.tolist())
    return out


def add_param(rng, spec):
    """-> copy of spec with a random 'par' entry (needs spec['xfeas'])."""
    s = copy.deepcopy(spec)
    n = int(sum(s['sizes']))
    m = len(s['b'])
    xf = np.asarray(s['xfeas'], float)
    B = np.asarray(_r(rng.normal(size=(m, n)) * 0.5, 3))
    s['par'] = {'B': B.tolist(), 'c1': _r(rng.normal(size=n), 3), 'b1': (-(B @ xf)).tolist(),
                'q1': float(_r(rng.uniform(0.0, 0.4), 3)), 'p': float(_r(rng.uniform(-1.0, 1.0), 2)),
                'ivc': bool(rng.random() < 0.4)}
    return s


def _positions(spec):
    na, nb = spec['sizes']
    out = []
    for d in spec['dvs']:
        off, size, mu = (0, na, spec['xunits'][0]) if d['name'] == 'xa' else (na, nb, spec['xunits'][1])
        idx = np.arange(size) if d.get('indices') is None else np.asarray(d['indices'], int) % size
        out.append((off + idx, mu, d.get('units') or mu))
    return out


def start_point(rng, spec, sd):
    """xfeas + noise, moved inside the declared design-variable bounds (as qpspec.random_spec does)."""
    xf = np.asarray(spec['xfeas'], float)
    x0 = xf + rng.normal(size=xf.size) * sd
    free = []
    for d, (pos, mu, du) in zip(spec['dvs'], _positions(spec)):
        free.extend(pos.tolist())
        fac, _ = af.unit_affine(mu, du)
        lo_a, hi_a = af.bound_arrays(d.get('lower'), d.get('upper'), pos.size)
        x0d = af.to_units(x0[pos], mu, du)
        lo_f = np.where(lo_a <= -INF_BOUND, -np.inf, lo_a)
        hi_f = np.where(hi_a >= INF_BOUND, np.inf, hi_a)
        both = np.isfinite(lo_f) & np.isfinite(hi_f)
        delta = np.where(both, np.minimum(1e-3 * fac, np.where(both, hi_f - lo_f, 1.0) / 4.0), 1e-3 * fac)
        x0d = np.minimum(np.maximum(x0d, lo_f + delta), hi_f - delta)
        x0[pos] = af.from_units(x0d, mu, du)
    fixed = np.setdiff1d(np.arange(xf.size), np.asarray(free, int))
    x0[fixed] = xf[fixed]
    return _r(x0, 12)


def inside_dv_bounds(spec, z):
    """z (model units) lies inside the declared design-variable bounds, no tolerance."""
    z = np.asarray(z, float)
    for d, (pos, mu, du) in zip(spec['dvs'], _positions(spec)):
        lo, hi = af.bound_arrays(d.get('lower'), d.get('upper'), pos.size)
        vd = af.to_units(z[pos], mu, du)
        if np.any(vd < lo) or np.any(vd > hi):
            return False
    return True


def draw_stage(rng, cur, allow_eq, mag_range, margin=1.0):
    n = int(sum(cur['sizes']))
    m = len(cur['b'])
    xf = np.asarray(cur['xfeas'], float)
    A = np.asarray(cur['A'], float).reshape(m, n)
    b = np.asarray(cur['b'], float)
    kinds = {KINDS[int(rng.choice(len(KINDS), p=WEIGHTS))]}
    if 'x0' not in kinds and rng.random() < 0.35:
        kinds.add(SECOND[int(rng.integers(len(SECOND)))])
    st = {}
    if 'param' in kinds:
        p_old = float(cur['par']['p'])
        for _ in range(20):
            p_new = float(_r(rng.uniform(-1.5, 1.5), 2))
            if abs(p_new - p_old) >= 0.3:
                break
        st['p'] = p_new
    if 'scaling' in kinds:
        all_kinds = ('none', 'sa', 'sa_arr', 'ref', 'ref_arr')
        vois = [('dvs', i, len(d['pat'])) for i, d in enumerate(cur['dvs'])] + \
            [('cons', i, len(c['pat'])) for i, c in enumerate(cur['cons'])] + [('obj', 0, 1)]
        forced = int(rng.integers(len(vois)))
        sc = {'dvs': ['keep'] * len(cur['dvs']), 'cons': ['keep'] * len(cur['cons']), 'obj': 'keep'}
        for j, (grp, i, size) in enumerate(vois):
            if j != forced and rng.random() > 0.6:
                continue
            new = qpspec.rand_scaling(rng, size, False, kinds=('none', 'sa', 'ref') if grp == 'obj' else all_kinds,
                                      mag_range=mag_range)
            if grp == 'obj':
                sc['obj'] = new
            else:
                sc[grp][i] = new
        st['sc'] = sc
    if 'bounds' in kinds:
        bd = {'dvs': ['keep'] * len(cur['dvs']), 'cons': ['keep'] * len(cur['cons'])}
        nv = len(cur['dvs']) + len(cur['cons'])
        forced = int(rng.integers(nv))
        gfeas = A @ xf + b
        for j, (d, (pos, mu, du)) in enumerate(zip(cur['dvs'], _positions(cur))):
            if j != forced and rng.random() > 0.5:
                continue
            vd = af.to_units(xf[pos], mu, du)
            fac, _ = af.unit_affine(mu, du)
            mode = ('none', 'scalar', 'array')[int(rng.integers(3))]
            lower = upper = None
            pat = 'N' * pos.size
            if mode != 'none':
                lower, upper, pat = qpspec._bound_pattern(rng, vd, mode, margin * 2.0 * fac + 1e-3, patterns='LUBN')
            bd['dvs'][j] = {'lower': lower, 'upper': upper, 'pat': pat}
        other_eq = [c.get('equals') is not None for c in cur['cons']]
        for i, c in enumerate(cur['cons']):
            if len(cur['dvs']) + i != forced and rng.random() > 0.5:
                continue
            rows = np.arange(m) if c.get('indices') is None else np.asarray(c['indices'], int) % m
            du = c.get('units') or cur['gunits']
            vd = af.to_units(gfeas[rows], cur['gunits'], du)
            fac, _ = af.unit_affine(cur['gunits'], du)
            others = any(e for k, e in enumerate(other_eq) if k != i)
            if allow_eq and not others and rows.size <= max(1, n - 1) and rng.random() < 0.3:
                eq = float(_r(vd[0], 6)) if (rows.size == 1 and rng.random() < 0.5) else _r(vd, 6)
                bd['cons'][i] = {'lower': None, 'upper': None, 'equals': eq, 'pat': 'E' * rows.size}
                other_eq[i] = True
            else:
                form = ('scalar', 'array')[int(rng.integers(2))]
                lo, hi, pat = qpspec._bound_pattern(rng, vd, form, margin * fac + 1e-3)
                bd['cons'][i] = {'lower': lo, 'upper': hi, 'equals': None, 'pat': pat, 'form': form}
                other_eq[i] = False
        st['bounds'] = bd
    if 'remodel' in kinds:
        dA = np.asarray(_r(rng.normal(size=(m, n)) * 0.4, 3))
        A2 = A + dA
        st['remodel'] = {'A': A2.tolist(), 'b': (b - dA @ xf).tolist(),
                         'c': (np.asarray(cur['c'], float) + np.asarray(_r(rng.normal(size=n) * 0.5, 3))).tolist()}
        st['resetup'] = True
    if 'resetup' in kinds:
        st['resetup'] = True
    st['warm'] = bool('x0' not in kinds and rng.random() < 0.4)
    st['kinds'] = sorted(kinds)
    new = apply_stage(cur, st, with_x0=False)
    st['x0'] = start_point(rng, new, 0.05 if any(c.get('linear') for c in cur['cons']) else 0.3)
    return st


def apply_stage(cur, st, with_x0=True):
    """-> the spec a fresh Problem would be declared with after the changes of `st`."""
    s = copy.deepcopy(cur)
    if 'p' in st:
        s['par']['p'] = float(st['p'])
    sc = st.get('sc')
    if sc:
        for grp in ('dvs', 'cons'):
            for i, v in enumerate(sc[grp]):
                if v != 'keep':
                    s[grp][i]['sc'] = copy.deepcopy(v)
        if sc['obj'] != 'keep':
            s['obj']['sc'] = copy.deepcopy(sc['obj'])
    bd = st.get('bounds')
    if bd:
        for grp in ('dvs', 'cons'):
            for i, v in enumerate(bd[grp]):
                if v == 'keep':
                    continue
                tgt = s[grp][i]
                tgt.pop('form', None)
                for k in ('lower', 'upper', 'pat', 'form'):
                    if k in v:
                        tgt[k] = copy.deepcopy(v[k])
                if grp == 'cons':
                    tgt['equals'] = copy.deepcopy(v.get('equals'))
    rm = st.get('remodel')
    if rm:
        for k in ('A', 'b', 'c'):
            s[k] = copy.deepcopy(rm[k])
    if with_x0 and st.get('x0') is not None:
        s['x0'] = list(st['x0'])
    return s


def gen_history(rng, spec0, nstages, allow_eq, mag_range, acceptable, tries=8):
    """-> list of nstages-1 stages; every intermediate spec satisfies acceptable(effective(spec))."""
    cur = spec0
    out = []
    for _ in range(1, nstages):
        st = None
        for _t in range(tries):
            cand = draw_stage(rng, cur, allow_eq, mag_range)
            if acceptable(effective(apply_stage(cur, cand))):
                st = cand
                break
        if st is None:
            st = {'kinds': ['x0'], 'warm': False, 'x0': start_point(rng, cur, 0.05)}
        out.append(st)
        cur = apply_stage(cur, st)
    return out
