"""Reference evaluation of the tiny QP problems used by C20/C21/C22 (pure NumPy, no openmdao).

Spec (JSON-able dict):
  sizes  [na, nb]          sizes of the two model inputs 'xa', 'xb' (nb may be 0); z = [xa; xb]
  xunits [ua, ub]          model units of the inputs (None = unitless)
  gunits, funits           model units of the outputs g (size m) and f (scalar)
  Q (n x n SPD), c (n), A (m x n), b (m), x0 (n, model units)
      f = 1/2 z'Qz + c'z        g = A z + b
  dvs  [{name, indices, lower, upper, units, sc}]
  cons [{name 'g', alias, indices, lower, upper, equals, linear, units, sc}]
  obj  {units, sc}
bounds are None | scalar | list (per element, +-1e30 = hole), declared in `units`, unscaled.
"""
import numpy as np

from omv.ref import affine as af
from omv.ref import qp as qpref

INF_BOUND = af.INF_BOUND


class RefModel:
    def __init__(self, spec):
        self.spec = spec
        self.na, self.nb = spec['sizes']
        self.n = self.na + self.nb
        self.Q = np.asarray(spec['Q'], float).reshape(self.n, self.n)
        self.c = np.asarray(spec['c'], float).ravel()
        self.A = np.asarray(spec['A'], float).reshape(-1, self.n)
        self.b = np.asarray(spec['b'], float).ravel()
        self.m = self.A.shape[0]
        self.x0 = np.asarray(spec['x0'], float).ravel()
        # design variables: positions in z
        self.dvs = []
        for d in spec['dvs']:
            off, size, mu = (0, self.na, spec['xunits'][0]) if d['name'] == 'xa' else \
                (self.na, self.nb, spec['xunits'][1])
            idx = np.arange(size) if d.get('indices') is None else np.asarray(d['indices'], int) % size
            pos = off + idx
            self.dvs.append({'key': d['name'], 'pos': pos, 'size': pos.size, 'munits': mu,
                             'units': d.get('units') or mu, 'sc': d.get('sc'), 'd': d})
        self.cons = []
        for cdef in spec['cons']:
            idx = np.arange(self.m) if cdef.get('indices') is None else \
                np.asarray(cdef['indices'], int) % self.m
            self.cons.append({'key': cdef.get('alias') or cdef['name'], 'rows': idx, 'size': idx.size,
                              'munits': spec['gunits'], 'units': cdef.get('units') or spec['gunits'],
                              'sc': cdef.get('sc'), 'd': cdef})
        o = spec['obj']
        self.obj = {'key': 'f', 'size': 1, 'munits': spec['funits'],
                    'units': o.get('units') or spec['funits'], 'sc': o.get('sc'), 'd': o}

    # ---- values ------------------------------------------------------------------------------
    def f(self, z):
        return float(0.5 * z @ self.Q @ z + self.c @ z)

    def g(self, z):
        return self.A @ z + self.b

    def _triple(self, voi, vm):
        vd = af.to_units(vm, voi['munits'], voi['units'])
        return {'model': np.asarray(vm, float), 'declared': vd, 'scaled': af.scale(vd, voi['sc'])}

    def dv_vals(self, z):
        return {d['key']: self._triple(d, z[d['pos']]) for d in self.dvs}

    def con_vals(self, z):
        g = self.g(z)
        return {c['key']: self._triple(c, g[c['rows']]) for c in self.cons}

    def obj_vals(self, z):
        return {'f': self._triple(self.obj, np.array([self.f(z)]))}

    def z_from_scaled(self, z, scaled):
        """model z after the driver sets the design variables from optimizer-space values."""
        z = np.array(z, float)
        for d in self.dvs:
            vd = af.unscale(scaled[d['key']], d['sc'])
            z[d['pos']] = af.from_units(vd, d['munits'], d['units'])
        return z

    # ---- bounds ------------------------------------------------------------------------------
    def bounds(self, voi):
        d = voi['d']
        if d.get('equals') is not None:
            e = np.asarray(d['equals'], float) * np.ones(voi['size'])
            return e, e.copy()
        return af.bound_arrays(d.get('lower'), d.get('upper'), voi['size'])

    # ---- jacobian ----------------------------------------------------------------------------
    def _slope(self, voi):
        """d(scaled)/d(model) per element and d(declared)/d(model)."""
        ufac, _ = af.unit_affine(voi['munits'], voi['units'])
        s, _ = af.scaler_adder(voi['sc'], voi['size'])
        return s * ufac, ufac * np.ones(voi['size'])

    def jac(self, z, scaled=True):
        """{(of_key, wrt_key): block} in optimizer space (scaled=True) or declared units."""
        out = {}
        gradf = self.Q @ z + self.c
        for d in self.dvs:
            sd, ud = self._slope(d)
            den = sd if scaled else ud
            so, uo = self._slope(self.obj)
            num = so if scaled else uo
            out[('f', d['key'])] = (num[:, None] * gradf[d['pos']][None, :]) / den[None, :]
            for c in self.cons:
                sc_, uc = self._slope(c)
                num = sc_ if scaled else uc
                out[(c['key'], d['key'])] = num[:, None] * self.A[np.ix_(c['rows'], d['pos'])] / den[None, :]
        return out

    # ---- exact optimum -----------------------------------------------------------------------
    def free_positions(self):
        pos = []
        for d in self.dvs:
            pos.extend(d['pos'].tolist())
        return np.asarray(pos, int)

    def exact(self):
        """Exact optimum over the design variables (other inputs fixed at x0).

        Returns None if infeasible, else dict with z (model units), per-voi multipliers in *declared*
        units (d f_declared / d bound_declared convention: grad_f + sum lam grad_g = 0 with f, g, x all in
        their declared units), qp (raw result), row maps.
        """
        free = self.free_positions()
        if len(set(free.tolist())) != free.size:
            raise ValueError('overlapping design variables')
        nf = free.size
        P = np.zeros((self.n, nf))
        P[free, np.arange(nf)] = 1.0
        z0f = self.x0.copy()
        z0f[free] = 0.0
        Qy = P.T @ self.Q @ P
        cy = P.T @ (self.Q @ z0f + self.c)
        rows, lo, hi, owner = [], [], [], []
        for c in self.cons:
            ufac, uoff = af.unit_affine(c['munits'], c['units'])
            l, h = self.bounds(c)
            for k, r in enumerate(c['rows']):
                a = self.A[r]
                const = a @ z0f + self.b[r]
                # declared value = (a'Py + const + uoff)*ufac
                rows.append(ufac * (a @ P))
                sh = ufac * (const + uoff)
                lo.append(-np.inf if l[k] <= -INF_BOUND else l[k] - sh)
                hi.append(np.inf if h[k] >= INF_BOUND else h[k] - sh)
                owner.append(('con', c['key'], k))
        for d in self.dvs:
            ufac, uoff = af.unit_affine(d['munits'], d['units'])
            l, h = self.bounds(d)
            for k, p in enumerate(d['pos']):
                a = np.zeros(nf)
                a[np.where(free == p)[0][0]] = ufac
                rows.append(a)
                sh = ufac * uoff
                lo.append(-np.inf if l[k] <= -INF_BOUND else l[k] - sh)
                hi.append(np.inf if h[k] >= INF_BOUND else h[k] - sh)
                owner.append(('dv', d['key'], k))
        Ar = np.asarray(rows, float).reshape(len(rows), nf)
        res = qpref.solve_qp(Qy, cy, Ar, np.asarray(lo, float), np.asarray(hi, float))
        if res is None:
            return None
        z = z0f + P @ res['x']
        # multipliers: rows are already gradients of the declared-unit quantities wrt model y, and
        # the objective gradient is in model units of f; convert f to declared units (factor ufac_f):
        #   ufac_f*grad f + sum (ufac_f*lam_i) row_i = 0
        uff, _ = af.unit_affine(self.obj['munits'], self.obj['units'])
        lam = res['lam'] * uff
        mult = {}
        act = {}
        for (kind, key, k), lv, av in zip(owner, lam, res['active']):
            size = [v for v in (self.cons if kind == 'con' else self.dvs) if v['key'] == key][0]['size']
            mult.setdefault((kind, key), np.zeros(size))[k] = lv
            act.setdefault((kind, key), np.zeros(size, int))[k] = av
        return {'z': z, 'mult': mult, 'active': act, 'qp': res, 'rows': Ar, 'lo': np.asarray(lo),
                'hi': np.asarray(hi), 'owner': owner, 'f': self.f(z)}

    def mu_min(self):
        free = self.free_positions()
        return float(np.linalg.eigvalsh(self.Q[np.ix_(free, free)])[0])


# ----------------------------------------------------------------------------------------------
# random specs
# ----------------------------------------------------------------------------------------------
def _r(x, nd=4):
    """round generated numbers so that specs are short and JSON round-trips exactly."""
    return np.round(np.asarray(x, float), nd).tolist()


def rand_scaling(rng, size, allow_neg=False, kinds=('none', 'sa', 'sa_arr', 'ref', 'ref_arr'), kind=None,
                 mag_range=(0.02, 50.0)):
    kind = kind or kinds[rng.integers(len(kinds))]
    if kind == 'none':
        return None

    def mag(k):
        v = np.exp(rng.uniform(np.log(mag_range[0]), np.log(mag_range[1]), size=k))
        if allow_neg:
            v = v * rng.choice([-1.0, 1.0], size=k)
        return v
    arr = kind.endswith('_arr') and size > 1
    k = size if arr else 1
    if kind.startswith('sa'):
        s = mag(k)
        a = rng.normal(size=k) * 2.0
        mode = rng.integers(3)
        sc = {'kind': 'sa', 'scaler': _r(s) if arr else float(_r(s)[0]),
              'adder': _r(a) if arr else float(_r(a)[0])}
        if mode == 1:
            sc['adder'] = None
        elif mode == 2 and not arr:
            sc['scaler'] = None
        if sc['scaler'] is None and sc['adder'] is None:
            return None
        if not allow_neg:
            pass
        return sc
    r0 = rng.normal(size=k) * 2.0
    d = mag(k)
    # keep |ref - ref0| well away from 0 after rounding
    r = r0 + d
    sc = {'kind': 'ref', 'ref': _r(r) if arr else float(_r(r)[0]),
          'ref0': _r(r0) if arr else float(_r(r0)[0])}
    mode = rng.integers(3)
    if mode == 1:
        sc['ref0'] = None
        sc['ref'] = _r(d) if arr else float(_r(d)[0])
    s, _ = af.scaler_adder(sc, size)
    if not np.all(np.isfinite(s)) or np.any(np.abs(s) > 1e3) or np.any(np.abs(s) < 1e-3):
        return None
    if not allow_neg and np.any(s < 0):
        return None
    return sc


def rand_units(rng, family, p=0.5, families=None):
    """-> (model units, declared units or None)."""
    families = families or af.FAMILIES
    if family is None or rng.random() > p:
        return (None, None) if family is None or rng.random() < 0.5 else \
            (families[family][rng.integers(len(families[family]))], None)
    fam = families[family]
    return fam[rng.integers(len(fam))], fam[rng.integers(len(fam))]


def _bound_pattern(rng, vals, form, margin, patterns='LUBN'):
    """Bounds around the feasible declared values `vals`.

    form 'scalar': the same scalar bound(s) for all elements; 'array': per-element list with holes.
    Returns lower, upper, pattern-string (one letter per element: L, U, B, N).
    """
    size = vals.size
    if form == 'scalar':
        pat = 'LUB'[rng.integers(3)]
        lo = float(_r(vals.min() - margin * rng.random())) if pat in 'LB' else None
        hi = float(_r(vals.max() + margin * rng.random())) if pat in 'UB' else None
        if lo is not None and hi is not None and hi - lo < 1e-3:
            hi = lo + 1e-3
        return lo, hi, pat * size
    pat = ''.join(patterns[rng.integers(len(patterns))] for _ in range(size))
    if set(pat) == {'N'}:
        pat = 'B' + pat[1:]
    lo = []
    hi = []
    for k, p in enumerate(pat):
        lo.append(float(_r(vals[k] - margin * rng.random())) if p in 'LB' else -INF_BOUND)
        hi.append(float(_r(vals[k] + margin * rng.random())) if p in 'UB' else INF_BOUND)
        if p == 'B' and hi[-1] - lo[-1] < 1e-3:
            hi[-1] = lo[-1] + 1e-3
    lower = lo if any(p in 'LB' for p in pat) else None
    upper = hi if any(p in 'UB' for p in pat) else None
    return lower, upper, pat


def random_spec(rng, n_max=4, m_max=4, allow_neg=False, scaling=True, units=True, dv_indices=False,
                equality=True, split_cons=True, dv_bounds='some', margin=1.0, linear=None,
                scale_kinds=('none', 'sa', 'sa_arr', 'ref', 'ref_arr'), dv_bound_patterns='LUBN',
                units_p=0.5, offsets=True, families=None, mag_range=(0.02, 50.0)):
    """Random feasible QP spec.  All structure decisions come from rng."""
    n = int(rng.integers(1, n_max + 1))
    if n == 1 or rng.random() < 0.4:
        na, nb = n, 0
    else:
        na = int(rng.integers(1, n))
        nb = n - na
    m = int(rng.integers(1, m_max + 1))
    Q = qpref.random_spd(rng, n, 100.0)
    xfeas = rng.normal(size=n) * 2.0
    xstar_u = rng.normal(size=n) * 3.0          # unconstrained optimum
    c = -Q @ xstar_u
    A = rng.normal(size=(m, n))
    A[np.abs(A) < 0.1] = 0.3
    b = rng.normal(size=m)
    Q, c, A, b, xfeas = (np.asarray(_r(v, 6)) for v in (Q, c, A, b, xfeas))
    Q = 0.5 * (Q + Q.T)
    fam_a = 'length' if units else None
    fam_b = ('temp' if offsets else 'time') if units else None
    ua, da = rand_units(rng, fam_a, units_p, families)
    ub, db = rand_units(rng, fam_b, units_p, families)
    ug, dg = rand_units(rng, 'time' if units else None, units_p, families)
    uf, df = rand_units(rng, 'length' if units and rng.random() < 0.3 else None, units_p, families)
    spec = {'sizes': [na, nb], 'xunits': [ua, ub], 'gunits': ug, 'funits': uf,
            'Q': Q.tolist(), 'c': c.tolist(), 'A': A.tolist(), 'b': b.tolist()}
    # ---- design variables
    dvs = []
    free_pos = []
    x0 = xfeas + rng.normal(size=n) * 0.3
    for name, off, size, mu, du in (('xa', 0, na, ua, da), ('xb', na, nb, ub, db)):
        if size == 0:
            continue
        idx = None
        if dv_indices and size > 1 and rng.random() < 0.4:
            k = int(rng.integers(1, size))
            idx = sorted(rng.choice(size, size=k, replace=False).tolist())
            if rng.random() < 0.3:
                idx = [i - size for i in idx]
        pos = off + (np.arange(size) if idx is None else np.asarray(idx) % size)
        free_pos.extend(pos.tolist())
        vd = af.to_units(xfeas[pos], mu, du or mu)
        fac, _ = af.unit_affine(mu, du or mu)
        lower = upper = None
        pat = 'N' * pos.size
        mode = dv_bounds if dv_bounds != 'some' else ('none', 'scalar', 'array')[rng.integers(3)]
        if mode == 'all':
            mode = ('scalar', 'array')[rng.integers(2)]
        if mode != 'none':
            lower, upper, pat = _bound_pattern(rng, vd, mode, margin * 2.0 * fac + 1e-3,
                                               patterns=dv_bound_patterns)
        sc = rand_scaling(rng, pos.size, allow_neg, kinds=scale_kinds, mag_range=mag_range) if scaling else None
        dvs.append({'name': name, 'indices': idx, 'lower': lower, 'upper': upper, 'units': du, 'sc': sc,
                    'pat': pat})
        # start inside the bounds (declared units -> model)
        lo_a, hi_a = af.bound_arrays(lower, upper, pos.size)
        x0d = af.to_units(x0[pos], mu, du or mu)
        lo_f = np.where(lo_a <= -INF_BOUND, -np.inf, lo_a)
        hi_f = np.where(hi_a >= INF_BOUND, np.inf, hi_a)
        both = np.isfinite(lo_f) & np.isfinite(hi_f)
        delta = np.where(both, np.minimum(1e-3 * fac, np.where(both, hi_f - lo_f, 1.0) / 4.0), 1e-3 * fac)
        x0d = np.minimum(np.maximum(x0d, lo_f + delta), hi_f - delta)
        x0[pos] = af.from_units(x0d, mu, du or mu)
    # fixed (non design) entries take part in feasibility: keep them at xfeas
    free = np.asarray(free_pos, int)
    fixed = np.setdiff1d(np.arange(n), free)
    x0[fixed] = xfeas[fixed]
    spec['x0'] = _r(x0, 12)
    spec['xfeas'] = xfeas.tolist()      # the point the bounds were drawn around (omv/ref/qphist.py)
    gfeas = A @ xfeas + b
    # ---- constraints
    cons = []
    groups = [None]
    if split_cons and m > 1 and rng.random() < 0.4:
        k = int(rng.integers(1, m))
        perm = rng.permutation(m).tolist()
        groups = [sorted(perm[:k]), sorted(perm[k:])]
        if rng.random() < 0.3:
            groups[1] = [i - m for i in groups[1]]
    for gi, idx in enumerate(groups):
        rows = np.arange(m) if idx is None else np.asarray(idx) % m
        du = dg if (gi == 0 or rng.random() < 0.5) else None
        vd = af.to_units(gfeas[rows], ug, du or ug)
        fac, _ = af.unit_affine(ug, du or ug)
        cd = {'name': 'g', 'alias': None if gi == 0 else 'g_alias', 'indices': idx, 'lower': None,
              'upper': None, 'equals': None, 'units': du,
              'linear': bool(rng.random() < 0.3) if linear is None else bool(linear),
              'sc': rand_scaling(rng, rows.size, allow_neg, kinds=scale_kinds, mag_range=mag_range) if scaling else None}
        if equality and rows.size <= max(1, len(free) - 1) and rng.random() < 0.2 and \
                not any(c_['equals'] is not None for c_ in cons):
            if rows.size == 1 and rng.random() < 0.5:
                cd['equals'] = float(_r(vd[0], 6))
            else:
                cd['equals'] = _r(vd, 6)
            cd['pat'] = 'E' * rows.size
        else:
            form = ('scalar', 'array')[rng.integers(2)]
            cd['lower'], cd['upper'], cd['pat'] = _bound_pattern(rng, vd, form, margin * fac + 1e-3)
            cd['form'] = form
        cons.append(cd)
    spec['dvs'] = dvs
    spec['cons'] = cons
    spec['obj'] = {'units': df, 'sc': rand_scaling(rng, 1, False, kinds=('none', 'sa', 'ref'), mag_range=mag_range) if scaling
                   else None}
    return spec


def structure(spec):
    """Structural description (no random values) used for fingerprints / cells."""
    def voi(d, size):
        return {'idx': None if d.get('indices') is None else len(d['indices']),
                'lo': None if d.get('lower') is None else ('arr' if isinstance(d['lower'], list) else 's'),
                'hi': None if d.get('upper') is None else ('arr' if isinstance(d['upper'], list) else 's'),
                'eq': None if d.get('equals') is None else ('arr' if isinstance(d['equals'], list) else 's'),
                'pat': d.get('pat'), 'units': d.get('units'), 'sc': af.scaling_tags(d.get('sc'), size),
                'lin': d.get('linear')}
    return {'sizes': spec['sizes'], 'm': len(spec['b']), 'xunits': spec['xunits'], 'gunits': spec['gunits'],
            'funits': spec['funits'],
            'dvs': [voi(d, len(d.get('pat') or 'x')) for d in spec['dvs']],
            'cons': [voi(c, len(c.get('pat') or 'x')) for c in spec['cons']],
            'obj': voi(spec['obj'], 1)}
