"""Reference formulas for OpenMDAO's stock math components, written from their documentation.

Pure NumPy/SciPy; must not import openmdao.  All functions accept complex arrays (complex-step safe).
"""
import numpy as np


def add_subtract(inputs, scaling_factors=None):
    """result = a*sf_a + b*sf_b + ... (element-wise)."""
    if scaling_factors is None:
        scaling_factors = [1.0] * len(inputs)
    out = 0.0
    for x, sf in zip(inputs, scaling_factors):
        out = out + sf * np.asarray(x)
    return out


def mux(inputs, axis):
    """Stack vec_size inputs of identical shape along a new axis `axis`."""
    inputs = [np.asarray(x) for x in inputs]
    shp = list(inputs[0].shape)
    shp.insert(axis, len(inputs))
    out = np.zeros(shp, dtype=np.result_type(*inputs))
    for i, x in enumerate(inputs):
        idx = [slice(None)] * len(shp)
        idx[axis] = i
        out[tuple(idx)] = x
    return out


def dot_product(a, b):
    """c[n] = sum_i a[n, i] * b[n, i]   (a, b of shape (vec_size, length))."""
    return np.sum(np.asarray(a) * np.asarray(b), axis=-1)


def cross_product(a, b):
    """c = a x b row-wise; rows are 3-vectors."""
    a = np.asarray(a)
    b = np.asarray(b)
    c = np.zeros(np.broadcast(a, b).shape, dtype=np.result_type(a, b))
    c[..., 0] = a[..., 1] * b[..., 2] - a[..., 2] * b[..., 1]
    c[..., 1] = a[..., 2] * b[..., 0] - a[..., 0] * b[..., 2]
    c[..., 2] = a[..., 0] * b[..., 1] - a[..., 1] * b[..., 0]
    return c


def matrix_vector_product(A, x):
    """b[v, i] = sum_j A[v, i, j] x[v, j]."""
    A = np.asarray(A)
    x = np.asarray(x)
    out = np.zeros(A.shape[:2], dtype=np.result_type(A, x))
    for v in range(A.shape[0]):
        for i in range(A.shape[1]):
            out[v, i] = np.sum(A[v, i, :] * x[v, :])
    return out


def vector_magnitude(a):
    """|a| row-wise: sqrt(a . a)."""
    a = np.asarray(a)
    return np.sqrt(np.sum(a * a, axis=-1))


def _fnorm(rhs, normalize):
    """Normalization of EQConstraintComp / BalanceComp (documented piecewise definition)."""
    rhs = np.asarray(rhs)
    if not normalize:
        return np.ones(rhs.shape, dtype=rhs.dtype)
    big = np.abs(rhs.real) >= 2.0
    absr = np.where(rhs.real < 0, -rhs, rhs)       # complex-step safe |rhs|
    return np.where(big, absr, 0.25 * rhs ** 2 + 1.0)


def eq_constraint(lhs, rhs, mult=None, normalize=True):
    """(mult*lhs - rhs) / f_norm(rhs)."""
    lhs = np.asarray(lhs)
    rhs = np.asarray(rhs)
    m = 1.0 if mult is None else np.asarray(mult)
    return (m * lhs - rhs) / _fnorm(rhs, normalize)


balance_residual = eq_constraint


def linear_system_solve(A, b, vec_size, vectorize_A):
    """x such that A x = b for each of the vec_size systems."""
    A = np.asarray(A)
    b = np.asarray(b)
    if vec_size == 1:
        return np.linalg.solve(A.reshape(A.shape[-2:]), b.reshape(-1)).reshape(b.shape)
    out = np.zeros(b.shape, dtype=np.result_type(A, b))
    for j in range(vec_size):
        Aj = A[j] if (vectorize_A and A.ndim == 3) else A
        out[j] = np.linalg.solve(Aj, b[j])
    return out


def linear_system_residual(A, b, x, vec_size, vectorize_A):
    """R = A x - b."""
    A = np.asarray(A)
    b = np.asarray(b)
    x = np.asarray(x)
    if vec_size == 1:
        return (A.reshape(A.shape[-2:]) @ x.reshape(-1) - b.reshape(-1)).reshape(b.shape)
    out = np.zeros(b.shape, dtype=np.result_type(A, b, x))
    for j in range(vec_size):
        Aj = A[j] if (vectorize_A and A.ndim == 3) else A
        out[j] = Aj @ x[j] - b[j]
    return out


# ----------------------------------------------------------------------------------------------
# splines: every method is linear in the control values except akima; the reference returns values
# ----------------------------------------------------------------------------------------------
def _bracket(xg, x):
    i = int(np.searchsorted(xg, x, side='right') - 1)
    return min(max(i, 0), len(xg) - 2)


def _lagrange(xs, ys, x):
    tot = 0.0
    for j in range(len(xs)):
        w = 1.0
        for k in range(len(xs)):
            if k != j:
                w = w * (x - xs[k]) / (xs[j] - xs[k])
        tot = tot + w * ys[j]
    return tot


def spline(method, x_cp, y_cp, x, order=4):
    """y(x) for one row of control values (complex y_cp allowed where the method is linear in y).

    slinear  : piecewise linear through the control points
    lagrange2: quadratic through the bracketing interval [i, i+1] and point i+2 (shifted left at the end)
    lagrange3: cubic through points i-1..i+2 (shifted at both ends)
    cubic    : natural cubic spline
    akima    : Akima (1970) spline
    bsplines : clamped uniform B-spline of the given order over the interpolation range
    scipy_*  : interpolating B-spline of degree 1/3/5 (not-a-knot)
    """
    import scipy.interpolate as si
    x_cp = None if x_cp is None else np.asarray(x_cp, dtype=float)
    y_cp = np.asarray(y_cp)
    x = np.asarray(x, dtype=float)
    if method == 'slinear':
        out = np.zeros(x.shape, dtype=y_cp.dtype)
        for k, xv in enumerate(x):
            i = _bracket(x_cp, xv)
            t = (xv - x_cp[i]) / (x_cp[i + 1] - x_cp[i])
            out[k] = (1.0 - t) * y_cp[i] + t * y_cp[i + 1]
        return out
    if method in ('lagrange2', 'lagrange3'):
        n = len(x_cp)
        out = np.zeros(x.shape, dtype=y_cp.dtype)
        for k, xv in enumerate(x):
            i = _bracket(x_cp, xv)
            if method == 'lagrange2':
                s = min(i, n - 3)
                sl = slice(s, s + 3)
            else:
                s = min(max(i - 1, 0), n - 4)
                sl = slice(s, s + 4)
            out[k] = _lagrange(x_cp[sl], y_cp[sl], xv)
        return out

    def lin(fun):
        # methods linear in y: evaluate real and imaginary parts separately
        if np.iscomplexobj(y_cp):
            return fun(y_cp.real) + 1j * fun(y_cp.imag)
        return fun(y_cp)

    if method == 'cubic':
        return lin(lambda yy: si.CubicSpline(x_cp, yy, bc_type='natural')(x))
    if method == 'scipy_slinear':
        return lin(lambda yy: si.make_interp_spline(x_cp, yy, k=1)(x))
    if method == 'scipy_cubic':
        return lin(lambda yy: si.make_interp_spline(x_cp, yy, k=3)(x))
    if method == 'scipy_quintic':
        return lin(lambda yy: si.make_interp_spline(x_cp, yy, k=5)(x))
    if method == 'bsplines':
        n_cp = len(y_cp)
        knots = np.concatenate([np.zeros(order - 1), np.linspace(0.0, 1.0, n_cp - order + 2), np.ones(order - 1)])
        t = (x - x[0]) / (x[-1] - x[0])
        return lin(lambda yy: si.BSpline(knots, yy, order - 1)(t))
    if method == 'akima':
        if np.iscomplexobj(y_cp):
            raise TypeError('akima reference is real-only (non-linear in y); differentiate by finite differences')
        return si.Akima1DInterpolator(x_cp, y_cp)(x)
    raise KeyError(method)
