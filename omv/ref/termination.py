"""Reference trace specification for the termination contract of an iterative solver (C09).

Pure Python/NumPy, no OpenMDAO import.  The checker is fed ONLY with what the solver itself observed
(the sequence of residual norms returned by its norm evaluation), how many iteration bodies it ran,
whether/what it reported, and the option values.  It recomputes everything else (convergence of each
iterate, the stall counter) itself.

Contract (property C09):
  1. at most `maxiter` iterations (iteration = body, plus a solver-specific first sweep that the caller
     passes as `extra_iters`); the single forced iteration under complex step is exempt from 2 only.
  2. no iteration body starts after an iterate that meets atol or rtol, nor after the stall rule fired.
  3. the solver does not give up early: stopping with a finite, unconverged norm needs maxiter or a stall.
  4. failure reported  <=>  the last iterate meets neither tolerance (NaN/inf/maxiter/stall);
     AnalysisError raised <=> failure reported and err_on_non_converge.
  5. (= 4, success side) a solve that reports nothing leaves conv(n_last).
"""
import math


def conv(n, norm0, atol, rtol):
    """IEEE semantics: NaN never converges."""
    if n <= atol:
        return True
    try:
        r = n / norm0
    except ZeroDivisionError:  # cannot happen: norm0 is never 0
        return False
    return r <= rtol


def stall_fired_at(norms, norm0, stall_limit, stall_tol, stall_tol_type, anchor0_abs_quirk=False):
    """Index k (1-based iterate index) at which `stall_limit` consecutive iterates were identical, within
    stall_tol, to the iterate that started the plateau; None if never.

    The plateau reference (anchor) is the last iterate that differed by more than stall_tol; the initial
    anchor is iterate 0 expressed in the norm type that is compared (relative: n0/norm0 == 1 unless n0 is 0).
    `anchor0_abs_quirk=True` instead starts from the absolute norm0 whatever the type (used only to
    *classify* a discrepancy, never as the oracle).
    """
    if not stall_limit or stall_limit <= 0:
        return None
    rel = stall_tol_type == 'rel'
    if anchor0_abs_quirk or not rel:
        anchor = norm0
    else:
        anchor = norms[0] / norm0
        if norms[0] == 0.0:       # n0 == 0 -> norm0 == 1: nothing iterates anyway
            anchor = 1.0
    count = 0
    for k in range(1, len(norms)):
        v = norms[k] / norm0 if rel else norms[k]
        d = abs(anchor - v)
        if d <= stall_tol:        # NaN/inf differences are never <= tol
            count += 1
            if count >= stall_limit:
                return k
        else:
            count = 0
            anchor = v
    return None


def check_trace(norms, bodies, reports, raised, opts, nonlinear=True, extra_iters=0, forced_first=False,
                anchor0_abs_quirk=False):
    """Return (violated clauses [(clause_id, text)], stall index or None, conv flags) for one solve.

    norms   : norms observed by the solver, norms[0] the initial one; len == bodies + 1
    bodies  : number of iteration bodies executed
    reports : number of times a failure was reported
    raised  : True if AnalysisError escaped the solve
    opts    : dict(maxiter, atol, rtol, err_on_non_converge[, stall_limit, stall_tol, stall_tol_type])
    forced_first : the solver ran under complex step (first body is forced)
    """
    out = []
    maxiter, atol, rtol = opts['maxiter'], opts['atol'], opts['rtol']
    if len(norms) != bodies + 1:
        out.append(('norm-evals', 'observed %d norms for %d bodies' % (len(norms), bodies)))
        return out, None, []
    n0 = norms[0]
    norm0 = n0 if n0 != 0.0 else 1.0
    cv = [conv(n, norm0, atol, rtol) for n in norms]
    fired = None
    if nonlinear:
        fired = stall_fired_at(norms, norm0, opts.get('stall_limit', 0), opts.get('stall_tol', 0.0),
                               opts.get('stall_tol_type', 'rel'), anchor0_abs_quirk)
    iters = bodies + extra_iters
    # 1
    if iters > maxiter:
        out.append(('over-maxiter', '%d iterations > maxiter=%d' % (iters, maxiter)))
    # 2
    for j in range(1, bodies + 1):
        if cv[j - 1] and not (forced_first and j == 1):
            out.append(('body-after-converged', 'iteration %d started after converged norm %r' %
                        (j, norms[j - 1])))
            break
        if fired is not None and fired <= j - 1:
            out.append(('body-after-stall', 'iteration %d started although %d identical norms were seen '
                        'at iterate %d' % (j, opts.get('stall_limit', 0), fired)))
            break
    last = norms[-1]
    # 3
    if (not cv[-1]) and math.isfinite(last) and iters < maxiter and fired is None \
            and not (forced_first and bodies == 0):
        out.append(('gave-up-early', 'stopped after %d of %d iterations with unconverged finite norm %r, '
                    'no stall' % (iters, maxiter, last)))
    # 4 / 5
    should_fail = not cv[-1]
    if reports > 1:
        out.append(('failure-reported-twice', '%d failure reports' % reports))
    if reports and not should_fail:
        out.append(('failure-reported-although-converged',
                    'failure reported but last norm %r meets a tolerance (atol=%r rtol=%r norm0=%r)' %
                    (last, atol, rtol, norm0)))
    if should_fail and not reports:
        why = 'nan' if last != last else ('inf' if math.isinf(last) else
                                          ('stall' if fired is not None else 'maxiter'))
        out.append(('failure-not-reported:' + why, 'no failure reported but last norm %r meets no tolerance'
                    % (last,)))
    if reports and bool(raised) != bool(opts['err_on_non_converge']):
        out.append(('analysis-error-flag', 'failure reported, err_on_non_converge=%r, raised=%r' %
                    (opts['err_on_non_converge'], raised)))
    if raised and not reports:
        out.append(('analysis-error-without-report', 'AnalysisError without a failure report'))
    return out, fired, cv
