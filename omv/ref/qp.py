"""Exact solution of small strictly convex QPs by enumeration of KKT systems (pure NumPy).

    minimise   1/2 x'Qx + c'x      subject to   lo <= A x <= hi   (row-wise)

Q symmetric positive definite (n <= ~5), rows of A include simple bounds as identity rows (see
`stack_bounds`).  `lo[i] == -inf` / `hi[i] == +inf` mean "no bound"; `lo[i] == hi[i]` is an equality.

Because the problem is strictly convex, a point is THE optimum iff it satisfies the KKT conditions, so
the first enumerated working set whose KKT solution is primal feasible and dual feasible is the
answer; every returned solution is re-certified by `kkt_residuals`.

Sign convention of the multipliers (the one used by OpenMDAO's compute_lagrange_multipliers):

    grad f(x) + A' lam = 0,        lam_i >= 0 on an active upper bound, lam_i <= 0 on an active lower bound.

This module must not import openmdao.
"""
import itertools

import numpy as np

INF = np.inf


def stack_bounds(A, lo, hi, xl, xu):
    """Append identity rows for the finite simple bounds xl <= x <= xu.  Returns A, lo, hi, nrows_general."""
    n = len(xl)
    A = np.zeros((0, n)) if A is None or len(A) == 0 else np.atleast_2d(np.asarray(A, float))
    lo = np.asarray(lo, float).ravel() if len(A) else np.zeros(0)
    hi = np.asarray(hi, float).ravel() if len(A) else np.zeros(0)
    m = A.shape[0]
    return (np.vstack([A, np.eye(n)]), np.concatenate([lo, np.asarray(xl, float)]),
            np.concatenate([hi, np.asarray(xu, float)]), m)


def kkt_residuals(Q, c, A, lo, hi, x, lam):
    """Return (stationarity, primal infeasibility, dual sign violation, complementarity) - all >= 0."""
    Q = np.asarray(Q, float)
    g = Q @ x + c
    stat = np.max(np.abs(g + A.T @ lam)) if len(x) else 0.0
    ax = A @ x
    prim = 0.0
    dual = 0.0
    comp = 0.0
    for i in range(A.shape[0]):
        prim = max(prim, lo[i] - ax[i], ax[i] - hi[i])
        if lo[i] == hi[i]:
            continue
        du = ax[i] - lo[i] if np.isfinite(lo[i]) else INF     # distance to lower
        dd = hi[i] - ax[i] if np.isfinite(hi[i]) else INF     # distance to upper
        if lam[i] > 0:      # claims upper active
            comp = max(comp, min(abs(lam[i]), abs(dd)) if np.isfinite(dd) else abs(lam[i]))
            if not np.isfinite(hi[i]):
                dual = max(dual, lam[i])
        elif lam[i] < 0:
            comp = max(comp, min(abs(lam[i]), abs(du)) if np.isfinite(du) else abs(lam[i]))
            if not np.isfinite(lo[i]):
                dual = max(dual, -lam[i])
    return stat, max(prim, 0.0), dual, comp


def solve_qp(Q, c, A=None, lo=None, hi=None, tol=1e-9):
    """Exact optimum by working-set enumeration.

    Returns None when no working set gives a KKT point (infeasible problem), else a dict with
      x, lam (one per row), f, active (per row: 0 inactive, +1 upper, -1 lower, 2 equality) - the rows
      that are *geometrically* active at x within `tol`-, licq (active gradients linearly independent =>
      multipliers unique), strict (every geometrically active inequality row has |lam| > 1e-6*scale),
      min_gap (smallest distance of an inactive finite bound), nsolves.
    """
    Q = np.asarray(Q, float)
    c = np.asarray(c, float).ravel()
    n = c.size
    if A is None or len(A) == 0:
        A = np.zeros((0, n))
        lo = np.zeros(0)
        hi = np.zeros(0)
    A = np.atleast_2d(np.asarray(A, float))
    lo = np.asarray(lo, float).ravel()
    hi = np.asarray(hi, float).ravel()
    m = A.shape[0]
    if np.any(lo > hi + tol):
        return None
    eq = [i for i in range(m) if lo[i] == hi[i]]
    ineq = [i for i in range(m) if lo[i] != hi[i] and (np.isfinite(lo[i]) or np.isfinite(hi[i]))]
    scale = 1.0 + max(np.max(np.abs(lo[np.isfinite(lo)])) if np.isfinite(lo).any() else 0.0,
                      np.max(np.abs(hi[np.isfinite(hi)])) if np.isfinite(hi).any() else 0.0)
    ftol = tol * scale
    nsolves = 0
    kmax = max(0, min(n - len(eq), len(ineq))) if len(eq) <= n else 0
    for k in range(0, kmax + 1):
        for S in itertools.combinations(ineq, k):
            sides_opts = []
            for i in S:
                o = []
                if np.isfinite(hi[i]):
                    o.append(1)
                if np.isfinite(lo[i]):
                    o.append(-1)
                sides_opts.append(o)
            W = eq + list(S)
            Aw = A[W]
            if len(W):
                if np.linalg.matrix_rank(Aw, tol=1e-10) < len(W):
                    continue
            K = np.zeros((n + len(W), n + len(W)))
            K[:n, :n] = Q
            K[:n, n:] = Aw.T
            K[n:, :n] = Aw
            try:
                Kinv_ok = True
                lu = np.linalg.inv(K)
            except np.linalg.LinAlgError:
                Kinv_ok = False
            if not Kinv_ok:
                continue
            for sides in itertools.product(*sides_opts):
                rhs = np.concatenate([-c, [lo[i] for i in eq],
                                      [hi[i] if s > 0 else lo[i] for i, s in zip(S, sides)]])
                sol = lu @ rhs
                nsolves += 1
                x = sol[:n]
                lw = sol[n:]
                ax = A @ x
                if np.any(ax < lo - ftol) or np.any(ax > hi + ftol):
                    continue
                ok = True
                for j, s in enumerate(sides):
                    lj = lw[len(eq) + j]
                    if (s > 0 and lj < -1e-12 * (1 + abs(lj))) or (s < 0 and lj > 1e-12 * (1 + abs(lj))):
                        ok = False
                        break
                if not ok:
                    continue
                lam = np.zeros(m)
                for j, i in enumerate(W):
                    lam[i] = lw[j]
                return _finish(Q, c, A, lo, hi, x, lam, tol, nsolves)
    return None


def _finish(Q, c, A, lo, hi, x, lam, tol, nsolves):
    m = A.shape[0]
    ax = A @ x
    active = np.zeros(m, dtype=int)
    gaps = []
    for i in range(m):
        sc = tol * (1.0 + max(abs(lo[i]) if np.isfinite(lo[i]) else 0.0,
                              abs(hi[i]) if np.isfinite(hi[i]) else 0.0))
        if lo[i] == hi[i]:
            active[i] = 2
            continue
        if np.isfinite(hi[i]):
            if abs(hi[i] - ax[i]) <= sc * 1e3:
                active[i] = 1
            else:
                gaps.append(hi[i] - ax[i])
        if np.isfinite(lo[i]):
            if abs(ax[i] - lo[i]) <= sc * 1e3:
                active[i] = -1 if active[i] == 0 else active[i]
            else:
                gaps.append(ax[i] - lo[i])
    act_rows = [i for i in range(m) if active[i] != 0]
    licq = True
    if act_rows:
        licq = np.linalg.matrix_rank(A[act_rows], tol=1e-9) == len(act_rows)
    lscale = 1.0 + (np.max(np.abs(lam)) if m else 0.0)
    strict = all(abs(lam[i]) > 1e-6 * lscale for i in act_rows if active[i] != 2)
    cond = 1.0
    if act_rows and licq:
        s = np.linalg.svd(A[act_rows], compute_uv=False)
        cond = float(s[0] / s[-1])
    f = 0.5 * x @ np.asarray(Q) @ x + c @ x
    return {'x': x, 'lam': lam, 'f': float(f), 'active': active, 'licq': bool(licq),
            'strict': bool(strict), 'min_gap': float(min(gaps)) if gaps else INF,
            'active_cond': cond, 'nsolves': nsolves,
            'kkt': kkt_residuals(Q, c, A, lo, hi, x, lam)}


def random_spd(rng, n, cond_max=100.0):
    """Random SPD matrix with eigenvalues log-uniform in [1, cond_max]."""
    M = rng.normal(size=(n, n))
    q, _ = np.linalg.qr(M)
    ev = np.exp(rng.uniform(0.0, np.log(cond_max), size=n))
    ev[0] = 1.0
    Q = (q * ev) @ q.T
    return 0.5 * (Q + Q.T)
