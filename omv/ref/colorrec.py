"""Pure NumPy reference for C03: rebuild a matrix from its colored compressed products.  No openmdao import.

Given a boolean pattern and a matrix A with that pattern (entries in [1, 2], so nothing cancels), a coloring
is described by plain data:
    fwd = (groups, col2rows)    groups: list of lists of column indices; col2rows[c]: rows recovered for c
    rev = (groups, row2cols)
    subtractions = [((r, c), [(r1, c1), ...]), ...]      (substitution method), applied in the listed order
The compressed products are A @ V (one column per fwd color) and W.T @ A (one row per rev color).
"""
import numpy as np


def rebuild(A, fwd, rev, subtractions):
    nr, nc = A.shape
    J = np.zeros_like(A)
    cover = np.zeros(A.shape, dtype=int)
    if fwd is not None:
        groups, col2rows = fwd
        for cols in groups:
            cols = [int(c) for c in cols]
            comp = A[:, cols].sum(axis=1) if cols else np.zeros(nr)      # A @ v
            for c in cols:
                rows = col2rows[c]
                if rows is None:
                    continue
                rows = np.asarray(rows, dtype=int)
                J[rows, c] = comp[rows]
                cover[rows, c] += 1
    if rev is not None:
        groups, row2cols = rev
        for rows_ in groups:
            rows_ = [int(r) for r in rows_]
            comp = A[rows_, :].sum(axis=0) if rows_ else np.zeros(nc)    # w.T @ A
            for r in rows_:
                cols = row2cols[r]
                if cols is None:
                    continue
                cols = np.asarray(cols, dtype=int)
                J[r, cols] = comp[cols]
                cover[r, cols] += 1
    if subtractions:
        for pos, subs in subtractions:
            pos = (int(pos[0]), int(pos[1]))
            J[pos] -= sum(J[int(a), int(b)] for a, b in subs)
    return J, cover


def group_membership(groups, n):
    cnt = np.zeros(n, dtype=int)
    for g in groups:
        for i in g:
            cnt[int(i)] += 1
    return cnt


def random_matrix(P, rng):
    return np.where(P, rng.uniform(1.0, 2.0, size=P.shape), 0.0)
