"""Reference model of ONE declared option (pure Python/NumPy, never imports openmdao).

Semantics taken from the documentation of OptionsDictionary.declare:
  1. if `values` was given, value must be in values          (Python `in`, i.e. == semantics)
  2. if `types`  was given, value must satisfy isinstance(value, types)
  -  types=list together with values: every element of the list value must be in values
  -  value must not be greater than `upper` / less than `lower`
  -  allow_none: None is allowed regardless of values/types (bounds are not applicable to None);
     default=None implies allow_none
  -  check_valid(name, value) must not raise (it is consulted for every value, None included)

`accepts()` is three-valued: True / False / None (= the documentation leaves it open; the monitor does
not judge such a candidate):
  * types=bool: the implementation turns this into values=(True, False); a non-bool that compares equal to
    True/False (1, 0, 1.0, numpy.bool_) satisfies `in values` but not `isinstance(value, bool)` -> open.
  * bounds with a value that has no order relation with a number (None, str, list, complex) or NaN -> open.
  * types=list + values with a non-list value -> open.
"""
import math
import numbers

import numpy as np

# total predicates usable as check_valid; True = valid
PREDICATES = {
    'not7': lambda v: not (_is_real(v) and v == 7),
    'shortrepr': lambda v: len(repr(v)) < 9,
    'notnone': lambda v: v is not None,
}


def _is_real(v):
    return isinstance(v, (bool, int, float, np.integer, np.floating, np.bool_))


def _safe_in(v, container):
    try:
        return bool(v in container)
    except TypeError:          # unhashable value against a set
        return any(_safe_eq(v, x) for x in container)


def _safe_eq(a, b):
    try:
        return bool(a == b)
    except Exception:
        return False


class Decl(object):
    """Declaration of one option."""

    def __init__(self, name, values=None, types=None, lower=None, upper=None, allow_none=False,
                 check_valid=None, has_default=False, default=None, set_abs=False, deprecation=None):
        self.name = name
        self.values = values
        self.types = types
        self.lower = lower
        self.upper = upper
        self.allow_none = allow_none or (has_default and default is None)
        self.check_valid = check_valid        # key of PREDICATES or None
        self.has_default = has_default
        self.default = default
        self.set_abs = set_abs                # set_function = abs for real non-bool numbers
        self.deprecation = deprecation        # None | str | (str, alias)

    def features(self):
        f = []
        if self.values is not None:
            f.append('values+list' if self.types is list else 'values')
        elif self.types is bool:
            f.append('types-bool')
        elif self.types is not None:
            f.append('types')
        if self.lower is not None:
            f.append('lower')
        if self.upper is not None:
            f.append('upper')
        if self.allow_none:
            f.append('allow_none')
        if self.check_valid:
            f.append('check_valid')
        return f

    def accepts(self, value):
        """-> (verdict, feature) ; verdict True/False/None, feature = what decided a rejection/opening."""
        if not (value is None and self.allow_none):
            if self.values is not None:
                if self.types is list:
                    if not isinstance(value, list):
                        return None, 'values+list:non-list'
                    if not all(_safe_in(e, self.values) for e in value):
                        return False, 'values+list'
                elif not _safe_in(value, self.values):
                    return False, 'values'
            elif self.types is bool:
                if not isinstance(value, bool):
                    if _safe_eq(value, True) or _safe_eq(value, False):
                        return None, 'types-bool:equal-to-bool'
                    return False, 'types-bool'
            elif self.types is not None:
                if not isinstance(value, self.types):
                    return False, 'types'
            if self.upper is not None or self.lower is not None:
                if not _is_real(value) or (isinstance(value, (float, np.floating)) and math.isnan(value)):
                    return None, 'bounds:unordered'
                if self.upper is not None and value > self.upper:
                    return False, 'upper'
                if self.lower is not None and value < self.lower:
                    return False, 'lower'
        if self.check_valid is not None and not PREDICATES[self.check_valid](value):
            return False, 'check_valid'
        return True, None

    def stored(self, value):
        """Value that is stored for an accepted assignment."""
        if self.set_abs and isinstance(value, numbers.Real) and not isinstance(value, (bool, np.bool_)):
            return abs(value)
        return value


def same(a, b):
    """Stored value identical to the expected one (identity, or equal with the same type)."""
    if a is b:
        return True
    if type(a) is not type(b):
        return False
    try:
        if isinstance(a, float) and math.isnan(a) and math.isnan(b):
            return True
        return bool(a == b)
    except Exception:
        return False
