"""Pure NumPy reference for C10: the exact Newton step of the harness residual and the inequalities a
bounds-enforcing line search must respect.  Must not import openmdao.

Harness residual (physical units, full state vector y):   r(y) = M y + kappa * y**3 - t
Jacobian:                                                  J(y) = M + 3 kappa diag(y**2)
Newton step from y0:                                       D = -J(y0)^-1 r(y0)
"""
import numpy as np

EPS = np.finfo(float).eps


def residual(M, t, kappa, y):
    return M.dot(y) + kappa * y ** 3 - t


def jacobian(M, kappa, y):
    return M + 3.0 * kappa * np.diag(y ** 2)


def newton_step(M, t, kappa, y0):
    J = jacobian(M, kappa, y0)
    return -np.linalg.solve(J, residual(M, t, kappa, y0)), J


def scaled_condition(J, out_scale, res_scale):
    """Condition number of the system the framework actually solves: rows divided by the residual scale,
    columns multiplied by the output scale (ref - ref0)."""
    Js = (J * out_scale[None, :]) / res_scale[:, None]
    return np.linalg.cond(Js)


def judge_update(u0, u1, D, lower, upper, ref, ref0, cond_s, alpha=1.0):
    """Return list of (observable, index, text) violated by one filtered Newton update u0 -> u1.

    lower/upper : arrays with -inf/+inf where unbounded.
    Tolerances:
      tau_b (bounds): arithmetic is done on s=(u-ref0)/(ref-ref0); u1 = ((u0+d) - a*d) mapped back, each
          operation relative eps on operands of size |u0-ref0|, |D|, |bound-ref0|  ->  1e3*eps*(sum of them)
          (1e3 covers the handful of operations and the get/set conversions).
      tau_s (step): the framework's step differs from D by the linear-solve error <= 8*n*eps*cond_s*|D|_inf,
          plus the same arithmetic term.
    """
    out = []
    n = u0.size
    mag = np.abs(u0) + np.abs(ref0) + 2 * np.abs(D) + np.abs(ref)
    fl = np.where(np.isfinite(lower), np.abs(lower), 0.0)
    fu = np.where(np.isfinite(upper), np.abs(upper), 0.0)
    tau_b = 1e3 * EPS * (mag + fl + fu)
    dinf = np.max(np.abs(D)) if n else 0.0
    tau_s = tau_b + 8 * n * EPS * cond_s * dinf
    mv = u1 - u0
    for i in range(n):
        if u1[i] < lower[i] - tau_b[i]:
            out.append(('out-of-bounds', i, 'entry %d: %.17g < lower %.17g (start %.17g, step %.6g)' %
                        (i, u1[i], lower[i], u0[i], D[i])))
        elif u1[i] > upper[i] + tau_b[i]:
            out.append(('out-of-bounds', i, 'entry %d: %.17g > upper %.17g (start %.17g, step %.6g)' %
                        (i, u1[i], upper[i], u0[i], D[i])))
        if mv[i] * np.sign(D[i]) < -tau_s[i] or (D[i] == 0.0 and abs(mv[i]) > tau_s[i]):
            out.append(('against-step', i, 'entry %d moved %.6g but the Newton step is %.6g' % (i, mv[i], D[i])))
        elif abs(mv[i]) > alpha * abs(D[i]) * (1 + 1e-12) + tau_s[i]:
            out.append(('beyond-full-step', i, 'entry %d moved %.17g, full step %.17g (alpha=%g)' %
                        (i, mv[i], D[i], alpha)))
    return out


def wall_expected(u0, D, lower, upper, alpha=1.0):
    """Indices whose (alpha-scaled) full Newton step leaves the box, with the bound they must end on under
    'wall' enforcement (the entry is put on the bound and no longer moves during backtracking)."""
    full = u0 + alpha * D
    idx = {}
    for i in range(u0.size):
        if full[i] < lower[i]:
            idx[i] = lower[i]
        elif full[i] > upper[i]:
            idx[i] = upper[i]
    return idx
