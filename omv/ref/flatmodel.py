"""R - independent reference evaluator for generated model specs (pure NumPy, never imports openmdao).

A spec (see omv/gen/models.py) is flattened to a global residual F(u; p) = 0 over all *state* outputs u
(outputs of explicit and implicit components), with parameters p = outputs of independent-variable
components and unconnected promoted inputs ("auto-IVC" parameters).

  explicit component : F_o = y_o - f_o(x)            f_o(x) = c + sum_k A_k x_k + B_k sin(x_k)
  implicit component : F_o = y_o + beta*sin(y_o) - f_o(x)
  input k of a comp  : x_k = ((src[pos_k] + off_src) * fac_src) / fac_tgt - off_tgt      (units)
                       pos_k = flat source positions from the connection's index chain (NumPy indexing)

R has its own unit table, its own indexing (plain NumPy), its own damped Newton and computes total
derivatives by the implicit function theorem from the analytic blocks; `selfcheck` compares the analytic
Jacobian of F with a complex-step differentiation of F.
"""
import numpy as np

# --- own unit table: value_in_base = (v + off) * fac.  The defining constants (what an lbf, ft, degF is)
# are data copied by hand from openmdao/utils/unit_library.ini (lbf = 4.44822162 N there); the conversion
# logic is independent.
UNITS = {
    None: (1.0, 0.0),
    'm': (1.0, 0.0), 'cm': (0.01, 0.0), 'mm': (0.001, 0.0), 'km': (1000.0, 0.0), 'ft': (0.3048, 0.0),
    'inch': (0.0254, 0.0),
    's': (1.0, 0.0), 'ms': (1e-3, 0.0), 'min': (60.0, 0.0), 'h': (3600.0, 0.0),
    'N': (1.0, 0.0), 'kN': (1000.0, 0.0), 'lbf': (4.44822162, 0.0),
    'degK': (1.0, 0.0), 'degC': (1.0, 273.15), 'degF': (5.0 / 9.0, 459.67), 'degR': (5.0 / 9.0, 0.0),
}
FAMILIES = [['m', 'cm', 'mm', 'km', 'ft', 'inch'], ['s', 'ms', 'min', 'h'], ['N', 'kN', 'lbf'],
            ['degK', 'degC', 'degF', 'degR']]


def conv(src_units, tgt_units):
    """(factor, offset) with v_tgt = v_src * factor + offset."""
    if src_units is None or tgt_units is None:
        return 1.0, 0.0
    fs, os_ = UNITS[src_units]
    ft, ot = UNITS[tgt_units]
    return fs / ft, os_ * fs / ft - ot


def dec_idx(j):
    """decode a JSON index spec (same encoding as omv.checks.c05_indexer.enc)."""
    if isinstance(j, dict):
        if 't' in j:
            return tuple(dec_idx(x) for x in j['t'])
        if 's' in j:
            return slice(*j['s'])
        if 'a' in j:
            return np.array(j['a'], dtype=int)
        if 'l' in j:
            return np.array(j['l'], dtype=int)
    if j == '...':
        return Ellipsis
    return j


def chain_positions(src_shape, chain):
    """Flat source positions selected by a chain of index specs [{'idx':enc,'flat':bool}, ...]."""
    size = int(np.prod(src_shape)) if len(src_shape) else 1
    cur = np.arange(size).reshape(src_shape)
    for link in chain:
        idx = dec_idx(link['idx'])
        if link.get('flat'):
            cur = cur.ravel()[idx]
        else:
            cur = cur[idx]
        cur = np.asarray(cur)
    return cur


class FlatModel:
    def __init__(self, spec):
        self.spec = spec
        self.comps = {c['name']: c for c in spec['comps']}
        # variable tables
        self.out_shape, self.out_units, self.out_owner = {}, {}, {}
        self.params = {}       # name -> value (flat) : ivc outputs + auto-ivc params
        self.state_names = []  # outputs of exp/imp/exec comps
        for c in spec['comps']:
            for o in c['outputs']:
                self.out_shape[o['name']] = tuple(o['shape'])
                self.out_units[o['name']] = o.get('units')
                self.out_owner[o['name']] = c['name']
                if c['kind'] == 'ivc':
                    self.params[o['name']] = np.asarray(o['val'], dtype=float).ravel().copy()
                else:
                    self.state_names.append(o['name'])
        for p in spec.get('params', []):
            self.out_shape[p['name']] = tuple(p['shape'])
            self.out_units[p['name']] = p.get('units')
            self.params[p['name']] = np.asarray(p['val'], dtype=float).ravel().copy()
        self.sizes = {n: int(np.prod(s)) if len(s) else 1 for n, s in self.out_shape.items()}
        off = 0
        self.soff = {}
        for n in self.state_names:
            self.soff[n] = (off, off + self.sizes[n])
            off += self.sizes[n]
        self.nstate = off
        off = 0
        self.poff = {}
        self.param_names = list(self.params)
        for n in self.param_names:
            self.poff[n] = (off, off + self.sizes[n])
            off += self.sizes[n]
        self.nparam = off
        # input wiring: (comp, input) -> (src name, pos array, fac, off)
        self.wire = {}
        for cn in spec['conns']:
            src = cn['src']
            pos = chain_positions(self.out_shape[src], cn.get('chain', []))
            fac, offs = conv(self.out_units[src], cn.get('tgt_units'))
            self.wire[cn['tgt']] = (src, np.asarray(pos).ravel(), fac, offs)

    # -- evaluation -----------------------------------------------------------------------------
    def p0(self):
        return np.concatenate([self.params[n] for n in self.param_names]) if self.nparam else np.zeros(0)

    def u0(self):
        u = np.zeros(self.nstate)
        for c in self.spec['comps']:
            if c['kind'] == 'ivc':
                continue
            for o in c['outputs']:
                if 'val' in o:
                    a, b = self.soff[o['name']]
                    u[a:b] = np.asarray(o['val'], dtype=float).ravel()
        return u

    def _get(self, name, u, p):
        if name in self.soff:
            a, b = self.soff[name]
            return u[a:b]
        a, b = self.poff[name]
        return p[a:b]

    def input_value(self, inp_name, u, p):
        src, pos, fac, offs = self.wire[inp_name]
        return self._get(src, u, p)[pos] * fac + offs

    def comp_f(self, c, u, p):
        """f_o(x) for every output of component c -> dict out -> flat array."""
        xs = {i['name']: self.input_value(i['name'], u, p) for i in c['inputs']}
        res = {}
        for o in c['outputs']:
            t = c['terms'][o['name']]
            y = np.array(t['c'], dtype=np.result_type(u.dtype, p.dtype))
            for k, A in t['A'].items():
                y = y + np.asarray(A) @ xs[k]
            for k, B in t['B'].items():
                y = y + np.asarray(B) @ np.sin(xs[k])
            res[o['name']] = y
        return res

    def F(self, u, p):
        out = np.zeros(self.nstate, dtype=np.result_type(u.dtype, p.dtype))
        for c in self.spec['comps']:
            if c['kind'] == 'ivc':
                continue
            f = self.comp_f(c, u, p)
            for o in c['outputs']:
                a, b = self.soff[o['name']]
                y = u[a:b]
                if c['kind'] == 'imp':
                    out[a:b] = y + c['beta'] * np.sin(y) - f[o['name']]
                else:
                    out[a:b] = y - f[o['name']]
        return out

    def jac(self, u, p):
        """Analytic dF/du (nstate x nstate) and dF/dp (nstate x nparam)."""
        Ju = np.zeros((self.nstate, self.nstate))
        Jp = np.zeros((self.nstate, self.nparam))
        for c in self.spec['comps']:
            if c['kind'] == 'ivc':
                continue
            for o in c['outputs']:
                a, b = self.soff[o['name']]
                y = u[a:b]
                if c['kind'] == 'imp':
                    Ju[a:b, a:b] += np.diag(1.0 + c['beta'] * np.cos(y))
                else:
                    Ju[a:b, a:b] += np.eye(b - a)
                t = c['terms'][o['name']]
                for i in c['inputs']:
                    k = i['name']
                    src, pos, fac, offs = self.wire[k]
                    x = self._get(src, u, p)[pos] * fac + offs
                    D = np.zeros((b - a, pos.size))
                    if k in t['A']:
                        D = D + np.asarray(t['A'][k])
                    if k in t['B']:
                        D = D + np.asarray(t['B'][k]) * np.cos(x)[None, :]
                    D = D * fac
                    if src in self.soff:
                        sa, _ = self.soff[src]
                        np.add.at(Ju, (slice(a, b), sa + pos), -D)
                    else:
                        pa, _ = self.poff[src]
                        np.add.at(Jp, (slice(a, b), pa + pos), -D)
        return Ju, Jp

    def solve(self, p=None, tol=1e-13, maxit=100):
        """Newton (backtracking only when the residual grows); converged when the Newton step is at
        round-off level relative to the iterate.  Returns (u, converged)."""
        p = self.p0() if p is None else p
        u = self.u0().astype(p.dtype)
        if self.nstate == 0:
            return u, True
        small = 0
        for it in range(maxit):
            r = self.F(u, p)
            nrm = np.linalg.norm(r.real)
            if nrm == 0.0:
                return u, True
            Ju, _ = self.jac(u.real, p.real)
            du = np.linalg.solve(Ju, -r)
            lam = 1.0
            while lam > 1e-4:
                rn = self.F(u + lam * du, p)
                if np.linalg.norm(rn.real) <= 2.0 * nrm:
                    break
                lam *= 0.5
            u = u + lam * du
            if lam == 1.0 and np.max(np.abs(du.real)) <= 1e-9 * max(1.0, np.max(np.abs(u.real))):
                small += 1
                if small >= 3:     # quadratic convergence: two further steps are at round-off level
                    return u, True
            else:
                small = 0
        return u, False

    def selfcheck(self, u, p, h=1e-30):
        """max abs difference between the analytic Jacobian of F and complex-step differentiation."""
        Ju, Jp = self.jac(u, p)
        err = 0.0
        for j in range(self.nstate):
            uc = u.astype(complex)
            uc[j] += 1j * h
            err = max(err, np.max(np.abs(self.F(uc, p.astype(complex)).imag / h - Ju[:, j]), initial=0.0))
        for j in range(self.nparam):
            pc = p.astype(complex)
            pc[j] += 1j * h
            err = max(err, np.max(np.abs(self.F(u.astype(complex), pc).imag / h - Jp[:, j]), initial=0.0))
        return err

    def du_dp(self, u, p):
        Ju, Jp = self.jac(u, p)
        cond = np.linalg.cond(Ju) if self.nstate else 1.0
        return np.linalg.solve(Ju, -Jp) if self.nstate else np.zeros((0, self.nparam)), cond

    # -- named access ---------------------------------------------------------------------------
    def value(self, name, u, p):
        return self._get(name, u, p).reshape(self.out_shape[name])

    def total(self, of, wrt, u, p, S=None):
        """d(of)/d(wrt) for an output `of` (state or param) and parameter `wrt`; full flat blocks."""
        if S is None:
            S, _ = self.du_dp(u, p)
        wa, wb = self.poff[wrt]
        if of in self.soff:
            a, b = self.soff[of]
            return S[a:b, wa:wb]
        J = np.zeros((self.sizes[of], wb - wa))
        if of == wrt:
            J = np.eye(wb - wa)
        return J
