"""Independent reference model of the unit library and of unit expressions (never imports openmdao).

 * own reader for unit_library.ini (sections, `name: definition` lines, `#` comments);
 * own tokenizer / recursive-descent evaluator for  * / ** ( ) numbers, `pi` and unit names;
 * exact arithmetic: a factor is  q * pi**k  with q a Fraction (decimal literals are taken exactly), so the
   reference carries no rounding error of its own; `ops` counts the arithmetic operations the floating
   point implementation needs for the same definition (used to derive comparison tolerances);
 * name resolution as documented in the library file: unit names are matched before prefixes; a prefix
   (one letter first, then two letters) attaches to a LIBRARY unit only (no compound prefixes).
"""
import math
import re
from fractions import Fraction

PREFIXES = {
    'Y': Fraction(10) ** 24, 'Z': Fraction(10) ** 21, 'E': Fraction(10) ** 18, 'P': Fraction(10) ** 15,
    'T': Fraction(10) ** 12, 'G': Fraction(10) ** 9, 'M': Fraction(10) ** 6, 'k': Fraction(10) ** 3,
    'h': Fraction(10) ** 2, 'da': Fraction(10), 'd': Fraction(1, 10), 'c': Fraction(1, 100),
    'm': Fraction(1, 10 ** 3), 'u': Fraction(1, 10 ** 6), 'n': Fraction(1, 10 ** 9), 'p': Fraction(1, 10 ** 12),
    'f': Fraction(1, 10 ** 15), 'a': Fraction(1, 10 ** 18), 'z': Fraction(1, 10 ** 21), 'y': Fraction(1, 10 ** 24),
    'Ei': Fraction(2) ** 60, 'Pi': Fraction(2) ** 50, 'Ti': Fraction(2) ** 40, 'Gi': Fraction(2) ** 30,
    'Mi': Fraction(2) ** 20, 'Ki': Fraction(2) ** 10,
}


class RefError(Exception):
    """The reference cannot / must not evaluate this expression."""


class U(object):
    """q * pi**k * prod(base_i ** powers_i), optional additive offset (temperatures)."""

    __slots__ = ('q', 'k', 'powers', 'offset', 'ops', 'mag')

    def __init__(self, q, k, powers, offset=Fraction(0), ops=0, mag=0.0):
        self.q, self.k, self.powers, self.offset, self.ops = Fraction(q), k, tuple(powers), Fraction(offset), ops
        # largest |log10(factor)| met in any sub-expression (to recognise intermediate over/underflow)
        self.mag = max(mag, abs(self.log10()))

    def log10(self):
        if self.q <= 0:
            return 0.0
        return math.log10(self.q.numerator) - math.log10(self.q.denominator) + self.k * math.log10(math.pi)

    def factor(self):
        return float(self.q) * math.pi ** self.k

    def mul(self, o):
        if self.offset or o.offset:
            raise RefError('offset unit in product')
        return U(self.q * o.q, self.k + o.k, [a + b for a, b in zip(self.powers, o.powers)], 0,
                 self.ops + o.ops + 1, max(self.mag, o.mag))

    def div(self, o):
        if self.offset or o.offset:
            raise RefError('offset unit in quotient')
        return U(self.q / o.q, self.k - o.k, [a - b for a, b in zip(self.powers, o.powers)], 0,
                 self.ops + o.ops + 1, max(self.mag, o.mag))

    def pow(self, n):
        if self.offset:
            raise RefError('offset unit in power')
        if isinstance(n, int):
            if n < 0 and self.q == 0:
                raise RefError('zero')
            return U(self.q ** n, self.k * n, [a * n for a in self.powers], 0, self.ops + abs(n) + 1, self.mag)
        raise RefError('non-integer power')

    def root(self, r):
        """Exact r-th root if it exists (inverse integer exponent)."""
        if self.offset or self.k % r or any(p % r for p in self.powers):
            raise RefError('root does not exist')
        num, den = self.q.numerator, self.q.denominator
        rn, rd = _iroot(num, r), _iroot(den, r)
        if rn is None or rd is None:
            raise RefError('irrational root')
        return U(Fraction(rn, rd), self.k // r, [p // r for p in self.powers], 0, self.ops + 3, self.mag)


def _iroot(n, r):
    """Exact integer r-th root of n >= 0, or None."""
    if n < 0:
        return None
    if r == 2:
        x = math.isqrt(n)
        return x if x * x == n else None
    lo, hi = 0, 1 << (n.bit_length() // r + 1)
    while lo <= hi:
        mid = (lo + hi) // 2
        c = mid ** r
        if c == n:
            return mid
        if c < n:
            lo = mid + 1
        else:
            hi = mid - 1
    return None


_TOK = re.compile(r'\s*(?:(\d+\.?\d*(?:[eE][+-]?\d+)?|\.\d+(?:[eE][+-]?\d+)?)|([A-Za-z_][A-Za-z0-9_]*)|(\*\*|[*/()+-]))')


def tokenize(s):
    out, i = [], 0
    s = s.strip()
    while i < len(s):
        m = _TOK.match(s, i)
        if not m:
            raise RefError('cannot tokenize %r at %d' % (s, i))
        if m.group(1) is not None:
            out.append(('num', m.group(1)))
        elif m.group(2) is not None:
            out.append(('name', m.group(2)))
        else:
            out.append(('op', m.group(3)))
        i = m.end()
    return out


class Library(object):
    def __init__(self, ini_path):
        self.base_names = []
        self.defs = {}          # name -> ('expr', text) | ('offset', factor, base, offset)
        self.order = []
        self._cache = {}
        self._read(ini_path)
        self.nbase = len(self.base_names)
        for i, b in enumerate(self.base_names):
            p = [0] * self.nbase
            p[i] = 1
            self._cache[b] = U(1, 0, p)

    def _read(self, path):
        section = None
        with open(path) as f:
            for raw in f:
                line = raw.split('#')[0].strip() if not raw.lstrip().startswith('#') else ''
                if not line:
                    continue
                if line.startswith('[') and line.endswith(']'):
                    section = line[1:-1]
                    continue
                name, _, rest = line.partition(':')
                name, rest = name.strip(), rest.strip()
                if section == 'base_units':
                    self.base_names.append(rest)
                elif section == 'units':
                    parts = [p.strip() for p in rest.split(',')]
                    if len(parts) == 2:
                        self.defs[name] = ('expr', parts[0])
                    elif len(parts) == 4:
                        self.defs[name] = ('offset', parts[0], parts[1], parts[2])
                    else:
                        raise RefError('bad definition of %s' % name)
                    self.order.append(name)

    # -- names ---------------------------------------------------------------------------------
    def library_names(self):
        return list(self.base_names) + list(self.order)

    def is_library_unit(self, name):
        return name in self.defs or name in self.base_names

    def unit(self, name, _stack=()):
        """A library unit (exact)."""
        if name in self._cache:
            return self._cache[name]
        if name in _stack:
            raise RefError('cyclic definition of %s' % name)
        d = self.defs[name]
        if d[0] == 'expr':
            u = self.evaluate(d[1], library_only=True, _stack=_stack + (name,))
        else:
            b = self.evaluate(d[2], library_only=True, _stack=_stack + (name,))
            u = U(b.q * Fraction(d[1]), b.k, b.powers, Fraction(d[3]), b.ops + 1, b.mag)
        self._cache[name] = u
        return u

    def resolve(self, name, library_only=False, _stack=()):
        if name == 'as_':
            name = 'as'
        if self.is_library_unit(name):
            return self.unit(name, _stack)
        if library_only:
            raise RefError('unknown unit %s' % name)
        for n in (1, 2):
            p, rest = name[:n], name[n:]
            if p in PREFIXES and len(p) == n and self.is_library_unit(rest):
                b = self.unit(rest)
                if b.offset:
                    raise RefError('prefixed offset unit')
                return U(b.q * PREFIXES[p], b.k, b.powers, 0, b.ops + 1, b.mag)
        raise RefError('unknown unit %s' % name)

    # -- expressions ------------------------------------------------------------------------------
    def evaluate(self, text, library_only=False, _stack=()):
        toks = tokenize(text)
        pos = [0]
        nb = len(self.base_names)

        def peek():
            return toks[pos[0]] if pos[0] < len(toks) else (None, None)

        def take():
            t = peek()
            pos[0] += 1
            return t

        def number(txt):
            return U(Fraction(txt), 0, [0] * nb, 0, 0)

        def atom():
            kind, val = take()
            if kind == 'num':
                return number(val)
            if kind == 'name':
                if val == 'pi':
                    return U(1, 1, [0] * nb, 0, 0)
                return self.resolve(val, library_only, _stack)
            if kind == 'op' and val == '(':
                u = expr()
                if take() != ('op', ')'):
                    raise RefError('missing )')
                return u
            raise RefError('unexpected token %r' % (val,))

        def signed_int():
            sign = 1
            while peek() == ('op', '-') or peek() == ('op', '+'):
                if take()[1] == '-':
                    sign = -sign
            kind, val = take()
            if kind != 'num':
                raise RefError('exponent must be a number')
            return sign, val

        def power():
            base = atom()
            if peek() == ('op', '**'):
                take()
                sign, val = signed_int()
                if re.fullmatch(r'\d+', val):
                    return base.pow(sign * int(val))
                f = Fraction(val)
                if sign > 0 and f.numerator == 1 and f.denominator > 1:
                    return base.root(f.denominator)
                if f.denominator == 1:
                    # a float literal with an integral value (2.0) is a *float* power for the implementation,
                    # which only allows inverse integers: 1.0 is the only one that is both
                    raise RefError('float literal as integer power')
                raise RefError('unsupported power')
            return base

        def expr():
            u = power()
            while peek() in (('op', '*'), ('op', '/')):
                op = take()[1]
                v = power()
                u = u.mul(v) if op == '*' else u.div(v)
            return u

        u = expr()
        if pos[0] != len(toks):
            raise RefError('trailing tokens in %r' % text)
        return u


def convert(v, a, b):
    """Reference conversion of the float v from unit a to unit b -> (value, tolerance, scale).

    tolerance: the implementation evaluates (v + offset) * factor with factor = fa/fb and
    offset = oa - ob*fb/fa in floating point; fa, fb carry (ops+1) roundings each.
    """
    if a.powers != b.powers:
        raise RefError('incompatible')
    fv = Fraction(v)
    exact_q = (fv + a.offset) * (a.q / b.q)
    dk = a.k - b.k
    val = float(exact_q) * math.pi ** dk - float(b.offset)
    if b.offset and dk:
        raise RefError('offset with pi')
    if not dk:
        val = float(exact_q - b.offset)
    eps = 2.0 ** -52
    K = a.ops + b.ops + abs(dk) + 8
    ratio = abs(float(a.q / b.q)) * math.pi ** dk
    scale = (abs(v) + abs(float(a.offset))) * ratio + abs(float(b.offset))
    return val, K * eps * scale, scale
