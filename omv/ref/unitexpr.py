"""Independent reference model of the unit library and of unit expressions (never imports openmdao).

 * own reader for unit_library.ini (sections, `name: definition` lines, `#` comments);
 * own tokenizer / recursive-descent evaluator for  * / ** ( ) numbers, `pi` and unit names;
 * exact arithmetic: a factor is  q * pi**k  with q a Fraction (decimal literals are taken exactly), so the
   reference carries no rounding error of its own; `ops` counts the arithmetic operations the floating
   point implementation needs for the same definition (used to derive comparison tolerances);
 * name resolution as documented in the library file: unit names are matched before prefixes; a prefix
   (one letter first, then two letters) attaches to a LIBRARY unit only (no compound prefixes).
"""
import decimal
import math
import re
from fractions import Fraction

PREFIXES = {
    'Y': Fraction(10) ** 24, 'Z': Fraction(10) ** 21, 'E': Fraction(10) ** 18, 'P': Fraction(10) ** 15,
    'T': Fraction(10) ** 12, 'G': Fraction(10) ** 9, 'M': Fraction(10) ** 6, 'k': Fraction(10) ** 3,
    'h': Fraction(10) ** 2, 'da': Fraction(10), 'd': Fraction(1, 10), 'c': Fraction(1, 100),
    'm': Fraction(1, 10 ** 3), 'u': Fraction(1, 10 ** 6), 'n': Fraction(1, 10 ** 9), 'p': Fraction(1, 10 ** 12),
    'f': Fraction(1, 10 ** 15), 'a': Fraction(1, 10 ** 18), 'z': Fraction(1, 10 ** 21), 'y': Fraction(1, 10 ** 24),
    'Ei': Fraction(2) ** 60, 'Pi': Fraction(2) ** 50, 'Ti': Fraction(2) ** 40, 'Gi': Fraction(2) ** 30,
    'Mi': Fraction(2) ** 20, 'Ki': Fraction(2) ** 10,
}


class RefError(Exception):
    """The reference cannot / must not evaluate this expression."""


class U(object):
    """q * pi**k * Q**(1/d) * prod(base_i ** powers_i), optional additive offset (temperatures).

    `irr` = (Q, d) is the irrational part left by a root that has no rational value (sqrt(1000), 12**(1/2)):
    Q a positive Fraction, d >= 2; None when the factor is rational (times a power of pi).  `k` is an int,
    or a Fraction after a root of an odd power of pi.
    """

    __slots__ = ('q', 'k', 'powers', 'offset', 'ops', 'mag', 'irr')

    def __init__(self, q, k, powers, offset=Fraction(0), ops=0, mag=0.0, irr=None):
        self.q, self.k, self.powers, self.offset, self.ops = Fraction(q), k, tuple(powers), Fraction(offset), ops
        self.irr = irr
        # largest |log10(factor)| met in any sub-expression (to recognise intermediate over/underflow)
        self.mag = max(mag, abs(self.log10()))

    def exact(self):
        """True if the factor is q * pi**k with integer k (the case of every library / prefixed unit)."""
        return self.irr is None and isinstance(self.k, int)

    def log10(self):
        if self.q <= 0:
            return 0.0
        out = math.log10(self.q.numerator) - math.log10(self.q.denominator) + float(self.k) * math.log10(math.pi)
        if self.irr is not None:
            Q, d = self.irr
            out += (math.log10(Q.numerator) - math.log10(Q.denominator)) / d
        return out

    def dec(self):
        """The factor as a 60-digit Decimal."""
        with decimal.localcontext() as ctx:
            ctx.prec = 60
            out = decimal.Decimal(self.q.numerator) / decimal.Decimal(self.q.denominator)
            if self.k:
                k = Fraction(self.k)
                out *= _PI ** (decimal.Decimal(k.numerator) / decimal.Decimal(k.denominator))
            if self.irr is not None:
                Q, d = self.irr
                out *= (decimal.Decimal(Q.numerator) / decimal.Decimal(Q.denominator)) ** \
                    (decimal.Decimal(1) / decimal.Decimal(d))
            return out

    def factor(self):
        if self.exact():
            return float(self.q) * math.pi ** self.k
        return float(self.dec())

    def _check(self, o=None):
        if self.offset or (o is not None and o.offset):
            raise RefError('offset unit in product / quotient / power')

    def mul(self, o):
        self._check(o)
        q, irr = _join_irr(self.q * o.q, self.irr, o.irr)
        return U(q, _norm_k(self.k + o.k), [a + b for a, b in zip(self.powers, o.powers)], 0,
                 self.ops + o.ops + 1, max(self.mag, o.mag), irr)

    def div(self, o):
        self._check(o)
        oirr = None if o.irr is None else (1 / o.irr[0], o.irr[1])
        q, irr = _join_irr(self.q / o.q, self.irr, oirr)
        return U(q, _norm_k(self.k - o.k), [a - b for a, b in zip(self.powers, o.powers)], 0,
                 self.ops + o.ops + 1, max(self.mag, o.mag), irr)

    def pow(self, n):
        self._check()
        if isinstance(n, int):
            if n < 0 and self.q == 0:
                raise RefError('zero')
            q, irr = self.q ** n, None
            if self.irr is not None:
                q, irr = _join_irr(q, (self.irr[0] ** n, self.irr[1]), None)
            return U(q, _norm_k(self.k * n), [a * n for a in self.powers], 0, self.ops + abs(n) + 1, self.mag, irr)
        raise RefError('non-integer power')

    def root(self, r, exact_only=False):
        """r-th root (inverse integer exponent): the dimension must be a perfect r-th power."""
        if self.offset or any(p % r for p in self.powers):
            raise RefError('root does not exist')
        if self.q <= 0:
            raise RefError('root of a non-positive factor')
        if self.irr is None:
            T, D = self.q, r
        else:
            Q, d = self.irr
            T, D = self.q ** d * Q, d * r
        q, irr = _reduce_root(T, D)
        k = _norm_k(Fraction(self.k) / r)
        if exact_only and (irr is not None or not isinstance(k, int)):
            raise RefError('irrational root')
        # the implementation evaluates factor ** (1/r) with the exponent rounded to a double: unless 1/r is a
        # power of two, the exponent error (<= 2**-53 / r) is amplified by |ln(factor)|; in units of 2**-52:
        extra = 0 if r & (r - 1) == 0 else int(abs(self.log10()) * math.log(10.0) / (2 * r)) + 1
        return U(q, k, [p // r for p in self.powers], 0, self.ops + 3 + extra, self.mag, irr)


_PI = decimal.Decimal('3.14159265358979323846264338327950288419716939937510582097494459')


def _norm_k(k):
    if isinstance(k, Fraction) and k.denominator == 1:
        return int(k)
    return k


def _reduce_root(T, D):
    """T**(1/D) for a positive Fraction T -> (rational part, irr or None), taking exact roots where they exist."""
    for p in (2, 3, 5, 7):
        while D % p == 0:
            rn, rd = _iroot(T.numerator, p), _iroot(T.denominator, p)
            if rn is None or rd is None:
                break
            T, D = Fraction(rn, rd), D // p
    if D == 1:
        return T, None
    if T == 1:
        return Fraction(1), None
    return Fraction(1), (T, D)


def _join_irr(q, a, b):
    """q * a * b for irrational parts a, b (each None or (Q, d)) -> (q', irr')."""
    if a is None and b is None:
        return q, None
    if a is None or b is None:
        Q, d = a if b is None else b
        q2, irr = _reduce_root(Q, d)
        return q * q2, irr
    (Q1, d1), (Q2, d2) = a, b
    ell = d1 * d2 // math.gcd(d1, d2)
    q2, irr = _reduce_root(Q1 ** (ell // d1) * Q2 ** (ell // d2), ell)
    return q * q2, irr


def _iroot(n, r):
    """Exact integer r-th root of n >= 0, or None."""
    if n < 0:
        return None
    if r == 2:
        x = math.isqrt(n)
        return x if x * x == n else None
    lo, hi = 0, 1 << (n.bit_length() // r + 1)
    while lo <= hi:
        mid = (lo + hi) // 2
        c = mid ** r
        if c == n:
            return mid
        if c < n:
            lo = mid + 1
        else:
            hi = mid - 1
    return None


_TOK = re.compile(r'\s*(?:(\d+\.?\d*(?:[eE][+-]?\d+)?|\.\d+(?:[eE][+-]?\d+)?)|([A-Za-z_][A-Za-z0-9_]*)|(\*\*|[*/()+-]))')


def tokenize(s):
    out, i = [], 0
    s = s.strip()
    while i < len(s):
        m = _TOK.match(s, i)
        if not m:
            raise RefError('cannot tokenize %r at %d' % (s, i))
        if m.group(1) is not None:
            out.append(('num', m.group(1)))
        elif m.group(2) is not None:
            out.append(('name', m.group(2)))
        else:
            out.append(('op', m.group(3)))
        i = m.end()
    return out


class Library(object):
    def __init__(self, ini_path):
        self.base_names = []
        self.defs = {}          # name -> ('expr', text) | ('offset', factor, base, offset)
        self.order = []
        self._cache = {}
        self._read(ini_path)
        self.nbase = len(self.base_names)
        for i, b in enumerate(self.base_names):
            p = [0] * self.nbase
            p[i] = 1
            self._cache[b] = U(1, 0, p)

    def _read(self, path):
        section = None
        with open(path) as f:
            for raw in f:
                line = raw.split('#')[0].strip() if not raw.lstrip().startswith('#') else ''
                if not line:
                    continue
                if line.startswith('[') and line.endswith(']'):
                    section = line[1:-1]
                    continue
                name, _, rest = line.partition(':')
                name, rest = name.strip(), rest.strip()
                if section == 'base_units':
                    self.base_names.append(rest)
                elif section == 'units':
                    parts = [p.strip() for p in rest.split(',')]
                    if len(parts) == 2:
                        self.defs[name] = ('expr', parts[0])
                    elif len(parts) == 4:
                        self.defs[name] = ('offset', parts[0], parts[1], parts[2])
                    else:
                        raise RefError('bad definition of %s' % name)
                    self.order.append(name)

    # -- names ---------------------------------------------------------------------------------
    def library_names(self):
        return list(self.base_names) + list(self.order)

    def is_library_unit(self, name):
        return name in self.defs or name in self.base_names

    def unit(self, name, _stack=()):
        """A library unit (exact)."""
        if name in self._cache:
            return self._cache[name]
        if name in _stack:
            raise RefError('cyclic definition of %s' % name)
        d = self.defs[name]
        if d[0] == 'expr':
            u = self.evaluate(d[1], library_only=True, _stack=_stack + (name,))
        else:
            b = self.evaluate(d[2], library_only=True, _stack=_stack + (name,))
            u = U(b.q * Fraction(d[1]), b.k, b.powers, Fraction(d[3]), b.ops + 1, b.mag)
        self._cache[name] = u
        return u

    def resolve(self, name, library_only=False, _stack=()):
        if name == 'as_':
            name = 'as'
        if self.is_library_unit(name):
            return self.unit(name, _stack)
        if library_only:
            raise RefError('unknown unit %s' % name)
        for n in (1, 2):
            p, rest = name[:n], name[n:]
            if p in PREFIXES and len(p) == n and self.is_library_unit(rest):
                b = self.unit(rest)
                if b.offset:
                    raise RefError('prefixed offset unit')
                return U(b.q * PREFIXES[p], b.k, b.powers, 0, b.ops + 1, b.mag)
        raise RefError('unknown unit %s' % name)

    # -- expressions ------------------------------------------------------------------------------
    def evaluate(self, text, library_only=False, _stack=()):
        toks = tokenize(text)
        pos = [0]
        nb = len(self.base_names)

        def peek():
            return toks[pos[0]] if pos[0] < len(toks) else (None, None)

        def take():
            t = peek()
            pos[0] += 1
            return t

        def number(txt):
            return U(Fraction(txt), 0, [0] * nb, 0, 0)

        def atom():
            kind, val = take()
            if kind == 'num':
                return number(val)
            if kind == 'name':
                if val == 'pi':
                    return U(1, 1, [0] * nb, 0, 0)
                return self.resolve(val, library_only, _stack)
            if kind == 'op' and val == '(':
                u = expr()
                if take() != ('op', ')'):
                    raise RefError('missing )')
                return u
            raise RefError('unexpected token %r' % (val,))

        def signs():
            sign = 1
            while peek() == ('op', '-') or peek() == ('op', '+'):
                if take()[1] == '-':
                    sign = -sign
            return sign

        def exponent():
            """-> (sign, literal text, None) for `[+-] number`, (sign, None, Fraction) for `([+-] number / number)`."""
            sign = signs()
            if peek() == ('op', '('):
                take()
                sign *= signs()
                kind, val = take()
                if kind != 'num':
                    raise RefError('exponent must be a number')
                if peek() == ('op', '/'):
                    take()
                    kind2, val2 = take()
                    if kind2 != 'num' or Fraction(val2) == 0:
                        raise RefError('exponent must be a number')
                    out = (sign, None, Fraction(val) / Fraction(val2))
                else:
                    out = (sign, val, None)
                if take() != ('op', ')'):
                    raise RefError('missing ) in exponent')
                return out
            kind, val = take()
            if kind != 'num':
                raise RefError('exponent must be a number')
            return sign, val, None

        def power():
            base = atom()
            if peek() == ('op', '**'):
                take()
                sign, val, f = exponent()
                if f is None:
                    if re.fullmatch(r'\d+', val):
                        return base.pow(sign * int(val))
                    f = Fraction(val)
                # a float for the implementation (a decimal literal, or a true division), which only allows
                # inverse integers: 1.0 is the only one that is both, 2.0 is rejected by design
                if f.numerator == 1 and f.denominator > 1:
                    u = base.root(f.denominator)
                    return u if sign > 0 else u.pow(-1)
                if f.denominator == 1:
                    raise RefError('float literal as integer power')
                raise RefError('unsupported power')
            return base

        def expr():
            u = power()
            while peek() in (('op', '*'), ('op', '/')):
                op = take()[1]
                v = power()
                u = u.mul(v) if op == '*' else u.div(v)
            return u

        u = expr()
        if pos[0] != len(toks):
            raise RefError('trailing tokens in %r' % text)
        return u


def convert(v, a, b):
    """Reference conversion of the float v from unit a to unit b -> (value, tolerance, scale).

    tolerance: the implementation evaluates (v + offset) * factor with factor = fa/fb and
    offset = oa - ob*fb/fa in floating point; fa, fb carry (ops+1) roundings each.
    """
    if a.powers != b.powers:
        raise RefError('incompatible')
    eps = 2.0 ** -52
    fv = Fraction(v)
    if not (a.exact() and b.exact()):
        # a factor with an irrational root: 60-digit decimal arithmetic instead of exact fractions
        with decimal.localcontext() as ctx:
            ctx.prec = 60
            F = a.dec() / b.dec()

            def D(x):
                return decimal.Decimal(x.numerator) / decimal.Decimal(x.denominator)
            val = float((D(fv) + D(a.offset)) * F - D(b.offset))
            ratio = abs(float(F))
        K = a.ops + b.ops + 8
        scale = (abs(v) + abs(float(a.offset))) * ratio + abs(float(b.offset))
        return val, K * eps * scale, scale
    exact_q = (fv + a.offset) * (a.q / b.q)
    dk = a.k - b.k
    val = float(exact_q) * math.pi ** dk - float(b.offset)
    if b.offset and dk:
        raise RefError('offset with pi')
    if not dk:
        val = float(exact_q - b.offset)
    K = a.ops + b.ops + abs(dk) + 8
    ratio = abs(float(a.q / b.q)) * math.pi ** dk
    scale = (abs(v) + abs(float(a.offset))) * ratio + abs(float(b.offset))
    return val, K * eps * scale, scale
