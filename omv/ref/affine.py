"""Reference formulas for driver scaling (C20/C21/C22/C23).  Pure NumPy - must not import openmdao.

A variable of interest (design variable / constraint / objective) is described by
    model value v_m (in the model's units `munits`)
    declared `units`  -> value in declared units   v_d = (v_m + UOFF[munits->units]) * UFAC   (own table)
    declared scaling  -> value the optimizer sees  v_s = (v_d + adder) * scaler
with   scaler = 1/(ref - ref0), adder = -ref0   when ref/ref0 are declared.

Bounds are declared in `units`, unscaled; their image under the (possibly orientation reversing,
scaler < 0) map v_d -> v_s is the interval with end points scaler*(lower+adder), scaler*(upper+adder)
*sorted*; +-INF_BOUND (1e30) stands for "no bound" and is preserved.
"""
import numpy as np

INF_BOUND = 1.0e30

# value_in_SI = (value + offset) * factor  for the small table the generators draw from
_SI = {
    'm': (1.0, 0.0), 'cm': (0.01, 0.0), 'km': (1000.0, 0.0), 'ft': (0.3048, 0.0), 'inch': (0.0254, 0.0),
    'mm': (0.001, 0.0),
    'degK': (1.0, 0.0), 'degC': (1.0, 273.15), 'degF': (5.0 / 9.0, 459.67),
    's': (1.0, 0.0), 'min': (60.0, 0.0), 'ms': (0.001, 0.0),
}
FAMILIES = {'length': ['m', 'cm', 'km', 'ft', 'inch', 'mm'], 'temp': ['degK', 'degC', 'degF'],
            'time': ['s', 'min', 'ms']}


def unit_affine(src, dst):
    """Return (factor, offset) with  value_dst = (value_src + offset) * factor."""
    if src is None or dst is None or src == dst:
        return 1.0, 0.0
    fs, os_ = _SI[src]
    fd, od = _SI[dst]
    # SI = (v_s + os)*fs = (v_d + od)*fd  ->  v_d = (v_s + os)*fs/fd - od = (v_s + os - od*fd/fs) * fs/fd
    fac = fs / fd
    off = os_ - od * fd / fs
    return fac, off


def to_units(v, src, dst):
    fac, off = unit_affine(src, dst)
    return (np.asarray(v, float) + off) * fac


def from_units(v, src, dst):
    """inverse of to_units(v, src, dst)."""
    fac, off = unit_affine(src, dst)
    return np.asarray(v, float) / fac - off


def scaler_adder(sc, size):
    """Declared scaling dict -> (scaler array, adder array) of length size.

    sc: None or {'kind': 'sa', 'scaler': x|list|None, 'adder': x|list|None}
               or {'kind': 'ref', 'ref': x|list|None, 'ref0': x|list|None}
    """
    one = np.ones(size)
    if not sc or sc.get('kind') in (None, 'none'):
        return one.copy(), 0.0 * one
    if sc['kind'] == 'sa':
        s = sc.get('scaler')
        a = sc.get('adder')
        s = one.copy() if s is None else np.asarray(s, float) * one
        a = 0.0 * one if a is None else np.asarray(a, float) * one
        return s, a
    if sc['kind'] == 'ref':
        r = sc.get('ref')
        r0 = sc.get('ref0')
        r = one.copy() if r is None else np.asarray(r, float) * one
        r0 = 0.0 * one if r0 is None else np.asarray(r0, float) * one
        return 1.0 / (r - r0), -r0
    raise ValueError(sc)


def scaling_kwargs(sc):
    """kwargs for add_design_var/add_constraint/add_objective from the declared scaling dict."""
    kw = {}
    if not sc or sc.get('kind') in (None, 'none'):
        return kw
    keys = ('scaler', 'adder') if sc['kind'] == 'sa' else ('ref', 'ref0')
    for k in keys:
        v = sc.get(k)
        if v is not None:
            kw[k] = np.asarray(v, float) if isinstance(v, (list, tuple)) else float(v)
    return kw


def scaling_tags(sc, size=None):
    """Structural features of a scaling declaration (for mechanism keys / cells)."""
    if not sc or sc.get('kind') in (None, 'none'):
        return ['noscale']
    t = [sc['kind']]
    vals = [sc.get(k) for k in (('scaler', 'adder') if sc['kind'] == 'sa' else ('ref', 'ref0'))]
    if any(isinstance(v, (list, tuple)) for v in vals):
        t.append('array')
    s, _ = scaler_adder(sc, size or max([len(v) for v in vals if isinstance(v, (list, tuple))] + [1]))
    if np.any(s < 0):
        t.append('neg')
    return t


def scale(v_d, sc):
    v_d = np.asarray(v_d, float).ravel()
    s, a = scaler_adder(sc, v_d.size)
    return (v_d + a) * s


def unscale(v_s, sc):
    v_s = np.asarray(v_s, float).ravel()
    s, a = scaler_adder(sc, v_s.size)
    return v_s / s - a


def bound_arrays(lower, upper, size):
    """Declared bounds (None / scalar / list) -> arrays with +-INF_BOUND for absent."""
    lo = np.full(size, -INF_BOUND) if lower is None else np.asarray(lower, float) * np.ones(size)
    hi = np.full(size, INF_BOUND) if upper is None else np.asarray(upper, float) * np.ones(size)
    return lo, hi


def image_bounds(lo, hi, sc):
    """Image of [lo, hi] (declared units, arrays, +-INF_BOUND = none) under the scaling map.

    Returns (lo_s, hi_s, lo_naive, hi_naive): the sorted image, and the end points mapped one by one
    (what an implementation that does not swap would produce).  Infinite ends stay infinite in the
    image: the image of [l, +inf) under a decreasing map is (-inf, s*(l+a)].
    """
    lo = np.asarray(lo, float)
    hi = np.asarray(hi, float)
    s, a = scaler_adder(sc, lo.size)
    lo_inf = lo <= -INF_BOUND
    hi_inf = hi >= INF_BOUND
    ml = np.where(lo_inf, -INF_BOUND, (lo + a) * s)
    mh = np.where(hi_inf, INF_BOUND, (hi + a) * s)
    neg = s < 0
    # orientation reversing: the lower end of the image is the image of the upper bound
    lo_s = np.where(neg, np.where(hi_inf, -INF_BOUND, (hi + a) * s), ml)
    hi_s = np.where(neg, np.where(lo_inf, INF_BOUND, (lo + a) * s), mh)
    return lo_s, hi_s, ml, mh


def violation(v, lo, hi, equals=None):
    """Signed distance outside [lo, hi] (or from equals); 0 when satisfied.  Arrays, declared units."""
    v = np.asarray(v, float).ravel()
    if equals is not None:
        return v - np.asarray(equals, float) * np.ones(v.size)
    out = np.zeros(v.size)
    up = v > hi
    dn = v < lo
    out[up] = (v - hi)[up]
    out[dn] = (v - lo)[dn]
    return out
