"""Pure-NumPy reference material for the table-interpolation checks (C15, C16).

Nothing here imports openmdao.  Contents:

* grid generator (strictly increasing, random spacing ratios, located in positive / negative /
  zero-straddling / zero-ending / zero-starting ranges);
* tensor-product polynomials of a given per-axis degree (value + gradient) -- the functions the
  table methods are exact for;
* round-off amplification factors ("kappa") per method and axis, derived from the grid spacing:
  they bound how much the documented evaluation formulas amplify one unit of round-off in the
  table values, so that tolerances are *derived* rather than tuned.
"""
import numpy as np

EPS = float(np.finfo(float).eps)

LOC_KINDS = ('pos', 'neg', 'straddle', 'end-zero', 'start-zero')

# polynomial degree per axis each method reproduces exactly
EXACT_DEGREE = {
    'slinear': 1, 'akima': 1, 'cubic': 1,
    'lagrange2': 2, 'lagrange3': 3,
    'scipy_slinear': 1, 'scipy_cubic': 3, 'scipy_quintic': 5,
    '1D-slinear': 1, '2D-slinear': 1, '3D-slinear': 1, '1D-akima': 1,
    '1D-lagrange2': 2, '2D-lagrange2': 2, '3D-lagrange2': 2,
    '1D-lagrange3': 3, '2D-lagrange3': 3, '3D-lagrange3': 3,
}
# minimum number of points per axis the method accepts
MIN_POINTS = {
    'slinear': 2, 'akima': 4, 'cubic': 4, 'lagrange2': 3, 'lagrange3': 4,
    'scipy_slinear': 2, 'scipy_cubic': 4, 'scipy_quintic': 6,
    '1D-slinear': 2, '2D-slinear': 2, '3D-slinear': 2, '1D-akima': 4,
    '1D-lagrange2': 3, '2D-lagrange2': 3, '3D-lagrange2': 3,
    '1D-lagrange3': 4, '2D-lagrange3': 4, '3D-lagrange3': 4,
}
FIXED_DIM = {'1D-slinear': 1, '2D-slinear': 2, '3D-slinear': 3, '1D-akima': 1,
             '1D-lagrange2': 1, '2D-lagrange2': 2, '3D-lagrange2': 3,
             '1D-lagrange3': 1, '2D-lagrange3': 2, '3D-lagrange3': 3}
GENERAL_OF = {k: k.split('-', 1)[1] for k in FIXED_DIM}


def make_grid(rng, n, kind, max_ratio):
    """Strictly increasing grid of n points; neighbouring spacings differ by up to max_ratio."""
    h = np.exp(rng.uniform(0.0, np.log(max_ratio), n - 1))
    g = np.concatenate([[0.0], np.cumsum(h)])
    g = g / g[-1]
    span = 10.0 ** rng.uniform(-1.0, 1.5)
    g = g * span
    if kind == 'pos':
        g = g + span * rng.uniform(0.05, 2.0)
    elif kind == 'neg':
        g = g - g[-1] - span * rng.uniform(0.05, 2.0)
    elif kind == 'straddle':
        g = g - span * rng.uniform(0.2, 0.8)
    elif kind == 'end-zero':
        g = g - g[-1]
        g[-1] = 0.0
    elif kind == 'start-zero':
        g[0] = 0.0
    else:
        raise ValueError(kind)
    if not np.all(np.diff(g) > 0):
        raise ValueError('grid not strictly increasing')
    return g


def grid_class(g):
    """Mechanism class of a grid axis: sign of its last coordinate (drives the bounds test)."""
    if g[-1] < 0:
        return 'end-neg'
    if g[-1] == 0:
        return 'end-zero'
    return 'end-pos'


class TensorPoly(object):
    """p(x) = sum_I C[I] prod_d t_d^I_d with t_d = (x_d - c_d)/s_d (normalised to about [-1, 1]).

    degree : int or one int per axis.
    """

    def __init__(self, rng, grids, degree):
        nd = len(grids)
        self.c = np.array([0.5 * (g[0] + g[-1]) for g in grids])
        self.s = np.array([0.5 * (g[-1] - g[0]) for g in grids])
        self.deg = [int(degree)] * nd if np.isscalar(degree) else [int(d) for d in degree]
        self.C = rng.uniform(-1.0, 1.0, size=tuple(d + 1 for d in self.deg))
        self.abs_sum = float(np.abs(self.C).sum())

    def _t(self, x):
        return (np.asarray(x, dtype=float) - self.c) / self.s

    def _contract(self, vecs):
        out = self.C
        for v in vecs:
            out = np.tensordot(v, out, axes=(0, 0))
        return float(out)

    def __call__(self, x):
        t = self._t(x)
        return self._contract([t[d] ** np.arange(self.deg[d] + 1) for d in range(len(t))])

    def grad(self, x):
        t = self._t(x)
        nd = len(t)
        pows = [t[d] ** np.arange(self.deg[d] + 1) for d in range(nd)]
        g = np.zeros(nd)
        for d in range(nd):
            k = np.arange(self.deg[d] + 1)
            dp = np.zeros(self.deg[d] + 1)
            dp[1:] = k[1:] * t[d] ** (k[1:] - 1)
            g[d] = self._contract([dp if e == d else pows[e] for e in range(nd)]) / self.s[d]
        return g

    def table(self, grids):
        mesh = np.meshgrid(*grids, indexing='ij')
        pts = np.stack([m.ravel() for m in mesh], axis=1)
        return np.array([self(p) for p in pts]).reshape(mesh[0].shape)


# ------------------------------------------------------------------------------------------------
# round-off amplification factors
# ------------------------------------------------------------------------------------------------
def _cells(g, x):
    """Indices i of the cells [g_i, g_i+1] that contain x (two when x is an interior node)."""
    n = len(g)
    i = int(np.searchsorted(g, x, side='right')) - 1
    i = min(max(i, 0), n - 2)
    out = {i}
    if x <= g[i] and i > 0:
        out.add(i - 1)
    if x >= g[i + 1] and i < n - 2:
        out.add(i + 1)
    return sorted(out)


def _windows(g, x, k):
    """All windows of k consecutive nodes that contain a cell containing x."""
    n = len(g)
    out = set()
    for i in _cells(g, x):
        for s in range(max(0, i + 2 - k), min(i, n - k) + 1):
            out.add(s)
    return sorted(out)


def lebesgue(g, x, k):
    """max over candidate k-node stencils of sum_m |L_m(x)| (node-relative Lagrange form)."""
    best = 1.0
    for s in _windows(g, x, k):
        p = g[s:s + k]
        tot = 0.0
        for m in range(k):
            num = np.prod([abs(x - p[j]) for j in range(k) if j != m])
            den = np.prod([abs(p[m] - p[j]) for j in range(k) if j != m])
            tot += num / den
        best = max(best, tot)
    return best


def monomial_lebesgue(g, x, k, origin_shift):
    """Same, for a Lagrange polynomial expanded in powers of (x - o): every |x - p_j| is replaced by
    |x - o| + |p_j - o| (sum of the absolute values of the expanded terms).  o = first stencil node
    (origin_shift=True, the 'deltas' form used by the fixed lagrange tables) or 0 (the 2D/3D-slinear
    tables expand in powers of the raw coordinates)."""
    best = 1.0
    for s in _windows(g, x, k):
        p = g[s:s + k]
        o = p[0] if origin_shift else 0.0
        tot = 0.0
        for m in range(k):
            num = np.prod([abs(x - o) + abs(p[j] - o) for j in range(k) if j != m])
            den = np.prod([abs(p[m] - p[j]) for j in range(k) if j != m])
            tot += num / den
        best = max(best, tot)
    return best


def kappa_axis(method, g, x):
    """Amplification of one unit of relative round-off of max|values| along one axis.

    slinear (cell-relative form)     : 1  (convex combination of two values)
    lagrangeN general                : Lebesgue function of the stencil (node-relative products)
    lagrangeN fixed                  : the same with the polynomial expanded about the first stencil
                                       node (that is how the fixed tables store their coefficients)
    2D/3D-slinear                    : expanded about the origin: (|x|+|g|)/h terms
    akima                            : slopes of neighbouring cells enter the cell's cubic: a slope
                                       carries round-off eps*|v|/h_j and is multiplied by dx <= h_cell
                                       => h_cell / min(h_j) over the 5 cells the formula reads
    cubic (natural spline)           : second derivatives carry eps*|v|*12/h_min^2 (diagonally dominant
                                       tridiagonal system, ||A^-1||_inf <= 1) and are multiplied by
                                       h_cell^2/6 => 1 + 2*(h_cell/h_min)^2
    scipy_*                          : see kappa_scipy (needs scipy, computed by the caller)
    """
    g = np.asarray(g, dtype=float)
    h = np.diff(g)
    base = method.split('-', 1)[1] if method in FIXED_DIM else method
    fixed = method in FIXED_DIM
    if base == 'slinear':
        if fixed and FIXED_DIM[method] > 1:
            return monomial_lebesgue(g, x, 2, origin_shift=False)
        return 1.0
    if base == 'lagrange2':
        return monomial_lebesgue(g, x, 3, True) if fixed else lebesgue(g, x, 3)
    if base == 'lagrange3':
        return monomial_lebesgue(g, x, 4, True) if fixed else lebesgue(g, x, 4)
    if base == 'akima':
        k = 1.0
        for i in _cells(g, x):
            lo, hi = max(0, i - 2), min(len(h), i + 3)
            k = max(k, h[i] / h[lo:hi].min())
        return 4.0 * k
    if base == 'cubic':
        k = 1.0
        for i in _cells(g, x):
            k = max(k, 1.0 + 2.0 * (h[i] / h.min()) ** 2)
        return k
    raise KeyError(method)


def kappa_scipy(g, x, order):
    """Spline interpolation through scipy's make_interp_spline: round-off of the banded collocation
    solve is bounded by cond(A)*eps*|v|; evaluation multiplies by the spline Lebesgue function."""
    from scipy.interpolate import make_interp_spline
    k = min(order, len(g) - 1)
    card = make_interp_spline(g, np.eye(len(g)), k=k, axis=0)
    leb = float(np.abs(card(x)).sum())
    from scipy.interpolate import BSpline
    A = BSpline.design_matrix(g, card.t, k).toarray()
    return max(1.0, leb) * float(np.linalg.cond(A))


SCIPY_ORDER = {'scipy_slinear': 1, 'scipy_cubic': 3, 'scipy_quintic': 5}


def kappa(method, grids, x):
    """Product over the axes (each axis both adds its own round-off and amplifies the round-off the
    inner axes delivered)."""
    k = 1.0
    for g, xd in zip(grids, x):
        if method in SCIPY_ORDER:
            k *= kappa_scipy(np.asarray(g, dtype=float), float(xd), SCIPY_ORDER[method])
        else:
            k *= kappa_axis(method, g, float(xd))
    return k


def value_tol(method, grids, x, vmax):
    """Absolute tolerance for comparing an interpolated value with its exact counterpart.

    32 flops per axis level on operands bounded by kappa*vmax  =>  32*ndim*eps*kappa*vmax.
    """
    nd = len(grids)
    return 32.0 * nd * EPS * kappa(method, grids, x) * vmax


def deriv_expanded_roundoff(method, grids, x, vmax, semi=False):
    """Extra absolute round-off, per axis, of the d/dx formulas that are written in EXPANDED absolute coordinates.

    The general (N-D) lagrange tables evaluate the value in node-relative products (x - p_j), but the derivative
    along the table's own axis as
        lagrange3 (structured and semi-structured):  sum_a q_a * (3x^2 - 2x(p_b+p_c+p_d) + p_b p_c + p_b p_d + p_c p_d)
        lagrange2 (structured only)               :  sum_a q_a * (2x - p_b - p_c)
    with q_a = v_a / prod_b (p_a - p_b).  The terms of the bracket are O(x^2) (O(x)) while the bracket itself is
    O(h^2) (O(h)): on a grid far from the origin ((|x|/h)^2 >> 1) the bracket cancels and carries
    eps * (sum of the absolute values of its terms).  Bound: 16 flops on operands bounded by
    kappa_other * vmax * A_a / den_a, summed over the stencil, worst candidate stencil; kappa (all axes) bounds the
    sub-table values q_a is built from and the outer axes' amplification of this axis' derivative.
    Methods that do not use such a form get 0.
    """
    nd = len(grids)
    out = np.zeros(nd)
    if method == 'lagrange3':
        k = 4
    elif method == 'lagrange2' and not semi:
        k = 3
    else:
        return out
    kap = kappa(method, grids, x)
    for d in range(nd):
        g = np.asarray(grids[d], dtype=float)
        xd = abs(float(x[d]))
        worst = 0.0
        for s in _windows(g, float(x[d]), k):
            p = np.abs(g[s:s + k])
            tot = 0.0
            for a in range(k):
                o = [p[j] for j in range(k) if j != a]
                den = np.prod([abs(g[s + a] - g[s + j]) for j in range(k) if j != a])
                if k == 4:
                    A = 3.0 * xd * xd + 2.0 * xd * sum(o) + o[0] * o[1] + o[0] * o[2] + o[1] * o[2]
                else:
                    A = 2.0 * xd + sum(o)
                tot += A / den
            worst = max(worst, tot)
        out[d] = 16.0 * EPS * kap * vmax * worst
    return out
