"""Pure-NumPy helpers for the surrogate-model check (C28).  Nothing here imports openmdao.

* well-separated training sets;
* random quadratics (value, gradient, monomial coefficient vector in ResponseSurface's ordering);
* Kriging: correlation matrix rebuilt from the fitted thetas and the reproduction-error bound that
  follows from the implementation's documented Tikhonov-regularised pseudo-inverse;
* brute-force nearest neighbours in the unit-hypercube normalisation the NN interpolants document.
"""
import numpy as np

EPS = float(np.finfo(float).eps)


def separated_points(rng, n, d, lo, hi, max_tries=200):
    """n points in the box [lo, hi]^d whose normalised mutual distance is >= 0.4 * n^(-1/d)."""
    dmin = 0.4 * n ** (-1.0 / d)
    pts = []
    tries = 0
    while len(pts) < n:
        c = rng.uniform(0.0, 1.0, d)
        if all(np.linalg.norm(c - p) >= dmin for p in pts):
            pts.append(c)
            tries = 0
        else:
            tries += 1
            if tries > max_tries:
                dmin *= 0.9
                tries = 0
    u = np.array(pts)
    return lo + u * (hi - lo)


class Quadratic(object):
    """q_k(x) = c_k + b_k.x + x.A_k.x for k outputs (A upper-triangular incl. diagonal)."""

    def __init__(self, rng, d, k):
        self.d, self.k = d, k
        self.c = rng.uniform(-2, 2, k)
        self.b = rng.uniform(-2, 2, (k, d))
        self.A = np.triu(rng.uniform(-2, 2, (k, d, d)))

    def __call__(self, x):
        x = np.asarray(x, dtype=float)
        return self.c + self.b @ x + np.einsum('i,kij,j->k', x, self.A, x)

    def grad(self, x):
        x = np.asarray(x, dtype=float)
        return self.b + np.einsum('kij,j->ki', self.A, x) + np.einsum('i,kij->kj', x, self.A)

    def beta_norm(self):
        return float(np.sqrt(self.c ** 2 + (self.b ** 2).sum(1) + (self.A ** 2).sum((1, 2))).max())


def quad_features(x):
    """[1, x_i, x_i x_j (i <= j)] : the monomial basis of a full quadratic."""
    x = np.asarray(x, dtype=float)
    d = x.size
    out = [1.0] + list(x)
    for i in range(d):
        for j in range(i, d):
            out.append(x[i] * x[j])
    return np.array(out)


def quad_feature_grads(x):
    """d features / d x_d : array (d, nfeat)."""
    x = np.asarray(x, dtype=float)
    d = x.size
    rows = []
    for e in range(d):
        g = [0.0] + [1.0 if i == e else 0.0 for i in range(d)]
        for i in range(d):
            for j in range(i, d):
                g.append((x[j] if i == e else 0.0) + (x[i] if j == e else 0.0))
        rows.append(g)
    return np.array(rows)


# ------------------------------------------------------------------------------------------------
def kriging_R(x, thetas):
    """Correlation matrix of the Gaussian kernel on mean/std-normalised inputs (nugget 0)."""
    x = np.asarray(x, dtype=float)
    mean = x.mean(axis=0)
    std = x.std(axis=0)
    std[std == 0.0] = 1.0
    xn = (x - mean) / std
    d2 = (xn[:, None, :] - xn[None, :, :]) ** 2
    R = np.exp(-(d2 * np.asarray(thetas)[None, None, :]).sum(axis=2))
    return R, xn, mean, std


def kriging_bound(R):
    """Relative bound on |R alpha - Y| / ||Y||_2 for alpha = V diag(s/(s^2+h^2)) U^T Y, h = 1e-8 s_max.

    Exact arithmetic: the residual component along singular vector k is h^2/(s_k^2+h^2) (u_k.Y), so the
    residual is at most h^2/(s_min^2+h^2) ||Y||.  Floating point adds the usual cond*eps of forming
    alpha and of the dot products r.alpha (|alpha| <= ||Y||/s_eff with s_eff >= s_min).
    """
    s = np.linalg.svd(R, compute_uv=False)
    h = 1e-8 * s[0]
    reg = float(h * h / (s[-1] ** 2 + h * h))
    inv = s / (s ** 2 + h * h)
    cond_eff = float(s[0] * inv.max())          # ||R|| * ||regularised inverse||
    return reg, cond_eff, float(s[0] / s[-1]) if s[-1] > 0 else float('inf')


# ------------------------------------------------------------------------------------------------
def unit_normalise(x):
    lo = x.min(axis=0)
    rng = x.max(axis=0) - lo
    rng[rng == 0] = 1.0
    return (x - lo) / rng, lo, rng


def knn(xn, q, k):
    """Indices and distances of the k nearest rows of xn to q (brute force)."""
    d = np.sqrt(((xn - q) ** 2).sum(axis=1))
    idx = np.argsort(d, kind='stable')[:k]
    return idx, d[idx]
