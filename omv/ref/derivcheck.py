"""Pure NumPy reference for C13: the harness function, its difference quotients and the documented error
fields of check_partials / check_totals.  Must not import openmdao.

Harness function of one component:   y_o = sum_i  A[o,i] @ g_i(x_i)        (blocks A[o,i], elementwise g_i)
"""
import numpy as np

EPS = np.finfo(float).eps

G = {
    'lin': (lambda x: x, lambda x: np.ones_like(x)),
    'sq': (lambda x: x * x, lambda x: 2 * x),
    'sin': (lambda x: np.sin(x) + 2 * x, lambda x: np.cos(x) + 2),
}


def fd_jac(f, x, h, form):
    """Difference quotient with absolute step h, one column per entry of x (documented formulas)."""
    f0 = f(x)
    J = np.zeros((f0.size, x.size))
    for j in range(x.size):
        e = np.zeros(x.size)
        e[j] = h
        if form == 'forward':
            J[:, j] = (f(x + e) - f0) / h
        elif form == 'backward':
            J[:, j] = (f0 - f(x - e)) / h
        else:
            J[:, j] = (f(x + e) - f(x - e)) / (2 * h)
    return J


def cs_jac(f, x, h):
    J = None
    for j in range(x.size):
        xc = x.astype(complex)
        xc[j] += 1j * h
        col = np.imag(f(xc)) / h
        if J is None:
            J = np.zeros((col.size, x.size))
        J[:, j] = col
    return J


U = EPS / 2          # unit round-off of float64

# Relative round-off budget of one evaluation of g (in units of U): 'lin' 0, 'sq' one rounding, 'sin' =
# sin(x) + 2x with sin accurate to 4 ulp = 8U (NumPy's SIMD kernels; glibc is < 1 ulp), 2x exact, one rounding
# for the sum of two positive numbers -> at most 9U.
G_ROUNDOFF_U = 9


def eval_roundoff(S, nterms):
    """Bound of |computed f_o - exact f_o| for ONE evaluation of f_o = sum_j a_oj g(x_j) with `nterms` terms.

    S is the sum of the operand magnitudes, S_o = sum_j |a_oj| |g(x_j)| (NOT |f_o|: f may cancel; the witness
    that motivated this had |f| = 1.8e-3 with S = 4.2).  Standard bound for an inner product (Higham, Accuracy
    and Stability of Numerical Algorithms, section 3.1): every term carries the error of g (<= G_ROUNDOFF_U), one
    rounding of the product and at most nterms - 1 roundings of partial sums, IN ANY SUMMATION ORDER (with or
    without FMA):   |error| <= (nterms - 1 + 1 + G_ROUNDOFF_U) U S_o   to first order in U.
    The order does differ between the two evaluations that are compared: under force_alloc_complex=True the
    component sees its inputs as a stride-16 real view of a complex array and ndarray.dot takes another kernel
    than for the contiguous array of the harness (observed: 0.35 eps S between the two)."""
    return (nterms + G_ROUNDOFF_U) * U * np.asarray(S, dtype=float)


def fd_tolerance(eval_err, h, form, J):
    """Bound of |reported quotient - harness quotient| when both implement the documented formula.

    Both perturb the same float64 x_j by the same float64 h, so fl(x_j +- h) is the SAME number in both (one IEEE
    addition; OpenMDAO restores the inputs from a copy after every point, there is no drift): the representation
    error of x + h contributes nothing to the difference.  What differs is the round-off of the function values:
    each quotient uses two evaluations (f(x+h), f(x) | f(x), f(x-h) | f(x+h), f(x-h)), each off by at most
    `eval_err` (see eval_roundoff; array broadcastable to J), so the two numerators differ by at most
    4 eval_err and the quotients by 4 eval_err / h (forward, backward) or 4 eval_err / (2h) (central).
    The remaining operations (the subtraction of two nearby numbers, the division by h in the harness; in OpenMDAO
    r = y0 - f(x+-h), the products coeff * r with coeff = fl(+-1/h) or fl(+-0.5/h), their sum and the final sign
    flip) are a handful of roundings RELATIVE to the quotient: covered by 1e-12 |J|."""
    den = 2 * h if form == 'central' else h
    return 4 * np.asarray(eval_err, dtype=float) / den + 1e-12 * np.abs(J) + 1e-300


def error_arrays(Jf, Jd, atol, rtol):
    E = np.abs(Jf - Jd)
    V = E - (atol + rtol * np.abs(Jd))
    return E, V


def judge_error_fields(Jf, Jd, atol, rtol, tv, vals, abs_err, rel_err):
    """Compare the reported scalar fields with the documented functions of the two reported blocks.
    Returns list of (field, text)."""
    out = []
    Jf = np.asarray(Jf, dtype=float)
    Jd = np.asarray(Jd, dtype=float)
    if Jf.shape != Jd.shape:
        return [('shape', 'analytic block %s vs approximated block %s' % (Jf.shape, Jd.shape))]
    if Jf.size == 0:
        return out
    E, V = error_arrays(Jf, Jd, atol, rtol)
    vmax = V.max()
    scale = max(np.abs(Jf).max(), np.abs(Jd).max(), 1e-300)
    tol = 8 * EPS * scale
    if not (abs(tv - vmax) <= tol):
        out.append(('tol violation', 'reported %r, max(|Ja-Jfd| - (atol + rtol|Jfd|)) = %r' % (tv, vmax)))
    # the reported pair must be an actual entry pair at a location of maximal violation
    cand = np.argwhere(np.abs(V - vmax) <= tol)
    ok_pair = False
    if vals is not None:
        for idx in cand:
            t = tuple(idx)
            if abs(Jf[t] - vals[0]) <= tol and abs(Jd[t] - vals[1]) <= tol:
                ok_pair = True
                if not (abs(abs_err - E[t]) <= tol):
                    out.append(('abs error', 'reported %r, |Ja-Jfd| at the reported location = %r' %
                                (abs_err, E[t])))
                if Jd[t] != 0.0:
                    want = E[t] / abs(Jd[t])
                    if not (abs(rel_err - want) <= 1e-12 * max(want, 1e-300) + 1e-300):
                        out.append(('rel error', 'reported %r, |Ja-Jfd|/|Jfd| at the reported location = %r' %
                                    (rel_err, want)))
                break
        if not ok_pair:
            out.append(('vals_at_max_error', 'reported pair %r is not an (analytic, approximated) entry pair at '
                        'a location of maximal violation' % (vals,)))
    return out
