"""Pure NumPy reference for C13: the harness function, its difference quotients and the documented error
fields of check_partials / check_totals.  Must not import openmdao.

Harness function of one component:   y_o = sum_i  A[o,i] @ g_i(x_i)        (blocks A[o,i], elementwise g_i)
"""
import numpy as np

EPS = np.finfo(float).eps

G = {
    'lin': (lambda x: x, lambda x: np.ones_like(x)),
    'sq': (lambda x: x * x, lambda x: 2 * x),
    'sin': (lambda x: np.sin(x) + 2 * x, lambda x: np.cos(x) + 2),
}


def fd_jac(f, x, h, form):
    """Difference quotient with absolute step h, one column per entry of x (documented formulas)."""
    f0 = f(x)
    J = np.zeros((f0.size, x.size))
    for j in range(x.size):
        e = np.zeros(x.size)
        e[j] = h
        if form == 'forward':
            J[:, j] = (f(x + e) - f0) / h
        elif form == 'backward':
            J[:, j] = (f0 - f(x - e)) / h
        else:
            J[:, j] = (f(x + e) - f(x - e)) / (2 * h)
    return J


def cs_jac(f, x, h):
    J = None
    for j in range(x.size):
        xc = x.astype(complex)
        xc[j] += 1j * h
        col = np.imag(f(xc)) / h
        if J is None:
            J = np.zeros((col.size, x.size))
        J[:, j] = col
    return J


def fd_tolerance(fmax, h, form, J):
    """|reported - reference| bound: both evaluate the same quotient in float64; the two subtractions and the
    division differ by at most a few roundings of operands of size fmax -> 16*eps*fmax/h (central: /2h has the
    same relative effect), plus 1e-12 relative on the quotient itself."""
    return 16 * EPS * fmax / h + 1e-12 * np.abs(J) + 1e-300


def error_arrays(Jf, Jd, atol, rtol):
    E = np.abs(Jf - Jd)
    V = E - (atol + rtol * np.abs(Jd))
    return E, V


def judge_error_fields(Jf, Jd, atol, rtol, tv, vals, abs_err, rel_err):
    """Compare the reported scalar fields with the documented functions of the two reported blocks.
    Returns list of (field, text)."""
    out = []
    Jf = np.asarray(Jf, dtype=float)
    Jd = np.asarray(Jd, dtype=float)
    if Jf.shape != Jd.shape:
        return [('shape', 'analytic block %s vs approximated block %s' % (Jf.shape, Jd.shape))]
    if Jf.size == 0:
        return out
    E, V = error_arrays(Jf, Jd, atol, rtol)
    vmax = V.max()
    scale = max(np.abs(Jf).max(), np.abs(Jd).max(), 1e-300)
    tol = 8 * EPS * scale
    if not (abs(tv - vmax) <= tol):
        out.append(('tol violation', 'reported %r, max(|Ja-Jfd| - (atol + rtol|Jfd|)) = %r' % (tv, vmax)))
    # the reported pair must be an actual entry pair at a location of maximal violation
    cand = np.argwhere(np.abs(V - vmax) <= tol)
    ok_pair = False
    if vals is not None:
        for idx in cand:
            t = tuple(idx)
            if abs(Jf[t] - vals[0]) <= tol and abs(Jd[t] - vals[1]) <= tol:
                ok_pair = True
                if not (abs(abs_err - E[t]) <= tol):
                    out.append(('abs error', 'reported %r, |Ja-Jfd| at the reported location = %r' %
                                (abs_err, E[t])))
                if Jd[t] != 0.0:
                    want = E[t] / abs(Jd[t])
                    if not (abs(rel_err - want) <= 1e-12 * max(want, 1e-300) + 1e-300):
                        out.append(('rel error', 'reported %r, |Ja-Jfd|/|Jfd| at the reported location = %r' %
                                    (rel_err, want)))
                break
        if not ok_pair:
            out.append(('vals_at_max_error', 'reported pair %r is not an (analytic, approximated) entry pair at '
                        'a location of maximal violation' % (vals,)))
    return out
