"""Pure-NumPy reference formulas (value and analytic derivative) for the documented smooth helpers.

Never imports openmdao or jax.  All functions are elementwise on float64 arrays.

    act_tanh(x; mu, z, a, b) = a + (b - a)/2 * (1 + tanh((x - z)/mu))
    smooth_max(x, y; mu)     = s*x + (1 - s)*y,   s = (1 + tanh((x - y)/mu))/2
    smooth_min(x, y; mu)     = s*y + (1 - s)*x
    smooth_abs(x; mu)        = x * tanh(x/mu)
    smooth_round(x; mu)      = floor(x) + (1 + tanh((x - floor(x) - 1/2)/mu))/2
"""
import numpy as np


def sech2(t):
    """1/cosh(t)^2 with relative accuracy (no cancellation), 0 where cosh overflows."""
    t = np.abs(np.asarray(t, dtype=float))
    out = np.zeros_like(t)
    m = t < 350.0
    e = np.exp(-2.0 * t[m])          # sech^2 = 4 e^{-2t} / (1 + e^{-2t})^2
    out[m] = 4.0 * e / (1.0 + e) ** 2
    return out


def act_tanh(x, mu, z, a, b):
    return a + 0.5 * (b - a) * (1.0 + np.tanh((x - z) / mu))


def d_act_tanh(x, mu, z, a, b):
    return 0.5 * (b - a) * sech2((x - z) / mu) / mu


def _s(x, y, mu):
    return 0.5 * (1.0 + np.tanh((x - y) / mu))


def smooth_max(x, y, mu):
    s = _s(x, y, mu)
    return s * x + (1.0 - s) * y


def d_smooth_max(x, y, mu):
    """(d/dx, d/dy)."""
    s = _s(x, y, mu)
    ds = sech2((x - y) / mu) / (2.0 * mu)
    return s + (x - y) * ds, (1.0 - s) - (x - y) * ds


def smooth_min(x, y, mu):
    s = _s(x, y, mu)
    return s * y + (1.0 - s) * x


def d_smooth_min(x, y, mu):
    s = _s(x, y, mu)
    ds = sech2((x - y) / mu) / (2.0 * mu)
    return (1.0 - s) - (x - y) * ds, s + (x - y) * ds


def smooth_abs(x, mu):
    return x * np.tanh(x / mu)


def d_smooth_abs(x, mu):
    return np.tanh(x / mu) + x * sech2(x / mu) / mu


def smooth_round(x, mu):
    f = np.floor(x)
    return f + 0.5 * (1.0 + np.tanh((x - f - 0.5) / mu))


def d_smooth_round(x, mu):
    f = np.floor(x)
    return 0.5 * sech2((x - f - 0.5) / mu) / mu
