"""Regenerate the generated appendices of /verif/DESIGN.md (between the APPENDIX markers) from the check modules'
metadata, known_findings.json and seeded/*/meta.json.   run: python -m omv.tools.mkdesign"""
import json
import os
import sys

HERE = os.path.dirname(os.path.dirname(os.path.dirname(os.path.abspath(__file__))))
sys.path.insert(0, HERE)

from omv import checks  # noqa

BEGIN = '<!-- BEGIN GENERATED APPENDICES (python -m omv.tools.mkdesign) -->'
END = '<!-- END GENERATED APPENDICES -->'


def cell(s):
    return str(s).replace('|', '\\|').replace('\n', ' ')


def main():
    props = {json.loads(l)['id']: json.loads(l) for l in open(os.path.join(HERE, 'properties.jsonl'))}
    released = set(open(os.path.join(HERE, 'omv', 'checks', 'RELEASED')).read().split())
    out = [BEGIN, '']
    # ---- A: checks as built ------------------------------------------------------------------------
    out.append('## Appendix A — checks as built (from the check modules)\n')
    for pid in sorted(props):
        if pid not in checks.all_ids():
            out.append('### %s — %s\nno check module.\n' % (pid, props[pid]['title']))
            continue
        mod = checks.load(pid)
        out.append('### %s — %s%s' % (pid, props[pid]['title'], '' if pid in released else '  (NOT released)'))
        out.append('* module: `omv/checks/%s.py`' % mod.__name__.split('.')[-1])
        out.append('* deciding technique: %s' % getattr(mod, 'TECHNIQUE', ''))
        out.append('* cases / distinct / non-trivial: %s' % getattr(mod, 'RULE', ''))
        out.append('* minimum judged cases (else INCONCLUSIVE): %s' % getattr(mod, 'MIN_JUDGED', {}))
        rc = getattr(mod, 'REQUIRED_COUNTERS', [])
        out.append('* monitor counters that must be hit (else INCONCLUSIVE): %d — %s' %
                   (len(rc), ', '.join('`%s`' % c for c in rc[:40]) + (' …' if len(rc) > 40 else '')))
        for a in getattr(mod, 'ASSUMPTIONS', []):
            out.append('* assumes: %s' % a)
        out.append('')
    # ---- B: findings ---------------------------------------------------------------------------------
    kf = json.load(open(os.path.join(HERE, 'known_findings.json')))
    out.append('## Appendix B — genuine defects found by the checks (from known_findings.json)\n')
    out.append('### B.1 repaired in /repo (one `fix:` commit each; a fixed entry suppresses nothing)\n')
    out.append('| property | commit | what failed |')
    out.append('|---|---|---|')
    for line in kf['fixed']:
        rest = line[len('fixed: property='):]
        pid, commit, what = rest.split(' ', 2)
        out.append('| %s | `%s` | %s |' % (pid, commit, cell(what)))
    out.append('')
    out.append('### B.2 recorded, not repaired (printed as KNOWN-FINDING by the check; any other violation still fails)\n')
    out.append('| property | mechanism key | what fails |')
    out.append('|---|---|---|')
    for e in kf['findings']:
        out.append('| %s | `%s` | %s |' % (e['property'], e['key'], cell(e['what'])))
    out.append('')
    # ---- C: seeded changes -----------------------------------------------------------------------------
    out.append('## Appendix C — independently seeded regressions (from seeded/*/meta.json)\n')
    out.append('Each was written by a fresh sub-agent that saw only the property text and a scratch worktree; kept only '
               'after the demonstration was confirmed to pass without and fail with the change.\n')
    out.append('| seeded change | property | files | needs to manifest | detected by |')
    out.append('|---|---|---|---|---|')
    sd = os.path.join(HERE, 'seeded')
    for d in sorted(os.listdir(sd)):
        mp = os.path.join(sd, d, 'meta.json')
        if not os.path.exists(mp):
            continue
        m = json.load(open(mp))
        out.append('| `seeded/%s` | %s | %s | %s | %s |' % (d, m['property'], ', '.join('`%s`' % f for f in m['files_changed']),
                                                     cell(m['needs_to_manifest']), cell(m['detected_by'])))
    out.append('')
    out.append(END)
    p = os.path.join(HERE, 'DESIGN.md')
    s = open(p).read()
    if BEGIN in s:
        s = s[:s.index(BEGIN)] + '\n'.join(out) + s[s.index(END) + len(END):]
    else:
        s = s.rstrip('\n') + '\n\n---\n\n' + '\n'.join(out) + '\n'
    open(p, 'w').write(s)
    print('DESIGN.md appendices regenerated: %d lines' % len(out))


if __name__ == '__main__':
    main()
