"""Regenerate /verif/MANIFEST.json from the check modules' metadata (run: python -m omv.tools.mkmanifest)."""
import json
import os
import sys

HERE = os.path.dirname(os.path.dirname(os.path.dirname(os.path.abspath(__file__))))
sys.path.insert(0, HERE)

from omv import checks  # noqa


NOT_APPLICABLE_REASON = {}   # property -> reason, for properties without a check


def main():
    props = [json.loads(l) for l in open(os.path.join(HERE, 'properties.jsonl'))]
    released = set(open(os.path.join(HERE, 'omv', 'checks', 'RELEASED')).read().split())
    have = set(checks.all_ids()) & released
    out_checks = []
    na = []
    for p in props:
        pid = p['id']
        if pid not in have:
            na.append({'property_id': pid,
                       'reason': NOT_APPLICABLE_REASON.get(pid, 'no monitor registered yet for this property '
                                                                '(design in DESIGN.md section 5); not claimed')})
            continue
        mod = checks.load(pid)
        out_checks.append({
            'property_id': pid,
            'quick_cmd': './check %s --tier quick' % pid,
            'thorough_cmd': './check %s --tier thorough' % pid,
            'evidence_file': 'evidence/%s.json' % pid,
            'replay_cmd_template': './check %s --replay {path}' % pid,
            'engine': 'omv',
            'level_claimed': {
                'category': getattr(mod, 'LEVEL', 'exploration'),
                'text': getattr(mod, 'LEVEL_TEXT', 'Runtime monitoring: the real code is executed on generated '
                                'cases and an independent oracle judges every execution; held on the cases '
                                'listed in the evidence file, nothing beyond them.'),
                'design_ref': 'DESIGN.md section 5, %s' % pid,
            },
            'level_note': getattr(mod, 'LEVEL_NOTE', '; '.join(getattr(mod, 'ASSUMPTIONS', [])) or
                                  'oracle and generators in /verif/omv are trusted'),
            'technique': getattr(mod, 'TECHNIQUE', 'runtime monitoring: reference-model oracle over generated '
                                 'executions of the real code'),
        })
    man = {
        'version': 1,
        'setup_cmd': 'sh ./setup.sh',
        'hooks': {
            'guard': 'OPENMDAO_VERIF',
            'enable': 'no in-tree hooks: monitors wrap the real classes/functions from outside; '
                      'OPENMDAO_VERIF=1 is set by ./check and only read by /verif code',
            'baseline_off_cmd': 'cd /repo && /venv/bin/python -m pytest -ra -q -p no:cacheprovider --timeout=900 '
                                '--continue-on-collection-errors',
            'source_commits': [],
            'add_only': True,
        },
        'engines': [{'name': 'omv', 'path': 'omv/', 'serves_properties': sorted(have),
                     'kind_free_text': 'runtime monitors (reference-model oracles, contracts, event-log checkers, '
                                       'fault injection) driven by generated workloads; python'}],
        'checks': out_checks,
        'not_applicable': na,
        'notes': 'Every check: ./check <ID> --tier quick|thorough; honours VERIF_SEED and VERIF_TIER; exit 0 held, '
                 '1 violation (VIOLATION line + replay file), 2 inconclusive (monitor did not observe enough).',
    }
    with open(os.path.join(HERE, 'MANIFEST.json'), 'w') as f:
        json.dump(man, f, indent=1)
        f.write('\n')
    import jsonschema
    jsonschema.validate(man, json.load(open('/root/.vp/MANIFEST.schema.json')))
    print('MANIFEST.json: %d checks, %d not_applicable; valid' % (len(out_checks), len(na)))


if __name__ == '__main__':
    main()
