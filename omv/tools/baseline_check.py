"""Run the repository's own test-suite (hooks off) and compare with /root/.vp/BASELINE.json stable_pass.

usage: python -m omv.tools.baseline_check [-n 14] [pytest path args...]
Prints the baseline tests that did not pass.  Exit 0 iff all stable_pass tests that were run passed.
"""
import json
import os
import subprocess
import sys
import tempfile
import xml.etree.ElementTree as ET


def main():
    args = sys.argv[1:]
    n = '14'
    if args[:1] == ['-n']:
        n = args[1]
        args = args[2:]
    paths = args or ['/repo/openmdao']
    tmp = tempfile.mkdtemp(prefix='omv-baseline-')
    xml = os.path.join(tmp, 'junit.xml')
    env = dict(os.environ)
    env.pop('OPENMDAO_VERIF', None)
    env['OPENMDAO_REPORTS'] = '0'
    cmd = ['/venv/bin/python', '-m', 'pytest', '-q', '-p', 'no:cacheprovider', '--timeout=900',
           '--continue-on-collection-errors', '-n', n, '--junitxml=' + xml] + paths
    subprocess.run(cmd, cwd=tmp, env=env, stdout=subprocess.DEVNULL, stderr=subprocess.DEVNULL)
    base = set(json.load(open('/root/.vp/BASELINE.json'))['stable_pass'])
    passed, failed = set(), set()
    for tc in ET.parse(xml).getroot().iter('testcase'):
        name = '%s::%s' % (tc.get('classname'), tc.get('name'))
        bad = any(ch.tag in ('failure', 'error') for ch in tc)
        skipped = any(ch.tag == 'skipped' for ch in tc)
        if bad:
            failed.add(name)
        elif not skipped:
            passed.add(name)
    ran = passed | failed
    broken = sorted(t for t in base if t in failed)
    missing = sorted(t for t in base if t not in ran)
    print('baseline stable_pass=%d  ran-and-passed=%d  failed=%d  not-run/skipped=%d' %
          (len(base), len(base & passed), len(broken), len(missing)))
    for t in broken:
        print('BROKEN', t)
    if len(paths) == 1 and paths[0] == '/repo/openmdao':
        for t in missing[:50]:
            print('MISSING', t)
    subprocess.run(['rm', '-rf', tmp])
    return 1 if broken else 0


if __name__ == '__main__':
    sys.exit(main())
