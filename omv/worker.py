"""Worker process: runs one shard of one check and prints one OMV-RESULT line."""
import json
import os
import sys
import tempfile
import shutil
import traceback
import warnings


def main():
    prop = sys.argv[1]
    shard = json.loads(sys.argv[2])
    mode = sys.argv[3] if len(sys.argv) > 3 else 'shard'
    warnings.simplefilter('ignore')
    import numpy as np
    np.seterr(all='ignore')
    from omv.core import Acc, assert_repo
    from omv import checks
    assert_repo()
    mod = checks.load(prop)
    acc = Acc(prop, shard)
    tmp = tempfile.mkdtemp(prefix='omv-%s-' % prop)
    old = os.getcwd()
    os.chdir(tmp)
    err = None
    try:
        if mode == 'case':
            mod.run_case(shard, acc)
        else:
            mod.run_shard(shard, acc)
    except BaseException as e:  # harness error -> inconclusive, reported by parent
        err = ''.join(traceback.format_exception(type(e), e, e.__traceback__))[-4000:]
    finally:
        os.chdir(old)
        shutil.rmtree(tmp, ignore_errors=True)
    out = acc.dump()
    out['error'] = err
    sys.stdout.write('\nOMV-RESULT ' + json.dumps(out) + '\n')
    sys.stdout.flush()


if __name__ == '__main__':
    main()
