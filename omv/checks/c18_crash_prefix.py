"""C18 - Case recordings survive a crash at any point as a consistent prefix.

Fault enumeration: a deterministic recording scenario is run once to completion (reference) and then
once per kill point in a forked child that is SIGKILLed
  (b) before/after every SQL statement and before/after every commit of the recorder connections,
  (a) at entry of every mutating system call on the database / rollback-journal files (strace inject),
  (c) at pseudo-random Python call events and at random wall-clock instants.
After each crash the files are opened with the real CaseReader: it must open, list_cases() must be a
prefix (same order) of the reference list, every listed case must load and carry the reference values.
Kills that land before the first SqliteRecorder.startup() returned are only required not to yield a
file that opens *and* lies.
"""
import hashlib
import os
import random
import shutil

import numpy as np

from omv.core import fingerprint

PROPERTY = 'C18'
LEVEL = 'fault_enumeration'
TECHNIQUE = 'runtime monitoring + fault injection: SIGKILL at every SQL statement/commit boundary and at a strided ' \
            'sweep of the mutating syscalls on db/journal, then CaseReader vs. uninterrupted reference run'
RULE = ('kill points = for each scenario: every (pre|post)-(execute|commit) index of the recorder connections, '
        'every N-th entry of each mutating syscall (pwrite64, fdatasync, unlink, openat, ftruncate ...) on the '
        'recorder files and their journals (quick: every 8th; thorough: every 3rd, phase = seed mod 3), plus kills at random Python call counts / timer '
        'instants; distinct = distinct (scenario, mechanism, index); non-trivial = the kill landed after the '
        'recorder started and the child really died by SIGKILL')
LEVEL_TEXT = ('complete enumeration of statement/commit boundaries and a strided sweep of mutating-syscall entries on the '
              'database files for the listed scenarios; process death only - the page cache survives, power loss is '
              'not simulated')
ASSUMPTIONS = [
    'the scenario is deterministic, so the uninterrupted run of the same spec is the reference',
    '"after the recorder started" = after the first SqliteRecorder.startup() returned (marker file)',
    'a driver case is complete without its derivatives when it is the LAST listed driver case (derivatives are a '
    'separate, later record); for every earlier case the derivatives of the reference must be present',
    'timestamps are excluded from the comparison',
    'kill points are separate forked children of one warm worker (importing openmdao per child is too slow); each has '
    'its own scratch directory and watchdog',
]
MIN_JUDGED = {'quick': 250, 'thorough': 2000}
REQUIRED_COUNTERS = ['obs:kill:stmt:pre-exec', 'obs:kill:stmt:post-exec', 'obs:kill:stmt:pre-commit',
                     'obs:kill:stmt:post-commit', 'obs:kill:sys:pwrite64', 'obs:kill:sys:fdatasync',
                     'obs:kill:pycall', 'obs:file_opened', 'obs:hot_journal_at_open', 'obs:mid_transaction_kill',
                     'obs:proper_nonempty_prefix', 'obs:cases_loaded', 'obs:post_start_kills']
SHARD_TIMEOUT = {'quick': 3000, 'thorough': 7000}

NSCEN = {'quick': 1, 'thorough': 6}
NPARTS = {'quick': 16, 'thorough': 16}
SCEN_NAMES = ['mixed-doe-derivs', 'driver-slsqp-derivs', 'systems-nested', 'solvers-newton-ls',
              'metadata-heavy', 'problem-only']


# ----------------------------------------------------------------------------------------------
# scenarios
# ----------------------------------------------------------------------------------------------
def scenario(idx, seed):
    from omv.gen import recmodels as G
    rng = random.Random(seed * 7919 + idx * 101 + 5)
    name = SCEN_NAMES[idx]

    def model(cond, **kw):
        for _ in range(2000):
            m = G.gen_model(rng, allow_special=False, **kw)
            if cond(m):
                return m
        raise RuntimeError('no model for scenario %s' % name)

    def opts(reqs, m, **over):
        vi = G.varinfo(m)
        o = {}
        for kind, path in reqs:
            ok = 'solver' if kind == 'linesearch' else kind
            d = G.gen_rec_options(rng, ok, vi, path, plain=True)
            d.update(over.get(kind, {}))
            o['%s:%s' % (kind, path)] = d
        return o

    if name == 'mixed-doe-derivs':
        m = model(lambda m: len(m['comps']) <= 3 and (not m['cycle'] or m['cycle']['solver'] == 'nlbgs')
                  and G.indep_names(m), kmax=3)
        if m['cycle']:
            m['cycle']['maxiter'] = 2
        drv = G.gen_driver(rng, m, kinds=('doe',), ndoe=3)
        c0 = G.comp_path(m['comps'][0])
        f0 = [['problem', ''], ['driver', '']]
        f1 = [['system', ''], ['system', c0], ['solver', '']]
        rec = {'files': [{'file': './r0.sql', 'viewer': False, 'attach': f0},
                         {'file': './r1.sql', 'viewer': False, 'attach': f1}],
               'options': opts(f0 + f1, m)}
        ind = G.indep_names(m)
        seq = [['run_driver', None], ['record', 'a'], ['set', ind[0][0], [0.25] * ind[0][1]],
               ['run_model', 'r1'], ['record', 'b']]
    elif name == 'driver-slsqp-derivs':
        m = model(lambda m: len(m['comps']) <= 3 and not m['cycle'] and G.indep_names(m), kmax=3,
                  allow_discrete=False)
        drv = G.gen_driver(rng, m, kinds=('slsqp',))
        drv['maxiter'] = 3
        f0 = [['driver', ''], ['problem', '']]
        rec = {'files': [{'file': './r0.sql', 'viewer': False, 'attach': f0}], 'options': opts(f0, m)}
        seq = [['run_driver', None], ['record', 'final']]
    elif name == 'systems-nested':
        m = model(lambda m: 'g.h' in m['groups'] and len(m['comps']) <= 4 and
                  (not m['cycle'] or m['cycle']['solver'] == 'nlbgs'), kmax=4)
        if m['cycle']:
            m['cycle']['maxiter'] = 2
        drv = G.gen_driver(rng, m, kinds=('plain',))
        f0 = [['system', ''], ['system', 'g'], ['system', 'g.h']] + [['system', G.comp_path(c)] for c in m['comps']]
        rec = {'files': [{'file': './r0.sql', 'viewer': False, 'attach': f0}], 'options': opts(f0, m)}
        seq = [['run_driver', None], ['run_driver', 'r1']]
    elif name == 'solvers-newton-ls':
        m = model(lambda m: m['cycle'] and m['cycle']['solver'] == 'newton_ls' and len(m['comps']) <= 4, kmax=4)
        m['cycle']['maxiter'] = 3
        drv = G.gen_driver(rng, m, kinds=('none',))
        gp = m['cycle']['group']
        f0 = [['solver', gp], ['linesearch', gp], ['solver', '']] if gp else [['solver', ''], ['linesearch', '']]
        f1 = [['system', gp]]
        rec = {'files': [{'file': './r0.sql', 'viewer': False, 'attach': f0},
                         {'file': './r1.sql', 'viewer': False, 'attach': f1}], 'options': opts(f0 + f1, m)}
        seq = [['run_model', None], ['run_model', 'again']]
    elif name == 'metadata-heavy':
        m = model(lambda m: len(m['groups']) >= 1 and len(m['comps']) >= 4 and not m['cycle'], kmax=5)
        drv = G.gen_driver(rng, m, kinds=('plain',))
        f0 = [['driver', ''], ['problem', ''], ['system', '']]
        f1 = [['system', G.comp_path(m['comps'][-1])], ['driver', '']]
        rec = {'files': [{'file': './r0.sql', 'viewer': True, 'attach': f0},
                         {'file': './r1.sql', 'viewer': True, 'attach': f1}], 'options': opts(f0 + f1, m)}
        seq = [['run_driver', None], ['record', 'm0'], ['run_model', 'second']]
    else:   # problem-only
        m = model(lambda m: len(m['comps']) <= 3 and not m['cycle'] and G.indep_names(m), kmax=3)
        drv = G.gen_driver(rng, m, kinds=('plain',))
        f0 = [['problem', '']]
        rec = {'files': [{'file': './r0.sql', 'viewer': False, 'attach': f0}], 'options': opts(f0, m)}
        ind = G.indep_names(m)
        seq = [['run_model', None], ['record', 'p0'], ['set', ind[0][0], [0.5] * ind[0][1]], ['run_model', 'x'],
               ['record', 'p1'], ['record', 'p2'], ['run_driver', 'y'], ['record', 'p3']]
    return {'model': m, 'driver': drv, 'recorders': rec, 'sequence': seq, 'name': name}


# ----------------------------------------------------------------------------------------------
# reading a (possibly crashed) file
# ----------------------------------------------------------------------------------------------
def _digest_pad(pad):
    h = hashlib.blake2b(digest_size=8)
    if pad is None:
        return 'none'
    for n in sorted(pad.absolute_names() if hasattr(pad, 'absolute_names') else pad):
        v = pad[n]
        h.update(str(n).encode())
        if isinstance(v, np.ndarray) and v.dtype.kind in 'fiu':
            h.update(str(v.shape).encode())
            h.update(np.ascontiguousarray(v, dtype=float).tobytes())
        else:
            h.update(repr(v).encode())
    return h.hexdigest()


def _digest_derivs(d):
    if d is None:
        return 'none'
    h = hashlib.blake2b(digest_size=8)
    for k in sorted(d.keys(), key=str):
        h.update(str(k).encode())
        h.update(np.ascontiguousarray(np.asarray(d[k], dtype=float)).tobytes())
    return h.hexdigest()


def read_file(path):
    """-> list of dict(name, source, counter, data digest, derivs digest).  Raises what the reader raises."""
    import openmdao.api as om
    cr = om.CaseReader(path)
    out = []
    names = list(cr.list_cases(out_stream=None))
    for n in names:
        c = cr.get_case(n)
        if c is None:
            raise LookupError('get_case(%r) returned None' % n)
        out.append({'name': n, 'source': c.source, 'counter': c.counter,
                    'data': '%s/%s/%s/%r/%r' % (_digest_pad(c.inputs), _digest_pad(c.outputs), _digest_pad(c.residuals),
                                                c.abs_err, c.rel_err),
                    'derivs': _digest_derivs(c.derivatives), 'success': c.success})
    # every per-source listing must show exactly the cases of the global listing
    per_source = []
    for src in cr.list_sources(out_stream=None):
        per_source += list(cr.list_cases(src, recurse=False, out_stream=None))
    if sorted(per_source) != sorted(names):
        raise InconsistentListing('list_cases() shows %d cases, the per-source listings show %d: %s'
                                  % (len(names), len(per_source), sorted(set(per_source) ^ set(names))[:3]))
    return out


class InconsistentListing(Exception):
    pass


# ----------------------------------------------------------------------------------------------
# one kill point
# ----------------------------------------------------------------------------------------------
def point_key(pt):
    if pt['mode'] == 'stmt':
        return 'stmt:' + pt['kind']
    if pt['mode'] == 'sys':
        return 'sys:' + pt['syscall']
    return pt['mode']


def judge_point(spec, ref, pt, acc, tmp, files):
    from omv.kit import rec_child as RC
    wd = os.path.join(tmp, 'k')
    shutil.rmtree(wd, ignore_errors=True)
    case = {'spec': spec, 'point': pt}
    res = RC.fork_run(spec, wd, kill=pt, timeout=120, db_files=files)
    mech = point_key(pt)
    acc.count('time_ms:child:' + pt['mode'], int(res['elapsed'] * 1000))
    try:
        if res.get('timeout'):
            acc.skip('child-watchdog')
            return
        if res.get('child_error'):
            acc.viol('scenario-raises-in-child', res['child_error'][-300:], case)
            return
        if not res['signaled']:
            # the kill point was not reached (e.g. call count beyond the end): the run completed
            acc.count('obs:kill_not_reached:' + mech)
            acc.skip('kill-point-not-reached')
            return
        if pt['mode'] == 'sys' and not res.get('tracer_attached'):
            acc.skip('tracer-not-attached')
            return
        acc.count('obs:kill:' + mech)
        started = res['started']
        acc.count('obs:post_start_kills' if started else 'obs:pre_start_kills')
        bad = False
        any_hot = False
        for f in files:
            p = os.path.join(wd, f)
            refl = ref[f]
            stage = 'post-start' if started else 'pre-start'
            if not os.path.exists(p):
                acc.count('obs:%s:file_absent' % stage)
                continue
            hot = os.path.exists(p + '-journal')
            any_hot = any_hot or hot
            try:
                got = read_file(p)
            except Exception as e:  # noqa
                if started:
                    # a file that belongs to a recorder that had not been started itself is allowed to be unreadable
                    if _recorder_started(p):
                        acc.viol('%s:reader-raises:%s' % (mech.split(':')[0], type(e).__name__),
                                 'after kill at %s the file %s cannot be read: %s: %s'
                                 % (pt, f, type(e).__name__, str(e)[:200]), case, new_case=not bad)
                        bad = True
                    else:
                        acc.count('obs:post-start:other_recorder_not_started_yet')
                else:
                    acc.count('obs:pre-start:open_fails')
                continue
            acc.count('obs:file_opened')
            if hot:
                acc.count('obs:hot_journal_at_open')
            acc.count('obs:cases_loaded', len(got))
            n = len(got)
            pre = 'pre-start:opens-and-lies:' if not started else ''
            if n > len(refl):
                acc.viol(pre + 'not-a-prefix:longer', 'file %s lists %d cases, the complete run has %d' % (f, n, len(refl)),
                         case, new_case=not bad)
                bad = True
                continue
            for i in range(n):
                g, r = got[i], refl[i]
                if g['name'] != r['name'] or g['counter'] != r['counter']:
                    acc.viol(pre + 'not-a-prefix:different-case', 'file %s case #%d is %s/%s, reference %s/%s'
                             % (f, i, g['name'], g['counter'], r['name'], r['counter']), case, new_case=not bad)
                    bad = True
                    break
                if g['data'] != r['data']:
                    acc.viol(pre + 'case-values-differ', 'file %s case #%d %s data digest %s != reference %s'
                             % (f, i, g['name'], g['data'], r['data']), case, new_case=not bad)
                    bad = True
                    break
                if g['derivs'] != r['derivs']:
                    last_driver = max([j for j in range(n) if got[j]['source'] == 'driver'] or [-1])
                    if g['derivs'] == 'none' and i == last_driver and g['source'] == 'driver':
                        acc.count('obs:last_driver_case_without_derivs_yet')
                    else:
                        acc.viol(pre + 'case-derivatives-differ', 'file %s case #%d %s derivatives %s != reference %s'
                                 % (f, i, g['name'], g['derivs'], r['derivs']), case, new_case=not bad)
                        bad = True
                        break
            if 0 < n < len(refl):
                acc.count('obs:proper_nonempty_prefix')
            acc.count('hist:prefix_len:%s' % ('0' if n == 0 else 'full' if n == len(refl) else
                                              '1-25%' if n * 4 <= len(refl) else '26-50%' if n * 2 <= len(refl)
                                              else '51-75%' if n * 4 <= 3 * len(refl) else '76-99%'))
        if any_hot:
            acc.count('obs:mid_transaction_kill')
        if not bad:
            fp = fingerprint([spec['name'], mech, pt.get('k'), pt.get('delay')])
            acc.ok(fp, nontrivial=started, sample=case if pt.get('k') == 7 and pt['mode'] == 'stmt' else None)
    finally:
        shutil.rmtree(wd, ignore_errors=True)


def _recorder_started(path):
    """Has this file's own recorder finished a startup()?  (metadata row filled in; read with plain sqlite)"""
    import sqlite3
    try:
        con = sqlite3.connect(path)
        try:
            row = con.execute('select abs2prom from metadata').fetchone()
        finally:
            con.close()
        return row is not None and row[0] is not None
    except sqlite3.OperationalError as e:
        return 'no such table' not in str(e)     # killed inside this recorder's own _initialize_database
    except Exception:  # noqa
        return True


# ----------------------------------------------------------------------------------------------
# enumeration
# ----------------------------------------------------------------------------------------------
_WARM = [False]


def scratch():
    """Scratch directory for the crash experiments: tmpfs when available (fdatasync is then free; for a
    SIGKILL experiment only the page cache matters, so this does not change what survives)."""
    import tempfile
    base = '/dev/shm' if os.access('/dev/shm', os.W_OK) else os.getcwd()
    return tempfile.mkdtemp(prefix='omv-c18-', dir=base)


def warm_up(spec, tmp):
    """Run the scenario once in-process (lazy imports, caches) and freeze the heap, so that forked children do
    not pay copy-on-write for every garbage collection."""
    import gc
    from omv.gen import recmodels as G
    if _WARM[0]:
        return
    wd = os.path.join(tmp, 'warm')
    os.makedirs(wd, exist_ok=True)
    old = os.getcwd()
    os.chdir(wd)
    try:
        b = G.build(spec)
        G.run_sequence(b)
        b['prob'].cleanup()
        for f in spec['recorders']['files']:
            read_file(f['file'])
    finally:
        os.chdir(old)
        shutil.rmtree(wd, ignore_errors=True)
    gc.collect()
    gc.freeze()
    _WARM[0] = True


def reference(spec, tmp, acc):
    from omv.kit import rec_child as RC
    files = [f['file'] for f in spec['recorders']['files']]
    warm_up(spec, tmp)
    wd = os.path.join(tmp, 'ref')
    shutil.rmtree(wd, ignore_errors=True)
    res = RC.fork_run(spec, wd, kill={'mode': 'ref', 'count_calls': True}, timeout=300)
    if res.get('child_error') or res['exit'] != 0:
        raise RuntimeError('reference run failed: %s' % (res.get('child_error') or res))
    import json
    with open(os.path.join(wd, 'counts.json')) as f:
        counts = json.load(f)
    ref = {}
    for fn in files:
        ref[fn] = read_file(os.path.join(wd, fn))
    # second complete run: must reproduce the reference (determinism guard)
    wd2 = os.path.join(tmp, 'ref2')
    res2 = RC.fork_run(spec, wd2, kill={'mode': 'sysref'}, timeout=300, db_files=files)
    if res2.get('child_error') or res2['exit'] != 0:
        raise RuntimeError('traced reference run failed: %s' % (res2.get('child_error') or res2))
    for fn in files:
        again = read_file(os.path.join(wd2, fn))
        if [(c['name'], c['data'], c['derivs']) for c in again] != [(c['name'], c['data'], c['derivs']) for c in ref[fn]]:
            raise RuntimeError('scenario is not deterministic: two complete runs differ')
    sc, order = RC.syscall_counts(os.path.join(wd2, 'strace.out'))
    acc.count('obs:reference_cases', sum(len(v) for v in ref.values()))
    acc.count('obs:reference_statements', counts['n']['pre-exec'])
    acc.count('obs:reference_commits', counts['n']['pre-commit'])
    acc.count('obs:reference_syscalls', sum(sc.values()))
    shutil.rmtree(wd, ignore_errors=True)
    shutil.rmtree(wd2, ignore_errors=True)
    return ref, counts, sc, files


def enumerate_points(spec, counts, sc, tier, seed):
    pts = []
    for kind in ('pre-exec', 'post-exec', 'pre-commit', 'post-commit'):
        for k in range(1, counts['n'][kind] + 1):
            pts.append({'mode': 'stmt', 'kind': kind, 'k': k})
    # statement/commit boundaries are enumerated exhaustively in both tiers; syscall entries are strided (the
    # thorough phase rotates with the seed, so three seeds cover every entry index)
    step = 8 if tier == 'quick' else 3
    phase = 0 if tier == 'quick' else seed % 3
    for name in sorted(sc):
        for k in range(1 + phase, sc[name] + 1, step):
            pts.append({'mode': 'sys', 'syscall': name, 'k': k})
    rng = random.Random(seed * 31 + 17)
    ncall = 32 if tier == 'quick' else 120
    lo = counts.get('calls_at_start') or 1
    hi = max(lo + 1, counts['calls'])
    for _ in range(ncall):
        # a few before the recorder started, most after
        k = rng.randrange(1, lo) if (rng.random() < 0.1 and lo > 2) else rng.randrange(lo, hi)
        pts.append({'mode': 'pycall', 'k': k})
    ntimer = 8 if tier == 'quick' else 24
    for _ in range(ntimer):
        pts.append({'mode': 'timer', 'delay': round(rng.uniform(0.0, 0.25), 4)})
    return pts


def shards(tier, seed):
    out = []
    for s in range(NSCEN[tier]):
        for p in range(NPARTS[tier]):
            out.append({'scenario': s, 'part': p, 'nparts': NPARTS[tier], 'tier': tier, 'seed': seed})
    return out


def run_shard(shard, acc):
    tmp = scratch()
    try:
        spec = scenario(shard['scenario'], shard['seed'])
        ref, counts, sc, files = reference(spec, tmp, acc)
        pts = enumerate_points(spec, counts, sc, shard['tier'], shard['seed'])
        acc.count('obs:points_enumerated_in_scenario', len(pts) if shard['part'] == 0 else 0)
        for i, pt in enumerate(pts):
            if i % shard['nparts'] != shard['part']:
                continue
            judge_point(spec, ref, pt, acc, tmp, files)
    finally:
        shutil.rmtree(tmp, ignore_errors=True)


def run_case(case, acc):
    tmp = scratch()
    try:
        spec = case['spec']
        ref, counts, sc, files = reference(spec, tmp, acc)
        judge_point(spec, ref, case['point'], acc, tmp, files)
    finally:
        shutil.rmtree(tmp, ignore_errors=True)


def coverage_extra(tier, agg):
    c = agg['counters']
    return {'exhaustive': False,
            'exhaustive_subspace': 'all pre/post execute and pre/post commit indices of the recorder connections; '
                                   + ('every 3rd (phase = seed mod 3)' if tier == 'thorough' else 'every 8th') +
                                   ' entry index of each mutating syscall on the recorder files/journals; for %d '
                                   'scenario(s)' % NSCEN[tier],
            'kill_points_enumerated': c.get('obs:points_enumerated_in_scenario', 0)}
