"""C07 - set_val and get_val round-trip through promotion, indices and units.

Monitor: shadow store + phase replay.  For a generated model (G) every name a user may address is mapped,
from the spec alone, to a *storage slot* (an independent-variable output, an auto-IVC parameter or a
component output), an index chain into that slot and the name's own shape/units.  A random history of
set_val / get_val calls (units= from the same unit family, indices= from the C05 grammar) is replayed on three
fresh problems: issued right after setup(), after final_setup() and after a run_model().  A Shadow store
(dict slot -> flat ndarray in the slot's native units, updated with plain NumPy indexing and the harness
unit table of omv/ref/flatmodel.py) says what every get_val must return:

  (a) get_val(name, units, indices) directly after set_val(name, v, units, indices) returns v,
  (b) the slot read back raw (no units, no indices) is bitwise unchanged in every entry not addressed,
      and every alias of the slot shows the change,
  (c) nothing raises on a legal call in one phase placement but not in another, and the observations of
      the placements agree.

After the history every addressable name is read back, the problem is (final_setup and) run and the
independent-variable slots must still hold what was set; component outputs are then compared with R.

Two model families feed the same history / placement / Shadow machinery: the G-models of omv/gen/models.py
(hierarchy, src_indices chains, solver stacks; every variable is an array, "scalars" are (1,)) and the scalar kit of
omv/gen/c07_kit.py (feed-forward models of IndepVarComp / ExecComp / ExplicitComponent with true 0-d variables -
shape=(), val=np.array(v), component option default_shape=() - next to (1,) and array variables, auto-IVC inputs with
set_input_defaults(units=, val=), connected inputs in other (incl. offset) units, 0-d inputs reading one entry of an
array, and dynamic shapes: shape_by_conn / copy_shape / compute_shape, also inside auto-IVC trees with and without a
set_input_defaults value; reference = KitModel of that file).  A variable whose dynamic shape is not resolved before
final_setup is addressed by nothing but a full-value set_val until then.

Mechanism keys:  <op>-raises:<Exc>@<file:func>:<cause>:<value>-to-<index class>:<name kind>:<phase>   and
<observable>-mismatch:<name mechanism>:<value>-to-<index class>:<name kind>:<unit class>, where <cause> is
classified from the message + call form (`_cause`) and <name mechanism> from the name's index chain
(plain | scalar-chain | dup-chain2 | flat-link-after-noncontiguous-view), so a recorded finding can be listed
by a prefix pattern while any other failure of the same call keeps its own key.
"""
import os
import random

import numpy as np

from omv.core import fingerprint
from omv.kit.gmon import FailureMonitor, exc_where
from omv.kit.poison import poison

PROPERTY = 'C07'
LEVEL = 'exploration'
TECHNIQUE = ('runtime monitoring: shadow store (NumPy indexing + own unit table) mirrored alongside Problem.set_val / '
             'get_val, same call history replayed before final_setup, after final_setup and after run_model')
RULE = ('random G-models (hierarchy, promotion, connect/promotes src_indices chains, units incl. offset units, '
        'auto-IVC parameters; mostly run-once, some with solver stacks) x random histories of 5-20 set_val/get_val '
        'calls over all addressable names (absolute/promoted IVC outputs, auto-IVC promoted inputs and their '
        'absolute member inputs, connected inputs by absolute/promoted name, component outputs) x indices forms '
        '(int, negative int, slice, int array/list, N-D tuple, ellipsis, om.slicer) x units strings of the '
        "variable's family x value forms (scalar, ndarray, nested list), optionally interleaved with "
        'final_setup/run_model, each replayed in 3 phase placements; second family (scalar kit): random feed-forward '
        'models of 1-3 ExecComp/ExplicitComponent + IndepVarComp with variables of shape (), (1,) and one array '
        'shape (declared by shape=(), 0-d val, default_shape=()), auto-IVC inputs (single, shared, '
        'set_input_defaults units/val), unit-converting and ()<->(1,) and entry-of-array connections, '
        'shape_by_conn/copy_shape/compute_shape variables, same histories (0-d names: no indices on set_val, '
        '() and ... on get_val); distinct = set of (op, name kind, index class, unit class, value form) combinations '
        'of the history (+ model feature set in the kit family); non-trivial = history contains a set_val with '
        'indices or a unit conversion')
MIN_JUDGED = {'quick': 1200, 'thorough': 25000}
REQUIRED_COUNTERS = ['obs:roundtrip-get-after-set', 'obs:roundtrip-input-vector', 'obs:untouched-entries-bitwise', 'obs:alias-read',
                     'obs:final-store-read', 'obs:after-run-ivc-persist', 'obs:after-run-state-vs-R',
                     'obs:cross-placement-compare',
                     'cell:phase=pre-final-setup', 'cell:phase=post-final-setup', 'cell:phase=post-run',
                     'cell:name=ivc-abs', 'cell:name=ivc-prom', 'cell:name=param-prom', 'cell:name=param-abs-in',
                     'cell:name=conn-abs-in', 'cell:name=conn-prom-in', 'cell:name=state-abs',
                     'cell:name=state-prom',
                     'cell:idx=none', 'cell:idx=scalar-position', 'cell:idx=subarray', 'cell:idxform=tuple',
                     'cell:idxform=slicer', 'cell:idxform=array', 'cell:idxform=negint',
                     'cell:units=asked-scale', 'cell:units=asked-offset', 'cell:units=native',
                     'cell:chain=indexed-name', 'cell:model=cyclic', 'cell:vectors=complex', 'cell:vectors=real',
                     # second family (omv/gen/c07_kit.py): true scalars, 0-d/array mixes, dynamic shapes
                     'cell:family=G', 'cell:family=scalar-kit',
                     'cell:kit:decl0d=shape', 'cell:kit:decl0d=default', 'cell:kit:decl0d=val0d',
                     'cell:kit:decl=ivc-default_shape0d', 'cell:kit:decl=exec-default_shape0d',
                     'cell:kit:decl=expl-default_shape0d', 'cell:kit:mix=0d+array-in-one-comp',
                     'cell:kit:conn=entry-of-array', 'cell:kit:param=0d', 'cell:kit:defaults=units+val',
                     'cell:kit:dyn=shape_by_conn', 'cell:kit:dyn=copy_shape', 'cell:kit:dyn=compute_shape',
                     'cell:kit:dyn=param-member', 'cell:kit:dyn=param-member+default-val',
                     'cell:kit:name-shape=0d', 'cell:kit:name-shape=1', 'cell:kit:name-shape=array',
                     'cell:kit:0d-source-set-converted:scale:pre-final-setup',
                     'cell:kit:0d-source-set-converted:scale:post-final-setup',
                     'cell:kit:0d-source-set-converted:scale:post-run',
                     'cell:kit:0d-source-set-converted:offset:pre-final-setup',
                     'cell:kit:0d-source-set-converted:offset:post-final-setup',
                     'cell:kit:0d-source-set-converted:offset:post-run',
                     'cell:kit:set-in-dyn-tree-with-default-val:pre-final-setup',
                     'cell:kit:dynamic-shape-name:pre-final-setup', 'cell:kit:dynamic-shape-name:post-run',
                     'obs:set-of-unresolved-dynamic-variable', 'obs:indexed-read-of-0d']
ASSUMPTIONS = ['NumPy indexing and the harness unit table (omv/ref/flatmodel.py UNITS/conv) are the reference',
               'only legal calls are generated: units= only for names that have units, taken from the same unit '
               'family; indices valid for NumPy on the name\'s shape with a non-empty result; values of exactly the '
               'addressed shape or scalars (never a size-1 array for a scalar position); a set through a name whose '
               'index chain aliases one source entry several times is generated only when all aliases are addressed '
               'with equal values (otherwise the property is unsatisfiable)',
               'set_val through an input that has units but is connected to a unitless source is not generated '
               '(OpenMDAO documents a TypeError for it)',
               'call forms that hit the recorded findings (scalar value over a multi-entry indexed target, scalar '
               'into a scalar position of an absolute input, indices on an input with an int src_indices, sets '
               'through 2-link chains with repeated entries or a flat link on a non-contiguous view) are generated in '
               '20% of the histories only, so the other histories are judged in full',
               'a raising set_val is reported once; whatever state it leaves behind is adopted by the shadow store',
               'scalar kit: set_val with indices is not generated for names whose source is 0-d (OpenMDAO rejects it '
               'before final_setup: "Can\'t set a non-array using indices"); get_val with indices () or ... on a '
               '0-d name is judged by value, not by whether the result is 0-d or (1,); a variable whose dynamic shape '
               'is unresolved before final_setup is only given a full-shape value there (never read, never indexed), '
               'and not at all when it is 0-d (a python scalar given to a variable of unknown shape is taken as (1,)); '
               'set_input_defaults(units=U) always comes with val= when U differs from the units of the inputs, and a '
               'shape_by_conn member of an auto-IVC tree is only generated for non-0-d trees (how these are initialised / '
               'sized is not part of the property)',
               'component outputs after run_model are compared with R at 1e-8 (solver tolerance), everything else '
               'at 1e-12 x magnitude of the operands incl. unit offsets (round-off of an affine conversion is a few '
               'ulp of the largest operand); cases where a solver reports non-convergence are not judged']
SHARD_TIMEOUT = {'quick': 900, 'thorough': 3600}

OPTS = dict(p_index=0.7, p_units=0.65, p_chain2=0.35, p_param=0.6, p_matfree=0.0, p_sparse=0.2, p_implicit=0.25,
            max_comps=4, p_promote=0.6)
RT = 1e-12       # round-trip / alias tolerance, times the magnitude of the operands
RUN_TOL = 1e-8   # component outputs after run_model vs R


def shards(tier, seed):
    n = 16 if tier == 'quick' else 64
    per = 45 if tier == 'quick' else 250
    nkit = 60 if tier == 'quick' else 300
    return [{'seed': seed * 100000 + i * 1000, 'n': per, 'nkit': nkit, 'tier': tier} for i in range(n)]


def run_shard(shard, acc):
    for k in range(shard['n']):
        run_case({'seed': shard['seed'] + k, 'tier': shard.get('tier', 'quick')}, acc)
    # second model family: true scalar (0-d) variables, 0-d/array mixes, dynamic shapes (omv/gen/c07_kit.py)
    for k in range(shard.get('nkit', 0)):
        run_case({'seed': shard['seed'] + k, 'tier': shard.get('tier', 'quick'), 'family': 'scalar-kit'}, acc)


# ------------------------------------------------------------------------------------------------------
# addressable names (from the spec alone)
# ------------------------------------------------------------------------------------------------------
def addressable(spec, fm):
    """-> list of dicts: name, kind, slot, pos (ndarray of flat slot positions, in the name's shape), units,
    slot_units, settable."""
    from omv.gen import models as G
    from omv.ref.flatmodel import chain_positions, dec_idx
    out = []

    def add(name, kind, slot, chain, shape, units):
        sshape = fm.out_shape[slot]
        pos = np.asarray(chain_positions(sshape, chain))
        pos = pos.reshape(shape)
        su = fm.out_units[slot]
        settable = not (su is None and units is not None)
        # mechanism class of the name (part of every key): a 2-link chain whose first link repeats a source
        # entry, a chain that ends in a scalar (0-d) selection, or plain
        mech = 'plain'
        if chain:
            last = np.asarray(chain_positions(sshape, chain))
            if last.shape == ():
                mech = 'scalar-chain'
            if len(chain) == 2:
                mid = np.asarray(chain_positions(sshape, chain[:1]))
                if np.unique(mid).size != mid.size:
                    mech = 'dup-chain2'
                base = np.arange(int(np.prod(sshape))).reshape(sshape)
                first = base.ravel()[dec_idx(chain[0]['idx'])] if chain[0].get('flat') else \
                    base[dec_idx(chain[0]['idx'])]
                if chain[1].get('flat') and isinstance(first, np.ndarray) and np.shares_memory(first, base) \
                        and not first.flags.c_contiguous:
                    mech = 'flat-link-after-noncontiguous-view'
        out.append({'name': name, 'kind': kind, 'slot': slot, 'pos': pos, 'units': units, 'slot_units': su,
                    'settable': settable, 'indexed': bool(chain), 'mech': mech})

    for c in spec['comps']:
        for o in c['outputs']:
            kind = 'ivc' if c['kind'] == 'ivc' else 'state'
            a = G.abs_name(spec, o['name'])
            t = G.top_name(spec, o['name'])
            add(a, kind + '-abs', o['name'], [], tuple(o['shape']), o.get('units'))
            if t != a:
                add(t, kind + '-prom', o['name'], [], tuple(o['shape']), o.get('units'))
    used = set(cn['src'] for cn in spec['conns'] if cn.get('how') == 'param')
    for p in spec['params']:
        if p['name'] in used:
            add(p['name'], 'param-prom', p['name'], [], tuple(p['shape']), p.get('units'))
    inmeta = {}
    for c in spec['comps']:
        for i in c['inputs']:
            inmeta[i['name']] = i
    for cn in spec['conns']:
        i = inmeta[cn['tgt']]
        a = G.abs_name(spec, cn['tgt'])
        if cn['how'] == 'param':
            add(a, 'param-abs-in', cn['src'], cn['chain'], tuple(i['shape']), i.get('units'))
            continue
        add(a, 'conn-abs-in', cn['src'], cn['chain'], tuple(i['shape']), i.get('units'))
        t = G.top_name(spec, cn['tgt'])
        if t != a:
            # promoted name in the root namespace: sits above the link that rides on promotes()
            chain = cn['chain'][:1]
            if len(cn['chain']) == 2:
                shp = G._shape_before_link(spec, cn, 1)
            else:
                shp = tuple(i['shape'])
            add(t, 'conn-prom-in', cn['src'], chain, tuple(shp), i.get('units'))
    return out


def _family(u):
    from omv.ref.flatmodel import FAMILIES
    for f in FAMILIES:
        if u in f:
            return f
    return None


def _idx_class(idx, shape):
    """(class, form set) of a decoded python index on `shape`."""
    if idx is None:
        return 'none', set()
    forms = set()
    atoms = list(idx) if isinstance(idx, tuple) else [idx]
    if isinstance(idx, tuple):
        forms.add('tuple')
    for x in atoms:
        if isinstance(x, slice):
            forms.add('slice')
            if x.step is not None and x.step < 0:
                forms.add('negstep')
        elif x is Ellipsis:
            forms.add('ellipsis')
        elif isinstance(x, (list, np.ndarray)):
            forms.add('array')
        else:
            forms.add('int')
            if x < 0:
                forms.add('negint')
    if len(shape) > 1 and not isinstance(idx, tuple):
        forms.add('nd-single')
    rs = np.zeros(shape)[_np_index(idx)].shape
    return ('scalar-position' if rs == () else 'subarray'), forms


def _np_index(idx):
    if isinstance(idx, tuple):
        return tuple(np.asarray(x) if isinstance(x, list) else x for x in idx)
    if isinstance(idx, list):
        return np.asarray(idx)
    return idx


# ------------------------------------------------------------------------------------------------------
# history generation (JSON-able)
# ------------------------------------------------------------------------------------------------------
def gen_history(rng, names, fm, known0=None):
    """known0: (kit family) slots whose value exists right after setup(); a slot outside it (dynamic shape not
    resolved yet) is addressed by nothing but a full-value set_val until the history has passed a final_setup /
    run_model in its earliest placement."""
    from omv.gen import models as G
    from omv.ref.flatmodel import UNITS
    nops = rng.randint(5, 20)
    risky = rng.random() < 0.2
    kit = known0 is not None
    known = set(known0) if kit else None
    ops = []
    settable = [k for k, n in enumerate(names) if n['settable']]
    # positions of optional lifecycle events inside the history
    ev_at = {}
    if rng.random() < 0.35:
        ev_at[rng.randrange(1, nops)] = rng.choice(['final_setup', 'run_model', 'run_model'])
    tries = 0
    while len(ops) < nops and tries < 400:
        tries += 1
        if len(ops) in ev_at:
            ops.append({'op': ev_at.pop(len(ops))})
            known = None        # everything has a value from here on
            continue
        is_set = rng.random() < 0.6
        # weight the rarer name kinds up a little: pick a kind first, then a name of that kind
        pool = settable if is_set else list(range(len(names)))
        kinds = sorted(set(names[k]['kind'] for k in pool))
        kind = rng.choice(kinds)
        k = rng.choice([j for j in pool if names[j]['kind'] == kind])
        n = names[k]
        shape = n['pos'].shape
        size = n['pos'].size
        unknown = kit and known is not None and n['slot'] not in known
        if unknown and (not is_set or fm.out_shape[n['slot']] == () or n['indexed']
                        or tuple(shape) != tuple(fm.out_shape[n['slot']])):
            # (nor can a name that sees the slot through src_indices or in another shape give it its first value)
            # (a python scalar given to a variable whose shape is not known yet is taken as a (1,) array: whether
            #  () or (1,) is meant cannot be told, so 0-d variables wait for final_setup)
            continue
        # ---- indices
        idx = None
        as_list = False
        slicer = False
        if unknown:
            pass
        elif kit and is_set and fm.out_shape[n['slot']] == ():
            # OpenMDAO rejects indices when the source is not an array ("Can't set a non-array using indices")
            pass
        elif shape == ():
            # a true scalar: NumPy accepts () and ... ; OpenMDAO rejects indices when setting a non-array
            if not is_set and rng.random() < 0.3:
                idx = rng.choice([(), Ellipsis])
        elif size > 1 and rng.random() < 0.7:
            for _ in range(10):
                cand = G.rand_index(rng, shape, False, allow_known=rng.random() < 0.35)
                try:
                    rs = np.zeros(shape)[_np_index(cand)].shape
                except Exception:
                    continue
                if int(np.prod(rs)) >= 1:
                    idx = cand
                    break
            as_list = rng.random() < 0.5
            slicer = rng.random() < 0.3
        elif rng.random() < 0.25:
            # index into a size-1 variable
            idx = rng.choice([0, -1, slice(None), [0]]) if len(shape) == 1 else tuple([0] * len(shape))
        # ---- units
        # (units= is only asked of names that have units themselves: asking a unitless input for units is
        #  rejected by OpenMDAO even when its source has units)
        eff = n['units']
        asked = None
        if eff is not None and rng.random() < 0.55:
            fam = _family(eff)
            cands = [u for u in fam if abs(np.log10(UNITS[eff][0] / UNITS[u][0])) <= 6.01]
            asked = rng.choice(cands)
        op = {'op': 'set' if is_set else 'get', 'k': k, 'idx': None if idx is None else G._enc(idx),
              'as_list': as_list, 'slicer': slicer, 'units': asked}
        if is_set:
            pos = n['pos']
            sel = pos if idx is None else pos[_np_index(idx)]
            sel = np.asarray(sel)
            # all aliases (elements of the name that map to the same slot entry) of every touched slot entry must
            # be addressed (else the request is unsatisfiable)
            elem = np.arange(size).reshape(shape)
            esel = np.unique(elem if idx is None else elem[_np_index(idx)])
            selpos = np.unique(sel)
            alias = np.flatnonzero(np.isin(pos.ravel(), selpos))
            if not np.all(np.isin(alias, esel)):
                continue
            form = rng.choice(['scalar', 'array', 'array', 'list'])
            if unknown:
                form = rng.choice(['array', 'list']) if shape != () else 'scalar'
            if sel.shape == ():
                form = rng.choice(['scalar', 'scalar', 'array0d'])
            # forms that hit recorded findings are generated only in a fraction of the histories, so that the
            # other histories stay clean and are compared across placements
            suspect = ((form == 'scalar' and sel.size > 1 and (idx is not None or n['indexed']))
                       or (sel.shape == () and n['kind'].endswith('abs-in') and not kit)
                       or (idx is not None and n['mech'] == 'scalar-chain')
                       or n['mech'] in ('dup-chain2', 'flat-link-after-noncontiguous-view'))
            if suspect and not risky:
                continue
            if form in ('scalar', 'array0d'):
                op['val'] = round(rng.uniform(-3, 3), 3)
            else:
                # value determined by the slot position => aliases receive equal values
                w = {p: round(rng.uniform(-3, 3), 3) for p in selpos.tolist()}
                op['val'] = np.vectorize(lambda p: w[int(p)], otypes=[float])(sel).tolist()
            op['form'] = form
            if unknown:
                known.add(n['slot'])
        ops.append(op)
    return ops


# ------------------------------------------------------------------------------------------------------
# shadow store
# ------------------------------------------------------------------------------------------------------
class Shadow:
    def __init__(self, fm, u, p):
        self.fm = fm
        self.store = {}
        for nme in fm.param_names:
            self.store[nme] = np.array(fm._get(nme, u, p), dtype=float)
        for nme in fm.state_names:
            self.store[nme] = np.array(fm._get(nme, u, p), dtype=float)

    def pvec(self):
        fm = self.fm
        return np.concatenate([self.store[n] for n in fm.param_names]) if fm.nparam else np.zeros(0)

    def load_states(self, u):
        for nme in self.fm.state_names:
            a, b = self.fm.soff[nme]
            self.store[nme] = np.array(u[a:b], dtype=float)

    @staticmethod
    def _units(n, asked):
        """(units of the slot's numbers, units of the numbers the user sees)."""
        frm = n['slot_units'] if n['slot_units'] is not None else n['units']
        to = asked if asked is not None else n['units']
        return frm, to

    def get(self, n, asked, idx):
        """-> (expected value, magnitude of the operands for the tolerance)."""
        from omv.ref.flatmodel import conv, UNITS
        raw = self.store[n['slot']][n['pos']]
        if idx is not None:
            raw = raw[_np_index(idx)]
        frm, to = self._units(n, asked)
        mag = max(1.0, float(np.max(np.abs(raw), initial=0.0)))
        if frm is None or to is None:
            return np.asarray(raw), mag
        fac, off = conv(frm, to)
        val = raw * fac + off
        mag = max(mag, float(np.max(np.abs(val), initial=0.0)), abs(off), abs(UNITS[frm][1]) * abs(fac),
                  abs(UNITS[to][1]))
        return np.asarray(val), mag

    def set(self, n, asked, idx, val):
        from omv.ref.flatmodel import conv
        frm, to = self._units(n, asked)     # user gives numbers in `to`, the slot holds `frm`
        v = np.asarray(val, dtype=float)
        if frm is not None and to is not None:
            fac, off = conv(to, frm)
            v = v * fac + off
        pos = n['pos'] if idx is None else n['pos'][_np_index(idx)]
        pos = np.asarray(pos)
        self.store[n['slot']][pos.ravel()] = np.broadcast_to(v, pos.shape).ravel()
        return np.unique(pos.ravel())


# ------------------------------------------------------------------------------------------------------
def _close(got, exp, tol):
    got = np.asarray(got)
    exp = np.asarray(exp)
    if got.shape != exp.shape:
        # OpenMDAO documents (1,)-shaped returns for scalars of size-1 variables only through np.ndarray
        return False, 'shape %s != %s' % (got.shape, exp.shape)
    if got.size == 0:
        return True, ''
    if got.dtype.kind not in 'fiu':
        return False, 'dtype %s' % got.dtype
    if not np.all(np.isfinite(got)):
        return False, 'non-finite value'
    err = float(np.max(np.abs(got - exp)))
    return err <= tol, 'max abs err %.3e (tol %.1e)' % (err, tol)


class Replay:
    """One placement of one history on a fresh problem."""

    def __init__(self, spec, fm, names, hist, placement, u_init, u_run0, acc, calloc=False, known0=None):
        # complex-allocated vectors (what any ExecComp / cs partial causes) make every source read a
        # non-contiguous .real view: a mechanism of its own in the keys
        self.calloc = calloc
        if calloc:
            names = [dict(n, mech='cplxvec-' + n['mech']) if n['indexed'] else n for n in names]
        self.spec, self.fm, self.names, self.hist, self.placement = spec, fm, names, hist, placement
        self.acc = acc
        self.bad = []          # (key, what)
        # observations for the cross-placement comparison: stream -> list of (tag, value, magnitude, state_dep)
        self.obs = {'ops': [], 'final': [], 'after-final-setup': [], 'after-run': []}
        self.u_init, self.u_run0 = u_init, u_run0
        self.unjudgeable = None
        self.raised = False
        self.kit = spec.get('family') == 'scalar-kit'
        self.has_solver = (not self.kit) and any(g.get('nl', {}).get('type') not in (None, 'runonce')
                                                 for g in _groups(spec['tree']))
        # (kit family) slots that have a value before final_setup; None = all
        self.known = set(known0) if known0 is not None else None
        self.canon = {}
        for n in names:
            if n['canon'] if self.kit else n['kind'] in ('ivc-abs', 'state-abs', 'param-prom'):
                self.canon[n['slot']] = n

    # -- helpers ------------------------------------------------------------------------------------
    def _dec(self, op):
        from omv.gen import models as G
        if op.get('idx') is None:
            return None, None
        ref = G._dec_list(op['idx'])        # lists stay lists: reference index
        if op.get('as_list'):
            real = ref
        else:
            real = G._dec(op['idx'])        # arrays as ndarrays
        if op.get('slicer'):
            import openmdao.api as om
            real = om.slicer[real]
        return ref, real

    def _flag(self, key, what):
        self.bad.append((key, '[%s] %s' % (self.phase, what)))

    def _call(self, opname, n, sig, fn):
        """Run a call into the code under test; an exception on a (legal, generated) call is a finding."""
        try:
            return True, fn()
        except Exception as e:
            if os.environ.get('OMV_DEBUG'):
                import traceback
                traceback.print_exc()
            self.raised = True
            if n is None:
                key = '%s-raises:%s@%s:%s' % (opname, type(e).__name__, exc_where(e), self.phase)
            else:
                key = '%s-raises:%s@%s:%s:%s:%s:%s' % (opname, type(e).__name__, exc_where(e),
                                                     _cause(str(e), sig, n), sig, n['kind'], self.phase)
            self._flag(key, '%s(%s%s) raised %s: %s' % (opname, n['name'] if n else '', self._argtxt, type(e).__name__,
                                                       str(e)[:200]))
            return False, e

    def _raw(self, slot):
        n = self.canon[slot]
        self._argtxt = ''
        ok, v = self._call('get_val', n, 'read-all', lambda: np.array(self.prob.get_val(n['name']), dtype=float))
        return v.ravel().copy() if ok else None

    def _is_state(self, slot):
        return slot in self.fm.soff

    def _after_run(self, first_sync=False):
        """run_model happened: component outputs are recomputed -> compare with R, then mirror them."""
        fm = self.fm
        if self.fmon.failures:
            self.unjudgeable = 'solver-reported-nonconvergence'
            return False
        p = self.shadow.pvec()
        if first_sync and self.u_run0 is not None:
            u, conv = self.u_run0, True
        else:
            u, conv = fm.solve(p)
        if not conv:
            self.unjudgeable = 'oracle-newton-not-converged'
            return False
        self.shadow.load_states(u)
        for nme in fm.state_names:
            got = self._raw(nme)
            if got is None:
                continue
            exp = self.shadow.store[nme]
            ok, why = _close(got, exp, RUN_TOL * max(1.0, float(np.max(np.abs(exp), initial=0.0))))
            self.acc.count('obs:after-run-state-vs-R')
            if not ok:
                # model evaluation is C04/C32 territory: not judged here, but nothing after it can be either
                self.unjudgeable = 'outputs-after-run-differ-from-reference'
                return False
            self.shadow.store[nme] = got.copy()     # mirror the actual bits for the exact comparisons
        for nme in fm.param_names:
            if nme not in self.canon:
                continue
            got = self._raw(nme)
            if got is None:
                continue
            self.acc.count('obs:after-run-ivc-persist')
            if not np.array_equal(got, self.shadow.store[nme]):
                # bitwise in run-once models; under Newton/Broyden/Krylov stacks the linear solve may put
                # round-off level updates on an independent variable (its residual is identically zero)
                tol = RUN_TOL * max(1.0, float(np.max(np.abs(got), initial=0.0))) if self.has_solver else 0.0
                ok, why = _close(got, self.shadow.store[nme], tol)
                if not ok:
                    self._flag('ivc-changed-by-run:%s' % self.canon[nme]['kind'],
                               'independent variable %s changed over run_model: %s' % (nme, why))
                self.shadow.store[nme] = got.copy()
        return True

    # -- the replay -----------------------------------------------------------------------------------
    def run(self):
        from omv.gen import models as G
        self.phase = 'build'
        self._argtxt = ''
        self.fmon = FailureMonitor()
        with self.fmon, poison():
            try:
                if self.kit:
                    from omv.gen import c07_kit
                    self.prob = prob = c07_kit.build(self.spec)
                else:
                    self.prob = prob = G.build(self.spec)
                prob.setup(force_alloc_complex=self.calloc)
            except Exception as e:
                self.raised = True
                self._flag('setup-raises:%s@%s' % (type(e).__name__, exc_where(e)),
                           'setup raised %s: %s' % (type(e).__name__, str(e)[:200]))
                return
            try:
                self._body()
            finally:
                try:
                    prob.cleanup()
                except Exception:
                    pass

    def _lifecycle(self, what):
        self._argtxt = ''
        ok, _ = self._call(what, None, '-', getattr(self.prob, what))
        if not ok:
            return False
        self.known = None       # every shape is resolved, every variable has a value
        if what == 'final_setup':
            if self.phase == 'pre-final-setup':
                self.phase = 'post-final-setup'
            return True
        self.phase = 'post-run'
        return self._after_run(first_sync=(self.placement == 2 and not self._synced))

    def _resync(self, slot):
        got = self._raw(slot)
        if got is not None:
            self.shadow.store[slot] = got.copy()
        return got

    def _body(self):
        acc = self.acc
        fm = self.fm
        prob = self.prob
        self.phase = 'pre-final-setup'
        self._synced = False
        self.shadow = Shadow(fm, self.u_init, fm.p0())
        if self.placement == 1:
            if not self._lifecycle('final_setup'):
                return
        elif self.placement == 2:
            if not self._lifecycle('run_model'):
                return
        self._synced = True
        for op in self.hist:
            if self.unjudgeable:
                return
            if op['op'] in ('final_setup', 'run_model'):
                if not self._lifecycle(op['op']):
                    return
                continue
            n = self.names[op['k']]
            ref_idx, real_idx = self._dec(op)
            cls, forms = _idx_class(ref_idx, n['pos'].shape)
            kw = {}
            if op['units'] is not None:
                kw['units'] = op['units']
            if real_idx is not None:
                kw['indices'] = real_idx
            sdep = self._is_state(n['slot'])
            ucls = self._ucls(n, op['units'])
            self._count_cells(op, n, cls, forms)
            first_value = self.known is not None and n['slot'] not in self.known
            if first_value:
                # dynamically shaped variable that has neither shape nor value yet: the (full) set_val gives it one;
                # there is nothing to read before it (in the other placements the slot is judged in full)
                self.acc.count('obs:set-of-unresolved-dynamic-variable')
                val = np.array(op['val'], dtype=float) if op['form'] in ('array', 'array0d') else op['val']
                vcls = 'scalar' if op['form'] in ('scalar', 'array0d') else 'array'
                sig = '%s-to-%s' % (vcls, cls)
                self._argtxt = ', %s, units=%r, indices=%r' % (_short(op['val']), op['units'], ref_idx)
                ok, _ = self._call('set_val', n, sig, lambda: prob.set_val(n['name'], val, **kw))
                self.known.add(n['slot'])
                if ok:
                    self.shadow.set(n, op['units'], ref_idx, op['val'])
                    ok, got = self._call('get_val', n, cls, lambda: np.array(prob.get_val(n['name'], **kw)))
                    if ok:
                        exp, mag = self.shadow.get(n, op['units'], ref_idx)
                        good, why = _close(got, exp, RT * mag)
                        acc.count('obs:roundtrip-get-after-set')
                        if not good:
                            self._flag('roundtrip-mismatch:%s:%s:%s:%s' % (n['mech'], sig, n['kind'], ucls),
                                       'set_val(%s, %s, units=%s) on a not yet resolved dynamic shape, then get_val '
                                       'returned %s (%s)' % (n['name'], _short(exp), op['units'], _short(got), why))
                else:
                    self._resync(n['slot'])
                # (streams of the cross-placement comparison keep their length)
                for t in ('roundtrip', 'slot'):
                    self.obs['ops'].append(('n/a', None, 1.0, sdep))
                continue
            self._argtxt = ', units=%r, indices=%r' % (op['units'], ref_idx)
            if op['op'] == 'get':
                ok, got = self._call('get_val', n, cls, lambda: np.array(prob.get_val(n['name'], **kw)))
                if not ok:
                    self.obs['ops'].append(('get-raised', None, 1.0, sdep))
                    continue
                exp, mag = self.shadow.get(n, op['units'], ref_idx)
                if ref_idx is not None and n['pos'].shape == () and np.size(got) == 1:
                    # indices on a true scalar: the value is judged, not whether the result is 0-d or (1,)
                    got = np.asarray(got).reshape(np.shape(exp))
                    acc.count('obs:indexed-read-of-0d')
                good, why = _close(got, exp, RT * mag)
                acc.count('obs:alias-read')
                self.obs['ops'].append(('get', got, mag, sdep))
                if not good:
                    self._flag('get-mismatch:%s:%s:%s:%s' % (n['mech'], cls, n['kind'], ucls),
                               'get_val(%s, units=%s, indices=%s) = %s, shadow store says %s (%s)' %
                               (n['name'], op['units'], ref_idx, _short(got), _short(exp), why))
                continue
            # ---- set ----
            before = self._raw(n['slot'])
            if before is None:
                continue
            if not np.array_equal(before, self.shadow.store[n['slot']]):
                good, why = _close(before, self.shadow.store[n['slot']],
                                   RT * max(1.0, float(np.max(np.abs(before), initial=0.0))))
                if not good:
                    cn = self.canon[n['slot']]
                    self._flag('slot-drifted:%s' % (cn['kind'] if not self.kit else cn['mech'] + ':' + cn['kind']),
                               'slot %s read raw differs from shadow before a set: %s' % (n['slot'], why))
                self.shadow.store[n['slot']] = before.copy()
            val = op['val']
            if op['form'] in ('array', 'array0d'):
                val = np.array(val, dtype=float)
            vcls = 'scalar' if op['form'] in ('scalar', 'array0d') else 'array'
            sig = '%s-to-%s' % (vcls, cls)
            self._argtxt = ', %s, units=%r, indices=%r' % (_short(op['val']), op['units'], ref_idx)
            ok, _ = self._call('set_val', n, sig, lambda: prob.set_val(n['name'], val, **kw))
            if not ok:
                # a raising set_val is reported; whatever it left behind is not judged a second time
                self._resync(n['slot'])
                self.obs['ops'].append(('set-raised', None, 1.0, sdep))
                continue
            touched = self.shadow.set(n, op['units'], ref_idx, op['val'])
            acc.count('obs:set')
            # (a) round trip
            rt_ok = True
            ok, got = self._call('get_val', n, cls, lambda: np.array(prob.get_val(n['name'], **kw)))
            if ok:
                exp, mag = self.shadow.get(n, op['units'], ref_idx)
                want = np.broadcast_to(np.asarray(op['val'], dtype=float), exp.shape)
                rt_ok, why = _close(got, want, RT * mag)
                acc.count('obs:roundtrip-get-after-set')
                self.obs['ops'].append(('roundtrip', got, mag, False))
                if not rt_ok:
                    self._flag('roundtrip-mismatch:%s:%s:%s:%s' % (n['mech'], sig, n['kind'], ucls),
                               'set_val(%s, %s, units=%s, indices=%s) then get_val returned %s (%s)' %
                               (n['name'], _short(want), op['units'], ref_idx, _short(got), why))
            else:
                self.obs['ops'].append(('get-raised', None, 1.0, False))
            # (a') the same through the input vector itself (absolute input names, vectors exist)
            if n['kind'].endswith('abs-in') and self.phase != 'pre-final-setup':
                ok, got = self._call('get_val-from_src=False', n, cls,
                                     lambda: np.array(prob.get_val(n['name'], from_src=False, **kw)))
                if ok:
                    exp, mag = self.shadow.get(n, op['units'], ref_idx)
                    want = np.broadcast_to(np.asarray(op['val'], dtype=float), exp.shape)
                    good, why = _close(got, want, RT * mag)
                    acc.count('obs:roundtrip-input-vector')
                    if not good:
                        self._flag('roundtrip-input-vector-mismatch:%s:%s:%s:%s' % (n['mech'], sig, n['kind'], ucls),
                                   'set_val(%s, %s, units=%s, indices=%s) then get_val(from_src=False) returned %s '
                                   '(%s)' % (n['name'], _short(want), op['units'], ref_idx, _short(got), why))
            # (b) untouched entries bitwise, touched entries per the shadow
            after = self._raw(n['slot'])
            if after is None:
                continue
            mask = np.ones(after.size, dtype=bool)
            mask[touched] = False
            acc.count('obs:untouched-entries-bitwise')
            if after.shape != before.shape or not np.array_equal(after[mask], before[mask]):
                self._flag('untouched-entry-changed:%s:%s:%s' % (n['mech'], sig, n['kind']),
                           'set_val(%s, indices=%s) changed entries it did not address: slot %s before %s after %s'
                           % (n['name'], ref_idx, n['slot'], _short(before), _short(after)))
            elif rt_ok:
                exp = self.shadow.store[n['slot']]
                _, mag = self.shadow.get(n, op['units'], ref_idx)
                good, why = _close(after[touched], exp[touched], RT * mag * self._slot_scale(n, op['units']))
                if not good:
                    self._flag('stored-value-wrong:%s:%s:%s:%s' % (n['mech'], sig, n['kind'], ucls),
                               'set_val(%s, units=%s, indices=%s): slot %s holds %s, expected %s (%s)' %
                               (n['name'], op['units'], ref_idx, n['slot'], _short(after[touched]),
                                _short(exp[touched]), why))
            self.shadow.store[n['slot']] = after.copy()
            self.obs['ops'].append(('slot', after, max(1.0, float(np.max(np.abs(after), initial=0.0))), sdep))
        if self.unjudgeable:
            return
        # ---- final store through every addressable name -------------------------------------------
        self._read_all('final')
        if self.phase == 'pre-final-setup':
            if not self._lifecycle('final_setup'):
                return
            self._read_all('after-final-setup')
        if not self._lifecycle('run_model'):
            return
        self._read_all('after-run')

    def _slot_scale(self, n, asked):
        """|d slot / d user| so that a tolerance stated in user units can be applied in slot units."""
        from omv.ref.flatmodel import conv
        frm, to = Shadow._units(n, asked)
        if frm is None or to is None:
            return 1.0
        return max(1.0, abs(conv(to, frm)[0]))

    def _ucls(self, n, asked):
        from omv.ref.flatmodel import conv
        frm, to = Shadow._units(n, asked)
        if frm is None or to is None:
            return 'units-none'
        fac, off = conv(frm, to)
        if off != 0.0:
            return 'units-offset'
        return 'units-scale' if fac != 1.0 else 'units-same'

    def _count_cells(self, op, n, cls, forms):
        acc = self.acc
        acc.count('cell:phase=%s' % self.phase)
        acc.count('cell:name=%s' % n['kind'])
        acc.count('cell:idx=%s' % cls)
        for f in forms:
            acc.count('cell:idxform=%s' % f)
        if op.get('slicer') and op.get('idx') is not None:
            acc.count('cell:idxform=slicer')
        if n['indexed']:
            acc.count('cell:chain=indexed-name')
        if op['units'] is None:
            acc.count('cell:units=native')
        else:
            u = self._ucls(n, op['units'])
            acc.count('cell:units=asked-' + u.split('-')[1])
        if op['op'] == 'set':
            acc.count('cell:valform=%s' % op['form'])
        if self.kit:
            acc.count('cell:kit:name-shape=%s' % ('0d' if n['pos'].shape == () else
                                                  ('1' if n['pos'].shape == (1,) else 'array')))
            if n['dyn']:
                acc.count('cell:kit:dynamic-shape-name:%s' % self.phase)
            if self.fm.out_shape[n['slot']] == ():
                u = self._ucls(n, op['units'])
                if op['op'] == 'set' and u in ('units-scale', 'units-offset'):
                    # the 0-d source + unit conversion + phase grid
                    acc.count('cell:kit:0d-source-set-converted:%s:%s' % (u.split('-')[1], self.phase))
            if n['mech'] == 'dyn-tree-with-default-val' and op['op'] == 'set':
                acc.count('cell:kit:set-in-dyn-tree-with-default-val:%s' % self.phase)

    def _read_all(self, tag):
        self._argtxt = ''
        for n in self.names:
            sdep = self._is_state(n['slot'])
            if self.known is not None and n['slot'] not in self.known:
                self.obs[tag].append(('n/a', None, 1.0, sdep))
                continue
            ok, got = self._call('get_val', n, 'read-all', lambda: np.array(self.prob.get_val(n['name'])))
            if not ok:
                self.obs[tag].append(('get-raised', None, 1.0, sdep))
                continue
            exp, mag = self.shadow.get(n, None, None)
            tol = RT * mag
            if tag == 'after-run' and sdep:
                tol = max(tol, 4 * RUN_TOL * mag)
            good, why = _close(got, exp, tol)
            self.acc.count('obs:final-store-read')
            self.obs[tag].append((tag, got, mag, sdep))
            if not good:
                self._flag('%s-store-mismatch:%s:%s:%s' % (tag, n['mech'], n['kind'], self._ucls(n, None)),
                           'get_val(%s) = %s, shadow store says %s (%s)' % (n['name'], _short(got), _short(exp),
                                                                            why))


def _cause(msg, sig, n):
    """Mechanism class of an exception raised by set_val/get_val on a legal call (part of the key)."""
    scalar_val = sig.startswith('scalar-to-')
    if 'does not match shape' in msg and scalar_val:
        return 'scalar-value-promoted-to-1d'
    if 'setting an array element with a sequence' in msg and sig == 'scalar-to-scalar-position':
        return 'scalar-value-promoted-to-1d'
    if 'invalid index to scalar variable' in msg and n['mech'].endswith('scalar-chain'):
        return 'user-indices-after-scalar-src-indices'
    return 'unclassified-' + n['mech']


def _short(a):
    a = np.asarray(a)
    return np.array2string(a.ravel()[:8], precision=12, separator=',') + ('...' if a.size > 8 else '')


# ------------------------------------------------------------------------------------------------------
def run_case(case, acc):
    from omv.gen import models as G
    from omv.ref.flatmodel import FlatModel
    kit = case.get('family') == 'scalar-kit'
    known0 = None
    if kit:
        from omv.gen import c07_kit
        rng = random.Random(case['seed'] * 31 + 7)
        cyc = False
        spec = c07_kit.gen_spec(rng)
        fm = c07_kit.KitModel(spec)
        names = c07_kit.addressable(spec, fm)
        known0 = c07_kit.known_before_final_setup(spec, fm)
        hist = gen_history(rng, names, fm, known0=known0)
        acc.count('cell:family=scalar-kit')
        for f in c07_kit.features(spec):
            acc.count('cell:kit:' + f)
    else:
        rng = random.Random(case['seed'])
        opts = dict(OPTS)
        cyc = rng.random() < 0.2
        opts['solver_mix'] = 'any' if cyc else 'runonce'
        if cyc:
            opts['p_cycle'] = 0.7
        spec = G.gen_spec(rng, opts)
        fm = FlatModel(spec)
        names = addressable(spec, fm)
        hist = gen_history(rng, names, fm)
        acc.count('cell:family=G')
    nset = sum(1 for o in hist if o['op'] == 'set')
    if nset == 0:
        acc.skip('history-without-set')
        return
    u_init = fm.u0()
    u_run0, conv = fm.solve(fm.p0())
    if not conv:
        acc.skip('oracle-newton-not-converged')
        return
    has_solver = (not kit) and any(n.get('nl', {}).get('type') not in (None, 'runonce')
                                   for n in _groups(spec['tree']))
    calloc = random.Random(case['seed'] * 7919 + 13).random() < 0.25     # own stream: histories unchanged
    acc.count('cell:vectors=%s' % ('complex' if calloc else 'real'))
    reps = []
    for placement in (0, 1, 2):
        r = Replay(spec, fm, names, hist, placement, u_init, u_run0, acc, calloc=calloc, known0=known0)
        r.run()
        reps.append(r)
    bad = []
    for r in reps:
        bad += [(k, '%s {placement %d}' % (w, r.placement)) for k, w in r.bad]
    unj = [r.unjudgeable for r in reps if r.unjudgeable]
    # ---- (c) placements against each other ------------------------------------------------------------
    if not unj and not bad:
        a = reps[0]
        for other in reps[1:]:
            for stream in ('ops', 'final', 'after-run'):
                oa, oo = a.obs[stream], other.obs[stream]
                if len(oa) != len(oo):
                    bad.append(('placement-observation-count-differs:%s' % stream,
                                'placement 0 made %d observations, placement %d made %d' %
                                (len(oa), other.placement, len(oo))))
                    continue
                for j in range(len(oa)):
                    ta, va, ma, sa = oa[j]
                    to, vo, mo, so = oo[j]
                    if sa and (other.placement == 2 or stream == 'after-run'):
                        continue      # component outputs legitimately differ once the model has been run
                    if ta == 'n/a' or to == 'n/a':
                        continue      # (kit) not observable in one placement: dynamic shape not resolved yet
                    acc.count('obs:cross-placement-compare')
                    # (a placement that ran the model first may carry round-off level updates that a solver stack
                    #  put on independent variables)
                    tol = RUN_TOL if (has_solver and other.placement == 2) else 2 * RT
                    good, why = _close(vo, va, tol * max(ma, mo))
                    if not good:
                        bad.append(('placement-dependent-value:%s' % ta,
                                    '%s observation %d differs between placement 0 and %d: %s vs %s (%s)' %
                                    (stream, j, other.placement, _short(va), _short(vo), why)))
    if cyc or has_solver:
        acc.count('cell:model=cyclic')
    if bad:
        seen = set()
        first = True
        for k, w in bad:
            if k in seen:
                continue
            seen.add(k)
            acc.viol(k, w, case, new_case=first)
            first = False
            if len(seen) >= 6:
                break
        return
    if unj:
        acc.skip(unj[0])
        return
    combos = set()
    nontriv = False
    for o in hist:
        if o['op'] not in ('set', 'get'):
            combos.add((o['op'],))
            continue
        n = names[o['k']]
        ref = G._dec_list(o['idx']) if o['idx'] is not None else None
        cls, forms = _idx_class(ref, n['pos'].shape)
        ucls = reps[0]._ucls(n, o['units']) if o['units'] is not None else 'native'
        combos.add((o['op'], n['kind'], cls, tuple(sorted(forms)), ucls, o.get('form')))
        if o['op'] == 'set' and (cls != 'none' or ucls in ('units-scale', 'units-offset')):
            nontriv = True
    if kit:
        combos.add(('scalar-kit',) + tuple(sorted(c07_kit.features(spec))))
    acc.ok(fingerprint([sorted(combos), calloc]), nontrivial=nontriv,
           sample={'seed': case['seed'], 'names': [(n['name'], n['kind'], n['slot']) for n in names][:8],
                   'history': [dict(o, name=names[o['k']]['name']) if 'k' in o else o for o in hist][:8]})


def _groups(node):
    if 'comp' in node:
        return []
    out = [node]
    for ch in node['children']:
        out += _groups(ch)
    return out
